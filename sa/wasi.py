"""Harness for partial evaluation of the WASI host implementation (wasi/wasi.c).

The descriptor table `wasi.fds`, the argument/environment vectors and guest memory are abstract objects;
every libc call is an *event* (ordered trace) with a symbolic result, so a path summary shows which native
operations an entry point performs, on which descriptor fields, what it stores into guest memory at which
offsets, and what it returns.
"""
import subprocess

from . import astdb, pe, runtime
from .astdb import AnalysisBroken
from .pe import Sym, Ptr, unk, is_sym, PEError

_TU = {}


def wasi_tu(extra=(), config='default'):
    key = tuple(extra)
    if key not in _TU:
        _TU[key] = astdb.dump_ast(astdb.src('wasi/wasi.c'), extra=list(extra), config=config)
    return _TU[key]


def host_macros(names_prefixes=('E', 'SEEK_', 'O_', 'CLOCK_', 'PATH_MAX', 'WASI_'), header_text=None):
    """numeric object-like macros visible to wasi.c (host constants are never frozen in /verif)"""
    flags = astdb.flags_for(astdb.src('wasi/wasi.c'))
    r = subprocess.run([astdb.CLANG, '-dM', '-E'] + flags + [astdb.src('wasi/wasi.c')], capture_output=True, text=True)
    if r.returncode != 0:
        raise AnalysisBroken('clang -dM -E failed on wasi.c: %s' % r.stderr[:500])
    out = {}
    raw = {}
    for line in r.stdout.splitlines():
        parts = line.split(None, 2)
        if len(parts) == 3 and parts[0] == '#define' and '(' not in parts[1]:
            raw[parts[1]] = parts[2].strip()

    def val(s, depth=0):
        s = s.strip()
        if depth > 6:
            return None
        try:
            t = s.rstrip('uUlL')
            if len(t) > 1 and t[0] == '0' and t[1:].isdigit():
                return int(t, 8)
            return int(t, 0)
        except ValueError:
            pass
        if s.startswith('(') and s.endswith(')'):
            inner = s[1:-1]
            if '<<' in inner:
                a, b = inner.split('<<', 1)
                va, vb = val(a, depth + 1), val(b, depth + 1)
                if va is not None and vb is not None:
                    return va << vb
            return val(inner, depth + 1)
        if s in raw:
            return val(raw[s], depth + 1)
        if '|' in s:
            vs = [val(x, depth + 1) for x in s.split('|')]
            if all(v is not None for v in vs):
                r = 0
                for v in vs:
                    r |= v
                return r
        return None
    for k, v in raw.items():
        if any(k.startswith(p) for p in names_prefixes):
            n = val(v)
            if n is not None:
                out[k] = n
    return out


def _h(v):
    return pe._hashable(v)


def guest_leafs():
    """guest-memory helpers of w2c2_base.h as events"""
    L = {}

    def store(width):
        def f(interp, args, node):
            interp.event('gstore', (width, _h(args[1]), _h(args[2])), node)
            return None
        return f

    def load(width, ctype):
        def f(interp, args, node):
            interp.event('gload', (width, _h(args[1])), node)
            return Sym('gload', (width, _h(args[1])), ctype)
        return f
    for n, w in (('i32_store', 32), ('i64_store', 64), ('i32_store8', 8), ('i32_store16', 16), ('i64_store8', 8),
                 ('i64_store16', 16), ('i64_store32', 32)):
        L[n] = store(w)
    for n, w, t in (('i32_load', 32, 'unsigned int'), ('i64_load', 64, 'unsigned long long'), ('i32_load8_u', 8, 'unsigned int'),
                    ('i32_load16_u', 16, 'unsigned int')):
        L[n] = load(w, t)
    return L


def base_leafs(state):
    L = runtime.runtime_leafs()
    L.update(guest_leafs())
    for k in ('memcpy', '__builtin_memcpy', 'memmove', 'memset', 'calloc', 'malloc', 'realloc', 'free'):
        L.pop(k, None)

    def wasi_memory(interp, args, node):
        return state['memptr']

    def errno_loc(interp, args, node):
        return Ptr(state['errno'], 'v')

    def ev(name, ret=None):
        def f(interp, args, node):
            interp.event(name, tuple(_h(a) for a in args), node)
            return ret(interp, args) if callable(ret) else ret
        return f
    L['wasiMemory'] = wasi_memory
    L['__errno_location'] = errno_loc
    L['tracePrintf'] = lambda i, a, n: None
    L['exit'] = pe.leaf_abort('exit')
    L['abort'] = pe.leaf_abort('abort')
    L['strlen'] = lambda i, a, n: (i.event('strlen', (_h(a[0]),), n), (len(a[0]) if isinstance(a[0], str) else Sym('strlen', (_h(a[0]),), 'unsigned long')))[1]
    return L


def descriptor(fd=-1, dir_=0, path=0):
    return {'fd': fd, 'dir': dir_, 'path': path}


def make_interp(tu, state, extra_leafs=None, max_paths=3000):
    leafs = base_leafs(state)
    if extra_leafs:
        leafs.update(extra_leafs)
    it = pe.Interp([tu], leafs, max_paths=max_paths)
    it.cur_tu = tu
    it.loop_abort = True
    return it


def seed_globals(it, tu, state, table, argv=None, envp=None, errno_value=None, argv_tail=(0,)):
    """install the `wasi` singleton with the given descriptor table (list of descriptor dicts)"""
    vd = tu.vars.get('wasi')
    if vd is None:
        raise AnalysisBroken('static WASI wasi not found in wasi.c')
    argv = argv if argv is not None else []
    envp = envp if envp is not None else []
    w = {'envc': len(envp), 'envp': Ptr(list(envp) + [0], 0), 'argc': len(argv), 'argv': Ptr(list(argv) + list(argv_tail), 0),
         'fds': runtime.Traced(it, 'fds', {'fds': Ptr(table, 0), 'length': len(table), 'capacity': len(table) + 8})}
    it.globals[vd['id']] = w
    mem = runtime.Traced(it, 'gmem', {'data': unk('gdata', 'unsigned char *'), 'size': unk('gsize'), 'pages': unk('gpages'),
                                      'maxPages': unk('gmax'), 'shared': unk('gshared'), 'futex': 0, 'futexFree': 0,
                                      'mutex': {'_opaque': 1}})
    state['memcell'] = {'v': mem}
    state['memptr'] = Ptr(state['memcell'], 'v')
    state['errno'] = {'v': unk('errno', 'int') if errno_value is None else errno_value}
    state['wasi'] = w
    return w


def entry_points(tu):
    """{import name: {'preview1': decl, 'unstable': decl}}"""
    out = {}
    for name, f in tu.functions.items():
        for pre, gen in (('wasi_snapshot_preview1__', 'preview1'), ('wasi_unstable__', 'unstable')):
            if name.startswith(pre):
                out.setdefault(name[len(pre):], {})[gen] = f
    return out


def param_types(tu, f):
    return [tu.desugar(astdb.qtype(p)) for p in astdb.fn_params(f)]


def explore_entry(tu, fname, make_args, table_factory, extra_leafs=None, argv=None, envp=None, max_paths=3000,
                  errno_value=None, extern_hook=None):
    """PE one function. make_args(it, state) -> [args]; table_factory() -> list of descriptor dicts"""
    state = {}
    it = make_interp(tu, state, extra_leafs, max_paths)
    it.extern_hook = extern_hook

    def setup():
        state.clear()
        table = table_factory()
        seed_globals(it, tu, state, table, argv, envp, errno_value)
        state['table'] = table
        args = make_args(it, state)
        return (fname, args, dict(state))
    return it.explore(setup)


def raw_guest_writes(tu, fdecl, table_factory, max_paths=600):
    """{target text} of stores the import itself performs into guest memory through an index/pointer expression (not through
    the typed store helpers, not through a host call that receives buffer and length) - evaluated with a live descriptor 3"""
    from . import astdb as _a
    params = _a.fn_params(fdecl)

    def mk(it, st):
        args = [unk('instance')]
        for i, prm in enumerate(params[1:]):
            nm = prm.get('name', 'p%d' % i)
            if nm in ('fd', 'dirFD', 'oldFD', 'newFD', 'oldDirFD', 'newDirFD', 'fromFD', 'toFD'):
                args.append(3)
            elif 'Count' in nm or 'count' in nm:
                args.append(1)
            elif nm == 'whence':
                args.append(0)
            elif 'lags' in nm or 'ights' in nm:
                args.append(0)
            else:
                args.append(unk(nm, tu.desugar(_a.qtype(prm))))
        return args
    paths = explore_entry(tu, fdecl['name'], mk, table_factory, max_paths=max_paths, errno_value=5)
    raw = set()
    for p in paths:
        for n, a, l in p.events:
            if n.startswith('store-sym') and 'gdata' in repr(a[0]):
                raw.add(repr(a[0])[:120])
    return raw, len(paths)
