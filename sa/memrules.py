"""Rules shared by C05 / C16 / C17 / C19: memory-access templates (effective address, operand roles) and the
runtime functions they call (access width, extension, atomics, byte reversal)."""
import re

from . import astdb, pe, emit, oracle, templates, runtime, ctyperules as ct, semrules as sr
from .astdb import AnalysisBroken
from .pe import Sym, is_sym

FILLER = ['i64']
W_OF = sr.W_OF
SEQ_CST = 5


def canon_slice(s):
    if s[0] != 'slice':
        return s
    _, base, k, ext, W, S = s
    if k >= W:
        return (base, W, 'z', W)
    return (base, k, ext, W)


class MemTemplates:
    """templates of one memory instruction: the offset!=0 and offset==0 variants, per formatting mode"""

    def __init__(self):
        self.variants = {}      # (pretty, 'off'|'nooff') -> Template
        self.align_consts = set()
        self.problems = []
        self._seen = []
        self.all = []           # every successful emitting path (key, Template), including ones that differ only in an alignment test


def extract_mem(it, row, tabs, configs):
    base = len(FILLER)
    stack = FILLER + row['params']
    out = MemTemplates()
    align = pe.unk('align')
    offset = pe.unk('offset')
    for pretty, multiple in configs:
        tpls = templates.extract(it, row, stack, pretty, multiple)
        good = [t for t in tpls if t.ok and t.parts]
        for t in tpls:
            for cond, taken, loc in t.path.decisions:
                syms = [s for s in pe.sym_walk(cond) if s.op == 'unk']
                if any(s == align for s in syms):
                    c0 = pe.norm_cond(cond)
                    while c0.op == '!':
                        c0 = pe.norm_cond(c0.args[0])
                    if c0.op in ('!=', '==') and c0.args[0] == align and isinstance(c0.args[1], int):
                        out.align_consts.add(c0.args[1])
                    else:
                        out.problems.append('unrecognised alignment test %r' % (cond,))
                elif any(s == offset for s in syms):
                    if _offset_nonzero(cond, True, offset) is None:
                        out.problems.append('unrecognised offset test %r at %s' % (cond, loc))
                else:
                    out.problems.append('decision on %r at %s' % (cond, loc))
        for t in good:
            uses_off = any(isinstance(p, tuple) and is_sym(p[1]) and p[1] == offset for p in t.parts)
            # which value of (offset != 0) does this path assume?
            off_dec = [_offset_nonzero(c, tk, offset) for c, tk, _ in t.path.decisions if offset in list(pe.sym_walk(c))]
            key = (pretty, multiple, 'off' if (off_dec and off_dec[0]) or (not off_dec and uses_off) else 'nooff')
            if not off_dec:
                key = (pretty, multiple, 'always-off' if uses_off else 'never-off')
            adec = tuple(sorted((repr(pe.norm_cond(c)), bool(tk)) for c, tk, _ in t.path.decisions if align in list(pe.sym_walk(c))))
            if any(k_ == key and a_ == adec for k_, _t, a_ in out._seen):
                out.problems.append('two successful paths for %r' % (key,))
            out._seen.append((key, t, adec))
            out.variants[key] = t
            out.all.append((key, t))
    return out


def _offset_nonzero(cond, taken, offset):
    """does the decision establish offset != 0 on this path?  Accepts offset != 0, offset == 0, offset, !offset (through casts)"""
    c0 = pe.norm_cond(cond)
    neg = False
    while pe.is_sym(c0) and c0.op == '!':
        neg = not neg
        c0 = pe.norm_cond(c0.args[0])
    c1 = pe.strip_casts(c0)
    if pe.is_sym(c1) and c1.op in ('!=', '==') and c1.args[1] == 0 and pe.strip_casts(c1.args[0]) == offset:
        r = bool(taken) if c1.op == '!=' else not taken
    elif pe.is_sym(c1) and c1.op in ('>', '<=') and c1.args[1] == 0 and pe.strip_casts(c1.args[0]) == offset:
        r = bool(taken) if c1.op == '>' else not taken          # the offset is unsigned: > 0 is != 0
    elif pe.is_sym(c1) and c1.op in ('>=', '<') and c1.args[1] == 1 and pe.strip_casts(c1.args[0]) == offset:
        r = bool(taken) if c1.op == '>=' else not taken
    elif c1 == offset:
        r = bool(taken)
    else:
        return None
    return (not r) if neg else r


def slot(tabs, t, idx):
    return 's%s%d' % (tabs['letter'][t], idx)


def check_memarg_use(chk, rule, row, mt, site):
    """the decoded static offset must reach the emitted text whenever it is non-zero"""
    nm = row['name']
    keys = set(k[2] for k in mt.variants)
    if mt.problems:
        raise AnalysisBroken('%s: %s' % (nm, '; '.join(mt.problems)))
    ok = keys == {'off', 'nooff'} or keys == {'always-off'}
    return chk.expect(ok, rule, nm + ':offset-used',
                      'the static offset of %s is decoded but never reaches the generated access (variants: %s) - the '
                      'effective address is base+offset in the specification' % (nm, sorted(keys)), site,
                      detail_ok='offset emitted iff non-zero' if 'off' in keys else 'offset always emitted')


def ea_problems(e, addr_slot, with_offset):
    """e: the address argument of a memory-access call in a typed template"""
    probs = []
    core = e
    while core.k == 'cast' and core.a[0].k == 'bin':
        core = core.a[0]
    if with_offset:
        if core.k != 'bin' or core.x != '+':
            return ['effective address %r is not base + offset' % (e,)]
        ti = ct.tinfo(core.ty)
        if ti != ('int', 64, False):
            probs.append('base + offset is computed in %s: a 32-bit sum wraps around, the specification computes the '
                         'effective address without wrap-around (needs a 64-bit unsigned type)' % core.ty)
        sides = list(core.a)
        consts = [ct.const_value(s) for s in sides]
        if templates.OFFSET_MAGIC not in consts:
            probs.append('no operand of the sum is the decoded offset: %r' % (core,))
        else:
            b = sides[1 - consts.index(templates.OFFSET_MAGIC)]
            v = ct.iabs(b)
            if canon_slice(v) != (addr_slot, 32, 'z', 64):
                probs.append('base operand is %r, expected the zero-extended 32-bit address operand %s' % (b, addr_slot))
    else:
        v = ct.iabs(e)
        if v[0] != 'slice' or v[1] != addr_slot or v[2] != 32 or (v[4] > 32 and v[3] != 'z' and v[2] < v[4]):
            probs.append('address is %r, expected the (zero-extended) address operand %s' % (e, addr_slot))
    return probs


def parse_call_template(tu, fname):
    stmts = [s for s in ct.statements(tu.fn(fname)) if s.get('kind') != 'NullStmt']
    if len(stmts) != 1:
        raise AnalysisBroken('template %s is not a single statement' % fname)
    e = ct.simplify(stmts[0], tu)
    dst = None
    if e.k == 'assign':
        dst = e.a[0]
        e = e.a[1]
    casts = []
    while e.k == 'cast':
        casts.append(e.ty)
        e = e.a[0]
    if e.k != 'call':
        raise AnalysisBroken('template %s is not a call: %r' % (fname, e))
    return dst, e, casts


def mem_ref_ok(e, index=0):
    """e is i->m<index> (pointer to the instance's memory)"""
    while e.k == 'cast':
        e = e.a[0]
    if e.k == 'addr' and e.a[0].k == 'deref':
        e = e.a[0].a[0]
    return e.k == 'member' and e.x[0] == 'm%d' % index and e.x[1] and e.a[0].k == 'var' and e.a[0].x == 'i'


# ---- runtime function summaries ------------------------------------------------------------------------

def summarize_access(tu, fname):
    f = tu.functions.get(fname)
    if f is None:
        return None
    ps = astdb.fn_params(f)

    def mk(it):
        mem = {'v': runtime.memory_record(it)}
        args = [pe.Ptr(mem, 'v')] + [pe.unk(p['name'], tu.desugar(astdb.qtype(p))) for p in ps[1:]]
        return args, {'mem': mem['v']}
    paths = runtime.summarize(tu, fname, mk)
    ptypes = [tu.desugar(astdb.qtype(p)) for p in ps]
    rtype = tu.desugar(astdb.qtype(f)).split('(')[0].strip()
    return dict(paths=paths, ptypes=ptypes, rtype=rtype, pnames=[p['name'] for p in ps], tu=tu, fname=fname)


def mem_location(v, addr_name='addr'):
    """v denotes &mem->data[addr] / mem->data + addr with the full address parameter -> True"""
    if not is_sym(v):
        return False
    a = pe.unk(addr_name)
    d = pe.unk('data')
    if v.op == 'addr' and v.args[0].op == 'index':
        return v.args[0].args[0] == d and v.args[0].args[1] == a
    if v.op == 'deref':
        return mem_location(v.args[0], addr_name)
    if v.op == '+':
        return v.args[0] == d and v.args[1] == a
    if v.op == 'index':
        return v.args[0] == d and v.args[1] == a
    return False


def mem_events(path):
    """events of a path that touch linear memory: (kind, width in bits or None, detail)"""
    out = []
    for name, args, loc in path.events:
        if name in ('memcpy', 'memmove'):
            dst, src, n = args
            if mem_location(dst):
                out.append(('copy-to-mem', n * 8 if isinstance(n, int) else None, src, loc))
            elif mem_location(src if not isinstance(src, tuple) else None):
                out.append(('copy-from-mem', n * 8 if isinstance(n, int) else None, dst, loc))
        elif name == 'atomic':
            out.append(('atomic', args, None, loc))
        elif name == 'store-sym':
            tgt = args[0]
            if is_sym(tgt) and tgt.op == 'deref' and mem_location(tgt):
                w = ct.tinfo(tgt.ctype)
                out.append(('raw-store', w[1] if w[0] == 'int' else None, args[1], loc))
    return out


def raw_loads(v):
    """deref(mem location) sub-terms of a symbolic value: [(width)]"""
    out = []
    for s in pe.sym_walk(v):
        if s.op == 'deref' and mem_location(s):
            w = ct.tinfo(s.ctype)
            out.append(w[1] if w[0] == 'int' else None)
    return out


def aligned_alias_load(summ, p, access):
    """the path returns *(T*)&mem->data[addr] where T is a typedef carrying __may_alias__ of `access` bits, after a decision that
    the address is a multiple of access/8"""
    tu, fname = summ.get('tu'), summ.get('fname')
    if tu is None or fname not in tu.functions:
        return False
    base = p.ret
    while is_sym(base) and base.op == 'cast':
        base = base.args[0]
    if not (is_sym(base) and base.op == 'deref' and mem_location(base)):
        return False
    w = ct.tinfo(base.ctype)
    if w[0] != 'int' or w[1] != access:
        return False
    # every typed dereference of the function body goes through a may_alias typedef
    derefs = []
    for n in astdb.walk(astdb.fn_body(tu.functions[fname])):
        if n.get('kind') == 'UnaryOperator' and n.get('opcode') == '*':
            sub = astdb.strip(astdb.kids(n)[0])
            if sub.get('kind') == 'CStyleCastExpr':
                pt = (astdb.qtype(sub) or '').replace('const ', '').replace('volatile ', '').strip()
                name = pt.rstrip('*').strip()
                td = tu.typedefs.get(name)
                derefs.append(td is not None and any(c.get('kind') == 'MayAliasAttr' for c in td.get('inner', [])))
    if not derefs or not all(derefs):
        return False
    # alignment established on this path: ((integer)address & (bytes - 1)) == 0
    for c, taken, _l in p.decisions:
        c0 = pe.norm_cond(c)
        if is_sym(c0) and c0.op == '==' and taken and c0.args[1] == 0:
            m = pe.strip_casts(c0.args[0])
            if is_sym(m) and m.op == '&' and len(m.args) == 2:
                x, k = m.args
                if isinstance(x, int):
                    x, k = k, x
                if k == access // 8 - 1 and mem_location(pe.strip_casts(x)):
                    return True
    return False


def check_plain_load(chk, rule, row, summ, site, cfg='le'):
    sem = row['sem']
    nm = row['name']
    access, Wres = sem['access'], W_OF[sem['type']]
    isf = sem['type'][0] == 'f'
    probs = []
    if summ['ptypes'][1:] != ['unsigned long long']:
        probs.append('address parameter has type %r; a 64-bit unsigned address is needed for wrap-free base+offset' % (summ['ptypes'][1:],))
    want_r = ('float', Wres) if isf else ('int', Wres, False)
    if ct.tinfo(summ['rtype']) != want_r:
        probs.append('returns %s, the operand slot is %r' % (summ['rtype'], want_r))
    for p in summ['paths']:
        ev = mem_events(p)
        if cfg == 'le' and not ev and aligned_alias_load(summ, p, access):
            # GNU C: a direct read through a may_alias type on a path that has established the alignment of the address is well-defined
            # and reads the same `access` bits as the byte copy
            s_ = runtime.sym_slice(p.ret) if not isf else None
            if not isf and (s_[0] != 'slice' or canon_slice(s_)[1:] != ((access, 's' if sem.get('ext') == 's' else 'z', Wres) if access < Wres
                                                                         else (Wres, 'z', Wres))):
                probs.append('aligned direct read returns %r; specification: %d bits extended to %d' % (p.ret, access, Wres))
            continue
        if cfg == 'le':
            copies = [e for e in ev if e[0] == 'copy-from-mem']
            if len(ev) != 1 or len(copies) != 1:
                probs.append('touches linear memory %d times (%s); expected exactly one alignment-tolerant byte copy'
                             % (len(ev), [e[0] for e in ev]))
            elif copies[0][1] != access:
                probs.append('copies %r bits from memory, specification accesses %d bits' % (copies[0][1], access))
            if raw_loads(p.ret):
                probs.append('dereferences linear memory through a typed pointer (alignment / aliasing)')
        ret = p.ret
        if isf:
            base = ret
            while is_sym(base) and base.op == 'cast':
                if ct.tinfo(base.ctype) != ('float', Wres):
                    probs.append('value passes through a conversion to %s' % base.ctype)
                base = base.args[0]
            if not (is_sym(base) and base.op == 'bytes' and ct.tinfo(base.ctype) == ('float', Wres)):
                probs.append('returned value %r is not the %d loaded bytes read as binary%d' % (ret, access // 8, Wres))
        else:
            s = runtime.sym_slice(ret)
            if s[0] != 'slice':
                probs.append('returned value %r is not an extension of the loaded bytes (%s)' % (ret, s[1]))
            else:
                k, ext = s[2], s[3]
                base = s[1]
                if not (is_sym(base) and base.op == 'bytes'):
                    probs.append('returned value is derived from %r, not from the loaded bytes' % (base,))
                want_ext = 's' if sem['ext'] == 's' else 'z'
                got = canon_slice(s)
                if (got[1], got[2], got[3]) != ((access, want_ext, Wres) if access < Wres else (Wres, 'z', Wres)):
                    probs.append('result is the %s-extension of %d loaded bits to %d bits; specification: %s-extension of %d bits to %d'
                                 % ('sign' if got[2] == 's' else 'zero', got[1], got[3],
                                    'sign' if want_ext == 's' else 'zero', access, Wres))
    for pr in probs:
        chk.fail(rule, '%s@%s' % (nm, cfg), '%s: %s' % (nm, pr), site)
    if not probs:
        chk.ok(rule, '%s@%s' % (nm, cfg), 'one %d-bit copy, %s' % (access, summ['paths'][0].ret))
    return not probs


def check_plain_store(chk, rule, row, summ, site, cfg='le'):
    sem = row['sem']
    nm = row['name']
    access, Wv = sem['access'], W_OF[sem['type']]
    isf = sem['type'][0] == 'f'
    probs = []
    if summ['ptypes'][1:2] != ['unsigned long long']:
        probs.append('address parameter has type %r; a 64-bit unsigned address is needed' % (summ['ptypes'][1:2],))
    want_v = ('float', Wv) if isf else ('int', Wv, False)
    if ct.tinfo(summ['ptypes'][2]) != want_v:
        probs.append('value parameter has type %s, the operand slot is %r' % (summ['ptypes'][2], want_v))
    value = pe.unk('value')
    for p in summ['paths']:
        ev = mem_events(p)
        if cfg == 'le':
            copies = [e for e in ev if e[0] == 'copy-to-mem']
            if len(ev) != 1 or len(copies) != 1:
                probs.append('touches linear memory %d times (%s); expected exactly one byte copy' % (len(ev), [e[0] for e in ev]))
                continue
            kind, w, src, loc = copies[0]
            if w != access:
                probs.append('stores %r bits, specification stores %d bits' % (w, access))
            v = src[1] if isinstance(src, tuple) else src
            if isf:
                base = v
                while is_sym(base) and base.op == 'cast' and ct.tinfo(base.ctype) == ('float', Wv):
                    base = base.args[0]
                if base != value:
                    probs.append('stored bytes are %r, expected the value operand' % (v,))
            else:
                s = runtime.sym_slice(v)
                if s[0] != 'slice' or s[1] != value or min(s[2], s[4]) < access:
                    probs.append('stored bytes are %r, expected the low %d bits of the value operand' % (v, access))
    for pr in probs:
        chk.fail(rule, '%s@%s' % (nm, cfg), '%s: %s' % (nm, pr), site)
    if not probs:
        chk.ok(rule, '%s@%s' % (nm, cfg), 'one %d-bit copy of the wrapped value' % access)
    return not probs


ATOMIC_BUILTIN = {'add': '__atomic_fetch_add', 'sub': '__atomic_fetch_sub', 'and': '__atomic_fetch_and',
                  'or': '__atomic_fetch_or', 'xor': '__atomic_fetch_xor', 'xchg': '__atomic_exchange_n'}


def check_atomic_le(chk, rule, row, summ, site, tu):
    """little-endian configuration: one seq_cst builtin of the right operation and width"""
    sem = row['sem']
    nm = row['name']
    cls = sem['cls']
    access, Wt = sem['access'], W_OF[sem['type']]
    probs = []
    if summ['ptypes'][1:2] != ['unsigned long long']:
        probs.append('address parameter has type %r; needs a 64-bit unsigned address' % (summ['ptypes'][1:2],))
    want = {'atomic.load': '__atomic_load_n', 'atomic.store': '__atomic_store_n',
            'atomic.cmpxchg': '__atomic_compare_exchange_n'}.get(cls) or ATOMIC_BUILTIN[sem['op']]
    def operand_zero_test(p):
        """the path's decisions are only comparisons of the wrapped value operand with 0 -> True (operand == 0) / False (!= 0) / None"""
        verdict = None
        rels = []
        for c, taken, _l in p.decisions:
            c = pe.norm_cond(c)
            while is_sym(c) and c.op == '!':
                taken = not taken
                c = pe.norm_cond(c.args[0])
            if is_sym(c) and c.op in ('==', '!=') and len(c.args) == 2:
                x_, y_ = c.args
                if x_ == 0:
                    x_, y_ = y_, x_
                rels.append((c.op if taken else {'==': '!=', '!=': '=='}[c.op], x_, y_))
            elif is_sym(c):
                rels.append(('!=' if taken else '==', c, 0))        # a value tested for truth
            else:
                return None
        if not rels:
            return None
        for rop, a_, b_ in rels:
            if b_ != 0 or rop not in ('==', '!='):
                return None
            s_ = runtime.sym_slice(a_) if is_sym(a_) else ('top',)
            if s_[0] != 'slice' or s_[1] != pe.unk('value') or min(s_[2], s_[4]) != access:
                return None
            v_ = rop == '=='
            if verdict is not None and verdict != v_:
                return None
            verdict = v_
        return verdict
    zero_case = {}
    if len(summ['paths']) > 1:
        # paths that differ only in a decision, not in what they do (same memory events, same result), are one behaviour
        sig = {}
        for p in summ['paths']:
            sig.setdefault((repr(mem_events(p)), repr(p.ret)), p)
        if len(sig) == 1:
            summ = dict(summ, paths=[list(sig.values())[0]])
    if len(summ['paths']) != 1:
        # the only recognised branching: a shortcut for a zero operand of an operator whose identity is 0 (x op 0 == x), where an
        # atomic load is a valid linearisation of the read-modify-write
        for p in summ['paths']:
            zero_case[id(p)] = operand_zero_test(p)
        if cls != 'atomic.rmw' or sem.get('op') not in ('add', 'sub', 'or', 'xor') or len(summ['paths']) != 2 or \
                sorted(zero_case.values(), key=str) != [False, True]:
            probs.append('%d paths through the function, expected straight-line code' % len(summ['paths']))
            zero_case = {}
    for p in summ['paths']:
        ev = mem_events(p)
        at = [e for e in ev if e[0] == 'atomic']
        if len(ev) != 1 or len(at) != 1:
            probs.append('touches linear memory %d times (%s); atomicity needs exactly one atomic builtin and nothing else'
                         % (len(ev), [e[0] for e in ev]))
            continue
        args = at[0][1]
        name = args[0]
        want_p = '__atomic_load_n' if zero_case.get(id(p)) is True else want
        if name != want_p:
            probs.append('uses %s, specification requires %s' % (name, want_p))
        if not mem_location(args[1]):
            probs.append('operates on %r, expected &mem->data[addr]' % (args[1],))
        ptr_w = args[-1]
        if ptr_w != access:
            probs.append('the builtin operates on a %s-bit object, specification accesses %d bits' % (ptr_w, access))
        real = args[1:-1]
        orders = [real[1]] if name != '__atomic_compare_exchange_n' else [real[1], real[3]]
        if any(o != SEQ_CST for o in orders):
            probs.append('memory order %r, specification requires sequential consistency (%d)' % (orders, SEQ_CST))
        vals = {'value': None}
        if name in ('__atomic_store_n',) or name.startswith('__atomic_fetch') or name == '__atomic_exchange_n':
            s = runtime.sym_slice(real[2])
            if s[0] != 'slice' or s[1] != pe.unk('value') or min(s[2], s[4]) != access:
                probs.append('operand is %r, expected the low %d bits of the value operand' % (real[2], access))
        if name == '__atomic_compare_exchange_n':
            if real[5] != 0:
                probs.append('weak compare-exchange may fail spuriously')
            s = runtime.sym_slice(real[4])
            if s[0] != 'slice' or s[1] != pe.unk('replacement') or min(s[2], s[4]) != access:
                probs.append('desired value is %r, expected the low %d bits of the replacement operand' % (real[4], access))
            # expected pointer: initial content must be the low bits of `expected`
        if cls != 'atomic.store':
            s = runtime.sym_slice(p.ret)
            if s[0] != 'slice':
                probs.append('returned value %r is not an extension of the old value' % (p.ret,))
            else:
                g = canon_slice(s)
                base = s[1]
                okbase = is_sym(base) and base.op in ('atomic-old', 'observed')
                if not okbase or (g[1], g[2], g[3]) != ((access, 'z', Wt) if access < Wt else (Wt, 'z', Wt)):
                    probs.append('returns %r; specification: the old %d-bit value zero-extended to %d bits' % (p.ret, access, Wt))
    for pr in probs:
        chk.fail(rule, nm + '@le', '%s: %s' % (nm, pr), site)
    if not probs:
        chk.ok(rule, nm + '@le', '%s on %d bits, seq_cst' % (want, access))
    return not probs
