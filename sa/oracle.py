"""Oracle tables: WebAssembly instruction set of the supported feature set (core 1.0, sign-extension,
non-trapping float-to-int, bulk memory, threads), keyed by ENCODING - never by an enumerator name or a
description string of /repo.  Sources: WebAssembly Core Specification 2.0, section 5.4 (binary format of
instructions) and 4.3 (numerics); threads proposal overview (0xFE opcodes).

Each row: enc (tuple of ints: opcode byte, or (prefix, sub-opcode)), name, params, results, imm (list of
immediate stream tags in binary order), sem (semantic row, class specific).
"""

I32, I64, F32, F64 = 'i32', 'i64', 'f32', 'f64'
WIDTH = {I32: 32, I64: 64, F32: 32, F64: 64}

ROWS = []


def row(enc, name, params, results, imm=(), **sem):
    if isinstance(enc, int):
        enc = (enc,)
    r = dict(enc=enc, name=name, params=list(params), results=list(results), imm=list(imm), sem=sem)
    ROWS.append(r)
    return r


# ---- control / parametric / variable ---------------------------------------------------
row(0x00, 'unreachable', [], [], cls='unreachable')
row(0x01, 'nop', [], [], cls='nop')
row(0x02, 'block', [], [], ['blocktype'], cls='block')
row(0x03, 'loop', [], [], ['blocktype'], cls='loop')
row(0x04, 'if', [I32], [], ['blocktype'], cls='if')
row(0x05, 'else', [], [], cls='else')
row(0x0B, 'end', [], [], cls='end')
row(0x0C, 'br', [], [], ['u32'], cls='br')
row(0x0D, 'br_if', [I32], [], ['u32'], cls='br_if')
row(0x0E, 'br_table', [I32], [], ['vec_u32', 'u32'], cls='br_table')
row(0x0F, 'return', [], [], cls='return')
row(0x10, 'call', [], [], ['u32'], cls='call')
row(0x11, 'call_indirect', [I32], [], ['u32', 'u32'], cls='call_indirect')
row(0x1A, 'drop', ['any'], [], cls='drop')
row(0x1B, 'select', ['any', 'any', I32], ['any'], cls='select')
row(0x20, 'local.get', [], ['any'], ['u32'], cls='local.get')
row(0x21, 'local.set', ['any'], [], ['u32'], cls='local.set')
row(0x22, 'local.tee', ['any'], ['any'], ['u32'], cls='local.tee')
row(0x23, 'global.get', [], ['any'], ['u32'], cls='global.get')
row(0x24, 'global.set', ['any'], [], ['u32'], cls='global.set')

# ---- memory -----------------------------------------------------------------------------
_loads = [
    (0x28, 'i32.load', I32, 32, None), (0x29, 'i64.load', I64, 64, None),
    (0x2A, 'f32.load', F32, 32, None), (0x2B, 'f64.load', F64, 64, None),
    (0x2C, 'i32.load8_s', I32, 8, 's'), (0x2D, 'i32.load8_u', I32, 8, 'u'),
    (0x2E, 'i32.load16_s', I32, 16, 's'), (0x2F, 'i32.load16_u', I32, 16, 'u'),
    (0x30, 'i64.load8_s', I64, 8, 's'), (0x31, 'i64.load8_u', I64, 8, 'u'),
    (0x32, 'i64.load16_s', I64, 16, 's'), (0x33, 'i64.load16_u', I64, 16, 'u'),
    (0x34, 'i64.load32_s', I64, 32, 's'), (0x35, 'i64.load32_u', I64, 32, 'u'),
]
for enc, name, t, w, ext in _loads:
    row(enc, name, [I32], [t], ['u32', 'u32'], cls='load', type=t, access=w, ext=ext)
_stores = [
    (0x36, 'i32.store', I32, 32), (0x37, 'i64.store', I64, 64), (0x38, 'f32.store', F32, 32),
    (0x39, 'f64.store', F64, 64), (0x3A, 'i32.store8', I32, 8), (0x3B, 'i32.store16', I32, 16),
    (0x3C, 'i64.store8', I64, 8), (0x3D, 'i64.store16', I64, 16), (0x3E, 'i64.store32', I64, 32),
]
for enc, name, t, w in _stores:
    row(enc, name, [I32, t], [], ['u32', 'u32'], cls='store', type=t, access=w)
row(0x3F, 'memory.size', [], [I32], ['u32'], cls='memory.size')
row(0x40, 'memory.grow', [I32], [I32], ['u32'], cls='memory.grow')

# ---- constants --------------------------------------------------------------------------
row(0x41, 'i32.const', [], [I32], ['i32'], cls='const', type=I32)
row(0x42, 'i64.const', [], [I64], ['i64'], cls='const', type=I64)
row(0x43, 'f32.const', [], [F32], ['f32'], cls='const', type=F32)
row(0x44, 'f64.const', [], [F64], ['f64'], cls='const', type=F64)

# ---- integer comparison / arithmetic ------------------------------------------------------
_icmp = ['eq', 'ne', 'lt_s', 'lt_u', 'gt_s', 'gt_u', 'le_s', 'le_u', 'ge_s', 'ge_u']
_COP = {'eq': '==', 'ne': '!=', 'lt': '<', 'gt': '>', 'le': '<=', 'ge': '>='}
for t, base in ((I32, 0x45), (I64, 0x50)):
    row(base, t + '.eqz', [t], [I32], cls='eqz', type=t)
    for k, n in enumerate(_icmp):
        op, _, sg = n.partition('_')
        row(base + 1 + k, '%s.%s' % (t, n), [t, t], [I32], cls='icmp', type=t, op=_COP[op], sign=sg or None)
_fcmp = ['eq', 'ne', 'lt', 'gt', 'le', 'ge']
for t, base in ((F32, 0x5B), (F64, 0x61)):
    for k, n in enumerate(_fcmp):
        row(base + k, '%s.%s' % (t, n), [t, t], [I32], cls='fcmp', type=t, op=_COP[n])
_iarith = [('clz', 'clz', 1), ('ctz', 'ctz', 1), ('popcnt', 'popcnt', 1),
           ('add', 'bin', 2), ('sub', 'bin', 2), ('mul', 'bin', 2),
           ('div_s', 'div', 2), ('div_u', 'div', 2), ('rem_s', 'rem', 2), ('rem_u', 'rem', 2),
           ('and', 'bin', 2), ('or', 'bin', 2), ('xor', 'bin', 2),
           ('shl', 'shift', 2), ('shr_s', 'shift', 2), ('shr_u', 'shift', 2),
           ('rotl', 'rot', 2), ('rotr', 'rot', 2)]
_BOP = {'add': '+', 'sub': '-', 'mul': '*', 'and': '&', 'or': '|', 'xor': '^'}
for t, base in ((I32, 0x67), (I64, 0x79)):
    for k, (n, cls, ar) in enumerate(_iarith):
        sem = dict(cls=cls, type=t)
        if cls == 'bin':
            sem['op'] = _BOP[n]
        elif cls in ('div', 'rem'):
            sem['sign'] = n[-1]
        elif cls == 'shift':
            sem['dir'] = 'l' if n == 'shl' else 'r'
            sem['sign'] = 's' if n == 'shr_s' else 'u'
        elif cls == 'rot':
            sem['dir'] = n[-1]
        row(base + k, '%s.%s' % (t, n), [t] * ar, [t], **sem)

# ---- float arithmetic ----------------------------------------------------------------------
_farith = [('abs', 1), ('neg', 1), ('ceil', 1), ('floor', 1), ('trunc', 1), ('nearest', 1), ('sqrt', 1),
           ('add', 2), ('sub', 2), ('mul', 2), ('div', 2), ('min', 2), ('max', 2), ('copysign', 2)]
for t, base in ((F32, 0x8B), (F64, 0x99)):
    for k, (n, ar) in enumerate(_farith):
        row(base + k, '%s.%s' % (t, n), [t] * ar, [t], cls='f' + n, type=t)

# ---- conversions ------------------------------------------------------------------------------
row(0xA7, 'i32.wrap_i64', [I64], [I32], cls='wrap')
_tr = [(0xA8, I32, F32, 's'), (0xA9, I32, F32, 'u'), (0xAA, I32, F64, 's'), (0xAB, I32, F64, 'u')]
for enc, d, s, sg in _tr:
    row(enc, '%s.trunc_%s_%s' % (d, s, sg), [s], [d], cls='trunc', dst=d, src=s, sign=sg, sat=False)
row(0xAC, 'i64.extend_i32_s', [I32], [I64], cls='extend', from_bits=32, sign='s')
row(0xAD, 'i64.extend_i32_u', [I32], [I64], cls='extend', from_bits=32, sign='u')
_tr = [(0xAE, I64, F32, 's'), (0xAF, I64, F32, 'u'), (0xB0, I64, F64, 's'), (0xB1, I64, F64, 'u')]
for enc, d, s, sg in _tr:
    row(enc, '%s.trunc_%s_%s' % (d, s, sg), [s], [d], cls='trunc', dst=d, src=s, sign=sg, sat=False)
_cv = [(0xB2, F32, I32, 's'), (0xB3, F32, I32, 'u'), (0xB4, F32, I64, 's'), (0xB5, F32, I64, 'u')]
for enc, d, s, sg in _cv:
    row(enc, '%s.convert_%s_%s' % (d, s, sg), [s], [d], cls='convert', dst=d, src=s, sign=sg)
row(0xB6, 'f32.demote_f64', [F64], [F32], cls='demote')
_cv = [(0xB7, F64, I32, 's'), (0xB8, F64, I32, 'u'), (0xB9, F64, I64, 's'), (0xBA, F64, I64, 'u')]
for enc, d, s, sg in _cv:
    row(enc, '%s.convert_%s_%s' % (d, s, sg), [s], [d], cls='convert', dst=d, src=s, sign=sg)
row(0xBB, 'f64.promote_f32', [F32], [F64], cls='promote')
row(0xBC, 'i32.reinterpret_f32', [F32], [I32], cls='reinterpret', dst=I32, src=F32)
row(0xBD, 'i64.reinterpret_f64', [F64], [I64], cls='reinterpret', dst=I64, src=F64)
row(0xBE, 'f32.reinterpret_i32', [I32], [F32], cls='reinterpret', dst=F32, src=I32)
row(0xBF, 'f64.reinterpret_i64', [I64], [F64], cls='reinterpret', dst=F64, src=I64)
row(0xC0, 'i32.extend8_s', [I32], [I32], cls='extend', from_bits=8, sign='s')
row(0xC1, 'i32.extend16_s', [I32], [I32], cls='extend', from_bits=16, sign='s')
row(0xC2, 'i64.extend8_s', [I64], [I64], cls='extend', from_bits=8, sign='s')
row(0xC3, 'i64.extend16_s', [I64], [I64], cls='extend', from_bits=16, sign='s')
row(0xC4, 'i64.extend32_s', [I64], [I64], cls='extend', from_bits=32, sign='s')

# ---- 0xFC: saturating truncation, bulk memory ---------------------------------------------------
_sat = [(0, I32, F32, 's'), (1, I32, F32, 'u'), (2, I32, F64, 's'), (3, I32, F64, 'u'),
        (4, I64, F32, 's'), (5, I64, F32, 'u'), (6, I64, F64, 's'), (7, I64, F64, 'u')]
for sub, d, s, sg in _sat:
    row((0xFC, sub), '%s.trunc_sat_%s_%s' % (d, s, sg), [s], [d], cls='trunc', dst=d, src=s, sign=sg, sat=True)
row((0xFC, 8), 'memory.init', [I32, I32, I32], [], ['u32', 'u32'], cls='memory.init')
row((0xFC, 9), 'data.drop', [], [], ['u32'], cls='data.drop')
row((0xFC, 10), 'memory.copy', [I32, I32, I32], [], ['u32', 'u32'], cls='memory.copy')
row((0xFC, 11), 'memory.fill', [I32, I32, I32], [], ['u32'], cls='memory.fill')

# ---- 0xFE: threads --------------------------------------------------------------------------------
row((0xFE, 0x00), 'memory.atomic.notify', [I32, I32], [I32], ['u32', 'u32'], cls='atomic.notify', access=32)
row((0xFE, 0x01), 'memory.atomic.wait32', [I32, I32, I64], [I32], ['u32', 'u32'], cls='atomic.wait', access=32)
row((0xFE, 0x02), 'memory.atomic.wait64', [I32, I64, I64], [I32], ['u32', 'u32'], cls='atomic.wait', access=64)
row((0xFE, 0x03), 'atomic.fence', [], [], ['byte'], cls='atomic.fence')
_aflav = [('', None), ('', None), ('8', I32), ('16', I32), ('8', I64), ('16', I64), ('32', I64)]
# order of the seven flavours in every 0xFE group: i32.full, i64.full, i32.8, i32.16, i64.8, i64.16, i64.32
_FLAV = [(I32, 32), (I64, 64), (I32, 8), (I32, 16), (I64, 8), (I64, 16), (I64, 32)]


def _aname(t, w, kind, op=None):
    full = w == WIDTH[t]
    if kind == 'load':
        return '%s.atomic.load%s' % (t, '' if full else '%d_u' % w)
    if kind == 'store':
        return '%s.atomic.store%s' % (t, '' if full else '%d' % w)
    return '%s.atomic.rmw%s.%s%s' % (t, '' if full else '%d' % w, op, '' if full else '_u')


for k, (t, w) in enumerate(_FLAV):
    row((0xFE, 0x10 + k), _aname(t, w, 'load'), [I32], [t], ['u32', 'u32'], cls='atomic.load', type=t, access=w)
for k, (t, w) in enumerate(_FLAV):
    row((0xFE, 0x17 + k), _aname(t, w, 'store'), [I32, t], [], ['u32', 'u32'], cls='atomic.store', type=t, access=w)
for g, op in enumerate(['add', 'sub', 'and', 'or', 'xor', 'xchg']):
    for k, (t, w) in enumerate(_FLAV):
        row((0xFE, 0x1E + 7 * g + k), _aname(t, w, 'rmw', op), [I32, t], [t], ['u32', 'u32'],
            cls='atomic.rmw', type=t, access=w, op=op)
for k, (t, w) in enumerate(_FLAV):
    row((0xFE, 0x48 + k), _aname(t, w, 'rmw', 'cmpxchg'), [I32, t, t], [t], ['u32', 'u32'],
        cls='atomic.cmpxchg', type=t, access=w)

BY_ENC = {r['enc']: r for r in ROWS}
BY_NAME = {r['name']: r for r in ROWS}
assert len(BY_ENC) == len(ROWS) and len(BY_NAME) == len(ROWS)


def rows(pred=None):
    return [r for r in ROWS if pred is None or pred(r)]


def natural_align(access_bits):
    return {8: 0, 16: 1, 32: 2, 64: 3}[access_bits]


VALTYPE_ENC = {I32: -1, I64: -2, F32: -3, F64: -4}   # signed LEB128 value of bytes 0x7F,0x7E,0x7D,0x7C
BLOCKTYPE_VOID = -64                                   # 0x40
