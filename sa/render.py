"""Whole-output rendering: partial evaluation of the module-level writers (header, main implementation file, split
implementation files) of the sequential (HAS_PTHREAD=0) configuration on a concrete module, with fopen modelled as the
creation of a named text.  Used by C09 (R09.7) to decide option-independence clauses on complete outputs."""
from . import astdb, emit, pe, modules as M, oracle
from .astdb import AnalysisBroken
from .pe import Ptr

V = oracle.VALTYPE_ENC


def sequential_tus(chk=None):
    return emit.translator_tus(('c.c', 'opcode.c', 'instruction.c'), extra=['-UHAS_PTHREAD', '-DHAS_PTHREAD=0'], chk=chk)


def fn(typeidx, toks, locals_=()):
    d = {'functionTypeIndex': typeidx, 'code': M.buffer(toks), 'start': 0}
    if locals_:
        d['localsDeclarations'] = {'declarations': Ptr([{'type': emit.VT[t], 'count': n} for t, n in locals_], 0),
                                   'declarationCount': len(locals_)}
    return d


def sample_module(it, extra_void=False):
    """1 imported + 6 defined functions using calls, locals, blocks, memory, globals, call_indirect"""
    from .rules import c03
    S, c = c03.script, c03.const
    funcs = [
        fn(0, S(c('i32', 5))),
        fn(1, S(('local.get', {'imm0': 0}), ('call', {'imm0': 1}), 'i32.add', ('local.get', {'imm0': 1}), 'i32.wrap_i64', 'i32.add'), [('i64', 1)]),
        fn(0, S(('block', {'imm0': V['i32']}), c('i32', 1), c('i32', 1), ('br_if', {'imm0': 0}), 'drop', c('i32', 2), 'end')),
        fn(0, S(c('i32', 8), ('i32.load', {'align': 2, 'offset': 4}), ('global.get', {'imm0': 0}), 'i32.add')),
        fn(2, S(c('i32', 16), ('local.get', {'imm0': 0}), ('f64.store', {'align': 3, 'offset': 0}), c('i32', 3), ('global.set', {'imm0': 0}))),
        fn(0, S(c('i32', 0), ('call_indirect', {'typeidx': 0, 'tableidx': 0}))),
    ]
    if extra_void:
        # a void function that returns with operands still on the stack (valid), emitted before functions with results when its ID comes first
        funcs.append(fn(3, S(c('i64', 1), c('i32', 9), 'return')))
    return M.build(it, types=[([], ['i32']), (['i32', 'i64'], ['i32']), (['f64'], []), ([], [])], func_imports=[('env', 'imp', 0)], functions=funcs,
                   memories=[(1, 2, False)], globals_=[('i32', True, M.i32_const(7))], tables=[(2, 2, False)],
                   element_segments=[(0, M.i32_const(0), [1, 3])] if not extra_void else [], exports=[('run', 0, 6), ('store', 0, 5)] if not extra_void else [],
                   data_segments=[(0, M.i32_const(32), 3, False)])


def ids(idx):
    return {'length': len(idx), 'capacity': len(idx),
            'functionIDs': Ptr([{'hash': [k] * 20, 'functionIndex': k} for k in idx], 0) if idx else 0}


def render(it, mk, fpf, static, dynamic, pretty=0, multiple=0, mode=0):
    """-> {file name: text} of the main file, the split files and the header"""
    it.files = []
    it.strict_bounds = True

    def setup():
        opts = {'outputPath': 'mod.c', 'threadCount': 1, 'functionsPerFile': fpf, 'pretty': pretty, 'debug': 0,
                'multipleModules': multiple, 'dataSegmentMode': mode}
        return ('wasmCWriteModuleImplementation', [Ptr({'v': mk()}, 'v'), 'mod', 'mod.c', 'mod.h', ids(static), ids(dynamic), opts],
                {'stream': emit.Stream([])})
    paths = it.explore(setup)
    if len(paths) != 1 or paths[0].ret != 1:
        raise AnalysisBroken('wasmCWriteModuleImplementation(f=%r): %r' % (fpf, [(p.ret, p.aborted) for p in paths]))
    files = {}
    for n, m, t in it.files:
        if n in files:
            files[n] = files[n] + '\n/* --- file opened again --- */\n' + t.render()
        else:
            files[n] = t.render()
    it.files = []

    def setup2():
        return ('wasmCWriteModuleHeader', [Ptr({'v': mk()}, 'v'), 'mod', 'mod.h', pretty, 0, multiple], {'stream': emit.Stream([])})
    paths = it.explore(setup2)
    if len(paths) != 1 or paths[0].ret != 1:
        raise AnalysisBroken('wasmCWriteModuleHeader: %r' % [(p.ret, p.aborted) for p in paths])
    for n, m, t in it.files:
        files[n] = t.render()
    it.files = None
    it.strict_bounds = False
    return files
