"""Engine TT part 2: simplified typed expression trees, an integer "bit-slice" abstract domain and
helpers used by the semantic-descriptor rules (C01, C02, C05, C11, C16, C19).
"""
import struct
from fractions import Fraction

from . import astdb
from .astdb import kids, AnalysisBroken


class E:
    """simplified typed expression"""
    __slots__ = ('k', 'ty', 'a', 'node', 'x')

    def __init__(self, k, ty, a=(), node=None, x=None):
        self.k = k          # kind
        self.ty = ty        # desugared C type spelling
        self.a = tuple(a)   # children
        self.node = node    # clang node (for locations)
        self.x = x          # extra: name / opcode / value / cast kind

    def __repr__(self):
        if self.k == 'var':
            return self.x
        if self.k == 'const':
            return repr(self.x)
        if self.k == 'cast':
            return '(%s)%r' % (self.ty, self.a[0])
        if self.k == 'bin':
            return '(%r %s %r)' % (self.a[0], self.x, self.a[1])
        if self.k == 'un':
            return '%s%r' % (self.x, self.a[0])
        if self.k == 'cond':
            return '(%r ? %r : %r)' % self.a
        if self.k == 'call':
            return '%s(%s)' % (self.x, ', '.join(repr(c) for c in self.a))
        if self.k == 'assign':
            return '%r = %r' % self.a
        if self.k == 'comma':
            return '(%r, %r)' % self.a
        if self.k == 'member':
            return '%r%s%s' % (self.a[0], '->' if self.x[1] else '.', self.x[0])
        if self.k == 'index':
            return '%r[%r]' % self.a
        if self.k == 'addr':
            return '&%r' % self.a[0]
        if self.k == 'deref':
            return '*%r' % self.a[0]
        return '%s%r' % (self.k, self.a)

    def loc(self):
        return astdb.loc_str(self.node) if self.node is not None else '?'


DROP_CASTS = ('LValueToRValue', 'NoOp', 'FunctionToPointerDecay', 'ArrayToPointerDecay',
              'BuiltinFnToFnPtr', 'ToVoid')


def simplify(node, tu):
    k = node.get('kind')
    ks = kids(node)
    ty = tu.desugar(astdb.qtype(node))
    if k in ('ParenExpr', 'ConstantExpr'):
        return simplify(ks[0], tu)
    if k in ('ImplicitCastExpr', 'CStyleCastExpr'):
        ck = node.get('castKind')
        sub = simplify(ks[0], tu)
        if ck in DROP_CASTS:
            if ck == 'ToVoid':
                return sub
            return sub
        return E('cast', ty, [sub], node, ck)
    if k == 'DeclRefExpr':
        rd = node.get('referencedDecl') or {}
        if rd.get('kind') == 'EnumConstantDecl':
            return E('const', ty, [], node, ('enum', rd.get('name'), tu.enums.get(rd.get('name'))))
        return E('var', ty, [], node, rd.get('name'))
    if k == 'IntegerLiteral':
        return E('const', ty, [], node, int(node['value']))
    if k == 'CharacterLiteral':
        return E('const', ty, [], node, int(node['value']))
    if k == 'FloatingLiteral':
        return E('const', ty, [], node, ('float', node['value']))
    if k == 'StringLiteral':
        return E('const', ty, [], node, ('str', node.get('value')))
    if k == 'UnaryOperator':
        op = node.get('opcode')
        sub = simplify(ks[0], tu)
        if op == '&':
            return E('addr', ty, [sub], node)
        if op == '*':
            return E('deref', ty, [sub], node)
        if op == '__extension__':
            return sub
        if op in ('++', '--'):
            return E('incdec', ty, [sub], node, (op, bool(node.get('isPostfix'))))
        return E('un', ty, [sub], node, op)
    if k == 'BinaryOperator':
        op = node.get('opcode')
        l, r = simplify(ks[0], tu), simplify(ks[1], tu)
        if op == '=':
            return E('assign', ty, [l, r], node)
        if op == ',':
            return E('comma', ty, [l, r], node)
        return E('bin', ty, [l, r], node, op)
    if k == 'CompoundAssignOperator':
        op = node.get('opcode')[:-1]
        l, r = simplify(ks[0], tu), simplify(ks[1], tu)
        cl = tu.desugar((node.get('computeLHSType') or {}).get('desugaredQualType')
                        or (node.get('computeLHSType') or {}).get('qualType') or ty)
        cr = tu.desugar((node.get('computeResultType') or {}).get('desugaredQualType')
                        or (node.get('computeResultType') or {}).get('qualType') or ty)
        lhs_val = l if cl == l.ty else E('cast', cl, [l], node, 'IntegralCast')
        comp = E('bin', cr, [lhs_val, r], node, op)
        rhs = comp if cr == ty else E('cast', ty, [comp], node, 'IntegralCast')
        return E('assign', ty, [l, rhs], node, 'compound')
    if k == 'ConditionalOperator':
        return E('cond', ty, [simplify(c, tu) for c in ks], node)
    if k == 'CallExpr':
        name = astdb.callee_name(node)
        args = [simplify(a, tu) for a in ks[1:]]
        if name is None:
            return E('call', ty, [simplify(ks[0], tu)] + args, node, None)
        inl = inline_pure(name, args, tu, ty, node)
        if inl is not None:
            return inl
        return E('call', ty, args, node, name)
    if k == 'MemberExpr':
        return E('member', ty, [simplify(ks[0], tu)], node, (node.get('name'), bool(node.get('isArrow'))))
    if k == 'ArraySubscriptExpr':
        return E('index', ty, [simplify(ks[0], tu), simplify(ks[1], tu)], node)
    if k == 'UnaryExprOrTypeTraitExpr':
        at = node.get('argType')
        if at:
            t = tu.desugar(at.get('desugaredQualType') or at.get('qualType'))
        else:
            t = tu.desugar(astdb.qtype(ks[0]))
        return E('sizeof', ty, [], node, (node.get('name'), t))
    if k == 'StmtExpr':
        return E('stmtexpr', ty, [], node)
    if k == 'AtomicExpr':
        return E('atomic', ty, [simplify(c, tu) for c in ks], node, node.get('name'))
    if k in ('InitListExpr', 'ImplicitValueInitExpr', 'CompoundLiteralExpr', 'VAArgExpr', 'OffsetOfExpr',
             'PredefinedExpr'):
        return E('other', ty, [simplify(c, tu) for c in ks if c.get('kind')], node, k)
    raise AnalysisBroken('ctyperules: unsupported expression kind %s at %s' % (k, astdb.loc_str(node)))


def subst(e, env):
    """replace variables by expressions"""
    if e.k == 'var' and e.x in env:
        return env[e.x]
    if not e.a:
        return e
    return E(e.k, e.ty, [subst(c, env) for c in e.a], e.node, e.x)


_INLINE_DEPTH = [0]


def inline_pure(name, args, tu, ty, node):
    """A call to a runtime-header inline function whose body is only `const` locals, guards of the form
    `if (c) { trap(K); }` / `if (c) { return e; }` (optionally with else) and a final `return e` is the same as the macro it may have
    replaced: return its body as one conditional expression over the arguments.  None if the body has another shape."""
    f = tu.functions.get(name)
    if f is None or not (astdb.file_of(f) or '').endswith('w2c2_base.h') or _INLINE_DEPTH[0] > 4:
        return None
    body = astdb.fn_body(f)
    params = astdb.fn_params(f)
    if body is None or len(params) != len(args):
        return None
    # memory access / atomic helpers are summarised by the memory rules, not inlined
    if any('wasmMemory' in astdb.qtype(p) or 'wasmTable' in astdb.qtype(p) for p in params) or \
            any(n.get('kind') in ('AtomicExpr', 'MemberExpr') for n in astdb.walk(body)):
        return None
    env = {}
    for p, a in zip(params, args):
        pty = tu.desugar(astdb.qtype(p))
        env[p.get('name')] = a if a.ty == pty else E('cast', pty, [a], a.node, 'IntegralCast' if tinfo(pty)[0] == 'int' and tinfo(a.ty)[0] == 'int' else 'Conversion')

    def conv(stmts):
        if not stmts:
            return None
        st = stmts[0]
        k = st.get('kind')
        rest = stmts[1:]
        if k == 'NullStmt':
            return conv(rest)
        if k == 'DeclStmt':
            for d in kids(st):
                if d.get('kind') != 'VarDecl' or not d.get('init') or 'const' not in astdb.qtype(d).split('*')[-1] and False:
                    return None
                ini = [c for c in kids(d) if c.get('kind')]
                if not ini:
                    return None
                v = subst(simplify(ini[-1], tu), env)
                dty = tu.desugar(astdb.qtype(d))
                env[d.get('name')] = v if v.ty == dty else E('cast', dty, [v], d, 'IntegralCast')
            return conv(rest)
        if k == 'ReturnStmt':
            ex = [c for c in kids(st) if c.get('kind')]
            return subst(simplify(ex[0], tu), env) if ex else None
        if k == 'CompoundStmt':
            return conv([c for c in st.get('inner', []) if c.get('kind')] + rest)
        if k == 'IfStmt':
            inner = st['inner']
            c = subst(simplify(inner[0], tu), env)
            then = arm(inner[1])
            if then is None:
                return None
            if len(inner) > 2:
                els = arm(inner[2])
                if els is None:
                    return None
                return E('cond', ty, [c, then, els], st)
            tail = conv(rest)
            if tail is None:
                return None
            return E('cond', ty, [c, then, tail], st)
        return None

    def arm(st):
        """a guard arm: `{ trap(K); }` -> (trap(K), 0)  |  `{ return e; }` -> e"""
        stmts = [c for c in st.get('inner', []) if c.get('kind')] if st.get('kind') == 'CompoundStmt' else [st]
        if len(stmts) == 1 and stmts[0].get('kind') == 'CallExpr' and astdb.callee_name(stmts[0]) == 'trap':
            call = simplify(stmts[0], tu)
            return E('comma', ty, [subst(call, env), E('const', 'int', (), stmts[0], 0)], stmts[0])
        return conv(stmts)
    _INLINE_DEPTH[0] += 1
    try:
        for n in astdb.walk(body):
            if n.get('kind') in ('WhileStmt', 'ForStmt', 'DoStmt', 'GotoStmt', 'SwitchStmt'):
                return None
            if n.get('kind') in ('BinaryOperator', 'CompoundAssignOperator') and (n.get('opcode') == '=' or n.get('kind') == 'CompoundAssignOperator'):
                return None
            if n.get('kind') == 'CallExpr' and astdb.callee_name(n) in ('memcpy', 'memmove', 'memset', '__builtin_memcpy'):
                return None
        out = conv([c for c in body.get('inner', []) if c.get('kind')])
    except AnalysisBroken:
        out = None
    finally:
        _INLINE_DEPTH[0] -= 1
    if out is None:
        return None
    return out if out.ty == ty else E('cast', ty, [out], node, 'NoOp')


def statements(fdecl):
    """top-level statements of a harness function body"""
    return [s for s in astdb.fn_body(fdecl).get('inner', []) if s.get('kind')]


def tinfo(ty):
    """('int', bits, signed) | ('float', bits) | ('ptr',) | ('other',)"""
    t = ty.replace('const ', '').replace('volatile ', '').strip()
    if t.endswith('*'):
        return ('ptr',)
    if t == 'float':
        return ('float', 32)
    if t == 'double':
        return ('float', 64)
    if t == 'long double':
        return ('float', 80)
    i = astdb.int_type_info(t)
    if i is not None:
        return ('int', i[0], i[1])
    return ('other',)


def walk_e(e):
    yield e
    for c in e.a:
        for x in walk_e(c):
            yield x


def strip_value_casts(e):
    """drop casts that cannot change the value: same type, or integer widening that preserves the value"""
    while e.k == 'cast' and e.x in ('IntegralCast',):
        s, d = tinfo(e.a[0].ty), tinfo(e.ty)
        if s == d:
            e = e.a[0]
            continue
        break
    return e


# ---- integer bit-slice domain -----------------------------------------------------------------
# ('slice', slot, k, ext, W, S): the W-bit pattern obtained by extending (ext = 'z' | 's') the low k bits
#                                of variable `slot`, read in a C type of W bits with signedness S
# ('const', v, W, S)
# ('top', why)

def _is_slice(v):
    return v[0] == 'slice'


def cast_abs(v, W2, S2):
    if v[0] == 'const':
        val = v[1] & ((1 << W2) - 1)
        if S2 and val >> (W2 - 1):
            val -= 1 << W2
        return ('const', val, W2, S2)
    if v[0] != 'slice':
        return v
    _, slot, k, ext, W, S = v
    if W2 <= k:
        return ('slice', slot, W2, 'z', W2, S2)
    if W2 <= W:
        return ('slice', slot, k, ext, W2, S2)
    # widening: extend the W-bit pattern by the *source* signedness
    if S:
        if ext == 's' or k == W:
            return ('slice', slot, k, 's', W2, S2)
        return ('slice', slot, k, 'z', W2, S2)
    if ext == 'z' or k == W:
        return ('slice', slot, k, 'z', W2, S2)
    return ('top', 'zero-extension of a sign-extended narrower value')


def iabs(e):
    """abstract integer value of a simplified expression"""
    ti = tinfo(e.ty)
    if e.k == 'var' and ti[0] == 'int':
        return ('slice', e.x, ti[1], 'z', ti[1], ti[2])
    if e.k == 'const':
        v = e.x
        if isinstance(v, tuple) and v[0] == 'enum':
            v = v[2]
        if isinstance(v, int) and ti[0] == 'int':
            return ('const', v, ti[1], ti[2])
        return ('top', 'non-integer constant')
    if e.k == 'cast' and ti[0] == 'int' and e.x in ('IntegralCast', 'IntegralToBoolean'):
        if e.x == 'IntegralToBoolean':
            return ('top', 'bool')
        return cast_abs(iabs(e.a[0]), ti[1], ti[2])
    if e.k == 'un' and e.x == '-' and ti[0] == 'int':
        v = iabs(e.a[0])
        if v[0] == 'const':
            return cast_abs(('const', -v[1], ti[1], ti[2]), ti[1], ti[2])
    if e.k == 'bin' and ti[0] == 'int':
        a, b = iabs(e.a[0]), iabs(e.a[1])
        if a[0] == 'const' and b[0] == 'const':
            try:
                val = {'+': a[1] + b[1], '-': a[1] - b[1], '*': a[1] * b[1], '&': a[1] & b[1],
                       '|': a[1] | b[1], '^': a[1] ^ b[1], '<<': a[1] << b[1], '>>': a[1] >> b[1]}[e.x]
                return cast_abs(('const', val, 128, True), ti[1], ti[2])
            except Exception:
                pass
    return ('top', 'unsupported form %r' % (e,))


def math_value(v):
    """('s'|'u', k, slot): the mathematical value of a slice as signed/unsigned interpretation of the low k
    bits of slot, or None if the slice is not such an interpretation"""
    if v[0] != 'slice':
        return None
    _, slot, k, ext, W, S = v
    if k == W:
        return ('s' if S else 'u', k, slot)
    if ext == 'z':
        return ('u', k, slot)       # zero-extended narrower value is non-negative in any wider type
    if S:
        return ('s', k, slot)       # sign-extended, read as signed
    return None                     # sign-extended pattern read as unsigned: 2^W - ... (not an interpretation)


def const_value(e):
    v = iabs(e)
    if v[0] == 'const':
        return v[1]
    return None


# ---- exact evaluation of integer expressions (witness search for unrecognised shapes) -----------------------

class EvalTrap(Exception):
    def __init__(self, kind):
        Exception.__init__(self, kind)
        self.kind = kind


class EvalUB(Exception):
    """the expression has undefined behaviour for these operands"""


class EvalUnknown(Exception):
    """construct outside the evaluator (floating point, memory, unknown call)"""


_BITCOUNT = {'__builtin_clz': ('clz', 32), '__builtin_clzl': ('clz', 64), '__builtin_clzll': ('clz', 64),
             '__builtin_ctz': ('ctz', 32), '__builtin_ctzl': ('ctz', 64), '__builtin_ctzll': ('ctz', 64),
             '__builtin_popcount': ('pop', 32), '__builtin_popcountl': ('pop', 64), '__builtin_popcountll': ('pop', 64)}


def _wrap(v, ti):
    v &= (1 << ti[1]) - 1
    if ti[2] and v >> (ti[1] - 1):
        v -= 1 << ti[1]
    return v


CALL_HOOK = [None]      # optional: f(name, [argument values]) -> int | None, for calls the evaluator does not model itself


def ieval(e, env):
    """value of the typed integer expression e (C semantics of the analysed target) with slot variables bound by env
    {name: unsigned bit pattern}.  Raises EvalTrap when trap(kind) is called, EvalUB on undefined behaviour."""
    ti = tinfo(e.ty)
    if e.k == 'var':
        if e.x not in env:
            raise EvalUnknown('variable %s' % e.x)
        if ti[0] != 'int':
            raise EvalUnknown('non-integer variable %s' % e.x)
        return _wrap(env[e.x], ti)
    if e.k == 'const':
        v = e.x
        if isinstance(v, tuple) and v[0] == 'enum':
            v = v[2]
        if isinstance(v, bool) or not isinstance(v, int):
            raise EvalUnknown('constant %r' % (e.x,))
        return _wrap(v, ti) if ti[0] == 'int' else v
    if e.k == 'cast':
        if ti[0] == 'other' and e.ty.strip() == 'void':
            ieval(e.a[0], env)
            return 0
        if ti[0] != 'int':
            raise EvalUnknown('cast to %s' % e.ty)
        if tinfo(e.a[0].ty)[0] not in ('int',) and e.a[0].k != 'const':
            raise EvalUnknown('cast from %s' % e.a[0].ty)
        return _wrap(ieval(e.a[0], env), ti)
    if e.k == 'comma':
        ieval(e.a[0], env)
        return ieval(e.a[1], env)
    if e.k == 'cond':
        c = ieval(e.a[0], env)
        return ieval(e.a[1] if c != 0 else e.a[2], env)
    if e.k == 'assign':
        return ieval(e.a[1], env)
    if e.k == 'un':
        if e.x == '!':
            return 0 if ieval(e.a[0], env) != 0 else 1
        v = ieval(e.a[0], env)
        if e.x == '~':
            return _wrap(~v, ti)
        if e.x == '-':
            r = -v
            if ti[0] == 'int' and ti[2] and r != _wrap(r, ti):
                raise EvalUB('signed negation overflows')
            return _wrap(r, ti)
        if e.x == '+':
            return v
        raise EvalUnknown('unary %s' % e.x)
    if e.k == 'bin':
        op = e.x
        if op == '&&':
            return 1 if ieval(e.a[0], env) != 0 and ieval(e.a[1], env) != 0 else 0
        if op == '||':
            return 1 if ieval(e.a[0], env) != 0 or ieval(e.a[1], env) != 0 else 0
        l, r = ieval(e.a[0], env), ieval(e.a[1], env)
        if op in ('==', '!=', '<', '>', '<=', '>='):
            return int({'==': l == r, '!=': l != r, '<': l < r, '>': l > r, '<=': l <= r, '>=': l >= r}[op])
        if ti[0] != 'int':
            raise EvalUnknown('arithmetic in %s' % e.ty)
        if op in ('<<', '>>'):
            lt = tinfo(e.a[0].ty)
            if r < 0 or r >= lt[1]:
                raise EvalUB('shift count %d is not below the width %d of the shifted operand' % (r, lt[1]))
            if op == '<<':
                if lt[2] and l < 0:
                    raise EvalUB('left shift of a negative value')
                v = l << r
                if lt[2] and v != _wrap(v, lt):
                    raise EvalUB('signed left shift overflows')
                return _wrap(v, ti)
            return _wrap(l >> r, ti)        # arithmetic for negative signed values (all analysed compilers)
        if op in ('/', '%'):
            if r == 0:
                raise EvalUB('division by zero is evaluated')
            q = abs(l) // abs(r)
            if (l < 0) != (r < 0):
                q = -q
            if ti[2] and q != _wrap(q, ti):
                raise EvalUB('signed division overflows (MIN / -1)')
            return _wrap(q if op == '/' else l - q * r, ti)
        if op in ('+', '-', '*'):
            v = {'+': l + r, '-': l - r, '*': l * r}[op]
            if ti[2] and v != _wrap(v, ti):
                raise EvalUB('signed %s overflows' % op)
            return _wrap(v, ti)
        if op in ('&', '|', '^'):
            return _wrap({'&': l & r, '|': l | r, '^': l ^ r}[op], ti)
        raise EvalUnknown('operator %s' % op)
    if e.k == 'call':
        if e.x == 'trap':
            arg = e.a[0]
            while arg.k == 'cast':
                arg = arg.a[0]
            raise EvalTrap(arg.x[1] if arg.k == 'const' and isinstance(arg.x, tuple) and arg.x[0] == 'enum' else '?')
        if e.x in _BITCOUNT:
            kind, w = _BITCOUNT[e.x]
            v = ieval(e.a[0], env) & ((1 << w) - 1)
            if kind == 'pop':
                return bin(v).count('1')
            if v == 0:
                raise EvalUB('%s(0) is undefined' % e.x)
            if kind == 'clz':
                return w - v.bit_length()
            return (v & -v).bit_length() - 1
        if CALL_HOOK[0] is not None:
            r_ = CALL_HOOK[0](e.x, [ieval(a_, env) for a_ in e.a])
            if r_ is not None:
                return _wrap(r_, ti) if ti[0] == 'int' else r_
        raise EvalUnknown('call of %s' % e.x)
    raise EvalUnknown('node %s' % e.k)


# ---- conditional chains ---------------------------------------------------------------------------

def cond_chain(e):
    """flatten c1 ? r1 : (c2 ? r2 : (... : else)) -> ([(c1, r1), (c2, r2), ...], else)"""
    arms = []
    while True:
        e0 = e
        while e0.k == 'cast' and e0.a[0].k == 'cond':
            e0 = e0.a[0]
        if e0.k != 'cond':
            return arms, e
        arms.append((e0.a[0], e0.a[1]))
        e = e0.a[2]


def trap_of(e):
    """trap enumerator name if e is `(trap(X), 0)` (through casts), else None"""
    while e.k == 'cast':
        e = e.a[0]
    if e.k == 'comma' and e.a[0].k == 'call' and e.a[0].x == 'trap':
        arg = e.a[0].a[0]
        while arg.k == 'cast':
            arg = arg.a[0]
        if arg.k == 'const' and isinstance(arg.x, tuple) and arg.x[0] == 'enum':
            return arg.x[1]
        return '?'
    return None


def contains_call(e, name):
    return any(x.k == 'call' and x.x == name for x in walk_e(e))


# ---- exact float constants ---------------------------------------------------------------------------

def float_bits(x, width):
    if width == 32:
        return struct.unpack('<I', struct.pack('<f', x))[0]
    return struct.unpack('<Q', struct.pack('<d', x))[0]


def float_from_bits(b, width):
    if width == 32:
        return struct.unpack('<f', struct.pack('<I', b))[0]
    return struct.unpack('<d', struct.pack('<Q', b))[0]


def round_to(x, width):
    """round a python float (binary64) to binary32 if width == 32"""
    if width == 32:
        return struct.unpack('<f', struct.pack('<f', x))[0]
    return x


def next_up(x, width):
    b = float_bits(x, width)
    if x >= 0:
        return float_from_bits(b + 1, width)
    if b == (1 << (width - 1)):
        return float_from_bits(1, width)
    return float_from_bits(b - 1, width)


def next_down(x, width):
    return -next_up(-x, width)


def feval(e):
    """exact value of a constant floating/integer expression as (Fraction, width of its float type or 0)
    or None.  Rounds at each cast/literal to the node's own type, as the compiler does."""
    ti = tinfo(e.ty)
    if e.k == 'const':
        v = e.x
        if isinstance(v, tuple) and v[0] == 'float':
            f = float(v[1])
            return (Fraction(round_to(f, ti[1] if ti[0] == 'float' else 64)), ti[1] if ti[0] == 'float' else 64)
        if isinstance(v, tuple) and v[0] == 'enum':
            v = v[2]
        if isinstance(v, int):
            return (Fraction(v), 0)
        return None
    if e.k == 'cast':
        s = feval(e.a[0])
        if s is None:
            return None
        if ti[0] == 'float':
            w = min(ti[1], 64)
            try:
                f = float(s[0])   # Fraction -> nearest double (round-half-even)
            except OverflowError:
                return None
            if w == 32:
                f = _frac_to_f32(s[0])
            return (Fraction(f), w)
        if ti[0] == 'int':
            v = int(s[0])
            v &= (1 << ti[1]) - 1
            if ti[2] and v >> (ti[1] - 1):
                v -= 1 << ti[1]
            return (Fraction(v), 0)
        return None
    if e.k == 'un' and e.x in ('-', '+'):
        s = feval(e.a[0])
        if s is None:
            return None
        return (-s[0] if e.x == '-' else s[0], s[1])
    if e.k == 'bin' and e.x in ('+', '-', '*'):
        a, b = feval(e.a[0]), feval(e.a[1])
        if a is None or b is None:
            return None
        r = {'+': a[0] + b[0], '-': a[0] - b[0], '*': a[0] * b[0]}[e.x]
        if ti[0] == 'float':
            w = min(ti[1], 64)
            f = _frac_to_f32(r) if w == 32 else float(r)
            return (Fraction(f), w)
        if ti[0] == 'int':
            v = int(r) & ((1 << ti[1]) - 1)
            if ti[2] and v >> (ti[1] - 1):
                v -= 1 << ti[1]
            return (Fraction(v), 0)
    return None


def _frac_to_f32(fr):
    """correctly rounded (nearest-even) conversion of an exact rational to binary32"""
    d = float(fr)                      # nearest binary64
    f = round_to(d, 32)                # may double-round; repair by exact comparison
    lo, hi = next_down(f, 32), next_up(f, 32)
    best = f
    for c in (lo, f, hi):
        if c in (float('inf'), float('-inf')):
            continue
        if abs(Fraction(c) - fr) < abs(Fraction(best) - fr):
            best = c
        elif abs(Fraction(c) - fr) == abs(Fraction(best) - fr) and c != best:
            # tie: even mantissa wins
            if float_bits(c, 32) & 1 == 0:
                best = c
    return best
