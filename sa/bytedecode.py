"""Byte-level differential of the instruction decoders.

The emitter harness (sa/emit.py) scripts the instruction stream as typed tokens, one per immediate, and models the decoders
(bufferReadByte, leb128Read*) as leafs that take the next token.  A translator that reads an immediate with another decoder is
reported by that model as a ScriptMismatch.  Such a mismatch is not by itself a wrong translation: a correct decoder may look at a
raw byte first (a single-byte fast path) and fall back to the LEB128 decoder.  This module decides the question on bytes: every
instruction of the oracle table is run through wasmCWriteFunctionCode with a *concrete* code buffer and the *real* decoders (no
stream leafs), once with the minimal encoding of its immediates and once with a padded (non-minimal, still valid) LEB128 encoding of
the same immediates, in live and in dead code.  A valid translation must give the same emitted text, stack effect and result for
both encodings; a difference is a definite violation with its byte string.
"""
from . import astdb, pe, emit, oracle, templates
from .pe import Ptr, unk

PAD = {'u32': 5, 'i32': 5, 'u64': 10, 'i64': 10}


def _leb(v, signed, min_len=0):
    out = []
    while True:
        b = v & 0x7F
        v >>= 7
        done = (v == 0 and not (b & 0x40)) or (v == -1 and (b & 0x40)) if signed else v == 0
        if done and len(out) + 1 >= min_len:
            out.append(b)
            return out
        if done:
            # pad: keep emitting continuation bytes that carry the sign / zero extension
            out.append(b | 0x80)
            fill = 0x7F if (signed and v == -1) else 0x00
            while len(out) + 1 < min_len:
                out.append(fill | 0x80)
            out.append(fill)
            return out
        out.append(b | 0x80)


def encode(tokens, padded):
    out = []
    for t, v in tokens:
        if t == 'byte':
            out.append(v & 0xFF)
        elif t in ('u32', 'u64'):
            out += _leb(v, False, PAD[t] if padded else 0)
        elif t in ('i32', 'i64'):
            w = 32 if t == 'i32' else 64
            sv = v - (1 << w) if v >> (w - 1) else v
            out += _leb(sv, True, PAD[t] if padded else 0)
        elif t == 'f32':
            out += list((v & 0xFFFFFFFF).to_bytes(4, 'little'))
        elif t == 'f64':
            out += list((v & ((1 << 64) - 1)).to_bytes(8, 'little'))
        else:
            raise ValueError(t)
    return out


def _imm_values(row, dead):
    """concrete, valid immediates that make the result depend on each of them.  In dead code nothing is emitted, so a decoder that
    leaves immediate bytes unread only shows when those bytes act as an instruction: indices are 11 there (0x0B = `end`, which closes
    the function body early when it is taken for an opcode)"""
    names = templates.imm_names(row)
    idx = 11 if dead else 1
    imm = {}
    for k, tag in enumerate(row['imm']):
        nm = names[k]
        if nm == 'align':
            acc = row['sem'].get('access')
            imm[nm] = oracle.natural_align(acc) if acc else 0
        elif nm == 'offset':
            imm[nm] = 11 if dead else 0x1234
        elif tag == 'blocktype':
            imm[nm] = oracle.BLOCKTYPE_VOID
        elif tag == 'vec_u32':
            imm[nm] = [0, 0]
        elif tag == 'i32':
            imm[nm] = 11 if dead else (-5) & 0xFFFFFFFF
        elif tag == 'i64':
            imm[nm] = 11 if dead else (-0x123456789) & ((1 << 64) - 1)
        elif tag == 'f32':
            imm[nm] = 0x40490FDB
        elif tag == 'f64':
            imm[nm] = 0x400921FB54442D18
        elif tag == 'byte':
            imm[nm] = 0
        elif nm in ('memidx', 'memidx1', 'memidx2', 'tableidx') or row['name'] in ('memory.size', 'memory.grow', 'memory.fill'):
            imm[nm] = 0
        elif nm == 'typeidx':
            imm[nm] = idx if dead else 1
        elif row['name'] in ('br', 'br_if') or nm == 'default':
            imm[nm] = 0
        else:
            imm[nm] = idx
    return imm


def _context(it):
    from . import modules as M

    def module(interp):
        return M.build(interp, types=[([], []), (['i32'], ['i32'])] + [([], [])] * 11, functions=[1] * 13,
                       globals_=[('i32', True, M.i32_const(0))] * 13, memories=[(1, 4, False)], tables=[(1, 4, False)],
                       data_segments=[(0, None, 2, True)] * 13)

    def function(interp):
        f = interp.zero_init('struct WasmFunction')
        f['functionTypeIndex'] = 1
        f['localsDeclarations'] = {'declarations': Ptr([{'type': emit.VT['i32'], 'count': 12}], 0), 'declarationCount': 1}
        return f
    return module, function


def differential(tier='quick', only=None, details=None):
    """-> (list of discrepancy texts, number of instruction encodings compared, number that translated); only: restrict to these
    instruction names; details: a list that receives (name, dead, minimal bytes, outcome of the minimal encoding, outcome of the padded one)"""
    tus = emit.translator_tus(('c.c', 'opcode.c', 'instruction.c'))
    it = emit.make_interp(tus)
    for k in list(emit.stream_leafs(lambda i: None)):
        it.leafs.pop(k, None)
    from . import memrules as mr
    module, function = _context(it)
    bad = []
    n = ok = 0
    for row in oracle.ROWS:
        if not row['imm'] and len(row['enc']) < 2:
            continue
        if only is not None and row['name'] not in only:
            continue
        stack = mr.FILLER + [('i32' if p == 'any' else p) for p in row['params']]
        for ignore in (0, 1):
            toks = templates.tokens_for(row, _imm_values(row, ignore), end=False)
            # a marker instruction after it (i32.const 77; visible in live code) and the end of the function body
            toks = toks + [('byte', 0x41), ('i32', 77), ('byte', 0x0B)]
            outs = []
            for padded in (False, True):
                raw = encode(toks, padded)

                def setup(raw=raw, ignore=ignore):
                    f = templates.dispatch_setup(it, [], stack, 0, 0, ignore, None, module, function)
                    name, args, st = f()
                    code = {'v': {'data': Ptr(list(raw) + [0, 0, 0, 0], 0), 'length': len(raw)}}
                    st['w']['code'] = Ptr(code, 'v')
                    st['codebuf'] = code
                    return name, args, st
                try:
                    paths = it.explore(setup)
                except pe.PEError as e:
                    outs.append(('error', str(e)[:120]))
                    continue
                if len(paths) != 1:
                    outs.append(('paths', len(paths)))
                    continue
                p = paths[0]
                t = templates.Template(row, p, 0, 0, stack)
                left = p.state['codebuf']['v']['length']
                labels = p.state['ls']['labels'].get('length') if isinstance(p.state['ls'], dict) and isinstance(p.state['ls'].get('labels'), dict) else None
                outs.append((p.ret if not p.aborted else 'abort:%s' % p.aborted, t.text(), tuple(t.stack_after or ()),
                             'bytes left unread: %r' % (left,), 'open labels: %r' % (labels,), 'dead-code mode: %r' % (t.ignore_after,)))
            n += 1
            if details is not None:
                details.append((row['name'], ignore, encode(toks, False), outs[0], outs[1]))
            if outs[0][0] == 1 and outs[1][0] == 1:
                ok += 1
            if outs[0] != outs[1]:
                bad.append('%s%s: the minimal encoding %s gives %r, the padded (equally valid) encoding %s of the same immediates gives %r'
                           % (row['name'], ' in dead code' if ignore else '', ' '.join('%02x' % b for b in encode(toks, False)), outs[0],
                              ' '.join('%02x' % b for b in encode(toks, True)), outs[1]))
    return bad, n, ok
