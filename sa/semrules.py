"""Semantic descriptor rules over typed templates (shared by C01, C02, C11).

Each matcher receives the simplified assignment `dst = rhs` of one template, the names of the operand slots
(deeper first) and the oracle row, and returns a list of problems (empty = descriptor equals the spec row).
Unrecognised *shapes* raise AnalysisBroken (exit 2) - they are never reported as violations.
"""
from fractions import Fraction

from . import astdb
from .astdb import AnalysisBroken
from .ctyperules import (E, tinfo, iabs, math_value, cond_chain, trap_of, walk_e, const_value, feval,
                         next_up, next_down, Fraction as _F)
from . import ctyperules as ct

W_OF = {'i32': 32, 'i64': 64, 'f32': 32, 'f64': 64}

TRAP_DIVZERO = 'trapDivByZero'
TRAP_OVERFLOW = 'trapIntOverflow'
TRAP_INVALID = 'trapInvalidConversion'


def unwrap(e):
    """strip casts and return (inner, [cast types outermost first])"""
    cs = []
    while e.k == 'cast':
        cs.append(e.ty)
        e = e.a[0]
    return e, cs


def full_slot(e, slot, W, sign=None):
    """e denotes all W bits of `slot` (signed/unsigned interpretation if sign given)"""
    v = iabs(e)
    if v[0] != 'slice' or v[1] != slot or v[2] != W:
        return False
    if sign is None:
        return True
    m = math_value(v)
    return m is not None and m[0] == sign


def descr_bin(row, rhs, ops):
    W = W_OF[row['sem']['type']]
    e, _ = unwrap(rhs)
    probs = []
    if e.k != 'bin':
        raise AnalysisBroken('%s: expected a binary operator, found %r' % (row['name'], rhs))
    if e.x != row['sem']['op']:
        probs.append('operator is %s, specification requires %s' % (e.x, row['sem']['op']))
    ti = tinfo(e.ty)
    if ti[0] != 'int' or ti[2] or ti[1] < W:
        probs.append('computed in type %s; needs an unsigned type of at least %d bits (wrap-around semantics)' % (e.ty, W))
    if not full_slot(e.a[0], ops[0], W):
        probs.append('left operand is %r, expected all %d bits of the deeper operand %s' % (e.a[0], W, ops[0]))
    if not full_slot(e.a[1], ops[1], W):
        probs.append('right operand is %r, expected all %d bits of the top operand %s' % (e.a[1], W, ops[1]))
    return probs


def descr_icmp(row, rhs, ops):
    W = W_OF[row['sem']['type']]
    e, _ = unwrap(rhs)
    if e.k != 'bin':
        raise AnalysisBroken('%s: expected a comparison, found %r' % (row['name'], rhs))
    probs = []
    if e.x != row['sem']['op']:
        probs.append('comparison operator is %s, specification requires %s' % (e.x, row['sem']['op']))
    sg = row['sem']['sign']
    ma, mb = math_value(iabs(e.a[0])), math_value(iabs(e.a[1]))
    if ma is None or mb is None:
        probs.append('operands %r, %r are not interpretations of the operand slots' % (e.a[0], e.a[1]))
        return probs
    if (ma[1], ma[2]) != (W, ops[0]) or (mb[1], mb[2]) != (W, ops[1]):
        probs.append('operands are %s%d(%s), %s%d(%s); expected all %d bits of %s then %s'
                     % (ma[0], ma[1], ma[2], mb[0], mb[1], mb[2], W, ops[0], ops[1]))
    if sg is not None:
        if ma[0] != sg or mb[0] != sg:
            probs.append('operands are compared as %s/%s values, specification requires %s'
                         % (_sn(ma[0]), _sn(mb[0]), _sn(sg)))
    elif ma[0] != mb[0]:
        probs.append('operands of ==/!= have different signedness interpretations')
    return probs


def _sn(s):
    return 'signed' if s == 's' else 'unsigned'


def descr_eqz(row, rhs, ops):
    W = W_OF[row['sem']['type']]
    e, _ = unwrap(rhs)
    x = None
    if e.k == 'un' and e.x == '!':
        x = e.a[0]
        while x.k == 'cast' and x.x == 'IntegralToBoolean':
            x = x.a[0]
    elif e.k == 'bin' and e.x == '==' and const_value(e.a[1]) == 0:
        x = e.a[0]
    else:
        raise AnalysisBroken('%s: expected !x or x == 0, found %r' % (row['name'], rhs))
    if not full_slot(x, ops[0], W):
        return ['tests %r, expected all %d bits of %s' % (x, W, ops[0])]
    return []


def _mask_count(c, slot, W):
    """c is (y & (W-1)) with y the count slot -> problems"""
    e, _ = unwrap(c)
    if e.k != 'bin' or e.x != '&':
        return ['shift count %r is not masked to the operand width' % (c,)]
    for y, m in ((e.a[0], e.a[1]), (e.a[1], e.a[0])):
        mv = const_value(m)
        if mv is None:
            continue
        probs = []
        if mv != W - 1:
            probs.append('shift count is masked with %d, specification requires modulo %d (mask %d)' % (mv, W, W - 1))
        v = iabs(y)
        if v[0] != 'slice' or v[1] != slot or v[2] < 6:
            probs.append('shift count is taken from %r, expected the top operand %s' % (y, slot))
        return probs
    return ['shift count %r has no constant mask' % (c,)]


def descr_shift(row, rhs, ops):
    W = W_OF[row['sem']['type']]
    sem = row['sem']
    e, _ = unwrap(rhs)
    if e.k != 'bin' or e.x not in ('<<', '>>'):
        raise AnalysisBroken('%s: expected a shift, found %r' % (row['name'], rhs))
    probs = []
    want = '<<' if sem['dir'] == 'l' else '>>'
    if e.x != want:
        probs.append('shift direction is %s, specification requires %s' % (e.x, want))
    ti = tinfo(e.ty)
    sign = 's' if sem['sign'] == 's' else 'u'
    if not full_slot(e.a[0], ops[0], W, sign if want == '>>' else None):
        probs.append('shifted value is %r; expected the %s interpretation of all %d bits of %s'
                     % (e.a[0], _sn(sign), W, ops[0]))
    if ti[0] != 'int' or ti[1] != W:
        probs.append('shift is performed in %s, expected a %d-bit type' % (e.ty, W))
    elif want == '<<' and ti[2]:
        probs.append('left shift performed in a signed type (%s)' % e.ty)
    elif want == '>>' and ti[2] != (sign == 's'):
        probs.append('right shift performed in %s type %s, specification requires %s shift'
                     % (_sn('s' if ti[2] else 'u'), e.ty, 'arithmetic' if sign == 's' else 'logical'))
    probs += _mask_count(e.a[1], ops[1], W)
    return probs


def linear(e, slot, W):
    """(a, b) with e == a*slot + b (mod W), or None"""
    e0, _ = unwrap(e)
    c = const_value(e0)
    if c is not None:
        return (0, c % W)
    if e0.k == 'var':
        return (1, 0) if e0.x == slot else None
    if e0.k == 'bin' and e0.x in ('+', '-'):
        l, r = linear(e0.a[0], slot, W), linear(e0.a[1], slot, W)
        if l is None or r is None:
            return None
        if e0.x == '+':
            return ((l[0] + r[0]) % W, (l[1] + r[1]) % W)
        return ((l[0] - r[0]) % W, (l[1] - r[1]) % W)
    if e0.k == 'un' and e0.x == '-':
        l = linear(e0.a[0], slot, W)
        return None if l is None else ((-l[0]) % W, (-l[1]) % W)
    if e0.k == 'bin' and e0.x == '&':
        for y, m in ((e0.a[0], e0.a[1]), (e0.a[1], e0.a[0])):
            mv = const_value(m)
            if mv is not None and mv == W - 1:
                return linear(y, slot, W)
        return None
    return None


def _masked(c, W):
    e, _ = unwrap(c)
    if e.k == 'bin' and e.x == '&':
        for m in e.a:
            mv = const_value(m)
            if mv is not None and 0 <= mv <= W - 1:
                return True
    return False


def descr_rot(row, rhs, ops):
    W = W_OF[row['sem']['type']]
    e, _ = unwrap(rhs)
    if e.k != 'bin' or e.x != '|' or e.a[0].k != 'bin' or e.a[1].k != 'bin':
        raise AnalysisBroken('%s: expected (x << a) | (x >> b), found %r' % (row['name'], rhs))
    parts = {}
    for s in e.a:
        s0, _ = unwrap(s)
        if s0.k != 'bin' or s0.x not in ('<<', '>>') or s0.x in parts:
            raise AnalysisBroken('%s: expected two opposite shifts, found %r' % (row['name'], rhs))
        parts[s0.x] = s0
    probs = []
    for op, s in parts.items():
        ti = tinfo(s.ty)
        if not full_slot(s.a[0], ops[0], W, 'u') or ti[0] != 'int' or ti[1] != W or ti[2]:
            probs.append('%s operates on %r in type %s; expected the unsigned %d-bit value of %s'
                         % (op, s.a[0], s.ty, W, ops[0]))
        if not _masked(s.a[1], W):
            probs.append('count of %s (%r) is not reduced modulo %d' % (op, s.a[1], W))
    for op, s in parts.items():
        for x in walk_e(s.a[1]):
            if x.k == 'bin' and x.x == '&':
                for m in x.a:
                    mv = const_value(m)
                    if mv is not None and mv != W - 1:
                        probs.append('count of %s is reduced with mask %d, a %d-bit rotation needs mask %d' % (op, mv, W, W - 1))
    if probs:
        return probs
    l = linear(parts['<<'].a[1], ops[1], W)
    r = linear(parts['>>'].a[1], ops[1], W)
    if l is None or r is None:
        raise AnalysisBroken('%s: shift counts %r / %r are not affine in %s' % (row['name'], parts['<<'].a[1], parts['>>'].a[1], ops[1]))
    want_l, want_r = ((1, 0), (W - 1, 0)) if row['sem']['dir'] == 'l' else ((W - 1, 0), (1, 0))
    if l != want_l or r != want_r:
        probs.append('rotation counts are <<(%d*y+%d) | >>(%d*y+%d) (mod %d); specification requires <<(%d*y) | >>(%d*y)'
                     % (l[0], l[1], r[0], r[1], W, want_l[0], want_r[0]))
    return probs


def trap_first(e):
    """normalise `c ? value : trap` into `!c ? trap : value` (with `!(y != 0)` and `!y` spelled as `y == 0`) so that conditional
    chains have their trapping arms first, whichever way the source spells the test"""
    e0 = e
    casts = []
    while e0.k == 'cast' and e0.a[0].k in ('cond', 'cast'):
        casts.append(e0)
        e0 = e0.a[0]
    if e0.k != 'cond':
        return e
    c, a, b = e0.a
    a, b = trap_first(a), trap_first(b)
    if trap_of(b) is not None and trap_of(a) is None:
        c0, _ = unwrap(c)
        if c0.k == 'bin' and c0.x == '!=' and const_value(c0.a[1]) == 0:
            nc = E('bin', c0.ty, [c0.a[0], c0.a[1]], c0.node, '==')
        elif c0.k == 'un' and c0.x == '!':
            nc = E('bin', 'int', [c0.a[0], E('const', 'int', (), c0.node, 0)], c0.node, '!=')
        else:
            nc = E('bin', 'int', [c, E('const', 'int', (), c0.node, 0)], c0.node, '==')
        out = E('cond', e0.ty, [nc, b, a], e0.node, e0.x)
    else:
        out = E('cond', e0.ty, [c, a, b], e0.node, e0.x)
    for cst in reversed(casts):
        out = E('cast', cst.ty, [out], cst.node, cst.x)
    return out


def descr_divrem(row, rhs, ops):
    W = W_OF[row['sem']['type']]
    sg = row['sem']['sign']
    is_div = row['sem']['cls'] == 'div'
    rhs = trap_first(rhs)
    arms, els = cond_chain(rhs)
    core, _ = unwrap(els)
    if core.k != 'bin' or core.x not in ('/', '%'):
        raise AnalysisBroken('%s: expected a guarded / or %%, found %r' % (row['name'], rhs))
    probs = []
    want = '/' if is_div else '%'
    if core.x != want:
        probs.append('operator is %s, specification requires %s' % (core.x, want))
    ti = tinfo(core.ty)
    if not full_slot(core.a[0], ops[0], W, sg) or not full_slot(core.a[1], ops[1], W, sg):
        probs.append('operands are %r and %r; expected the %s interpretations of all %d bits of %s and %s'
                     % (core.a[0], core.a[1], _sn(sg), W, ops[0], ops[1]))
    if ti[0] != 'int' or ti[1] < W or ti[2] != (sg == 's'):
        probs.append('performed in type %s, expected a %s type of %d bits' % (core.ty, _sn(sg), W))
    seen_zero = False
    seen_ovf = False
    for g, res in arms:
        kind = _guard_kind(g, ops, W)
        tr = trap_of(res)
        if kind == 'zero':
            seen_zero = True
            if tr != TRAP_DIVZERO:
                probs.append('a zero divisor is reported as %s, specification requires a divide-by-zero trap (%s)'
                             % (tr if tr else 'value %r' % (res,), TRAP_DIVZERO))
        elif kind == 'ovf':
            seen_ovf = True
            if sg != 's':
                probs.append('unsigned operation has a MIN/-1 special case')
            elif is_div:
                if tr != TRAP_OVERFLOW:
                    probs.append('MIN / -1 yields %s, specification requires an integer-overflow trap (%s)'
                                 % (tr if tr else 'value %r' % (res,), TRAP_OVERFLOW))
            else:
                if tr is not None or const_value(unwrap(res)[0]) != 0:
                    probs.append('MIN %% -1 yields %r, specification requires 0 without trapping' % (res,))
        elif isinstance(kind, tuple) and kind[0] == 'ovf-wrong':
            seen_ovf = True
            probs.append('overflow guard tests %s; specification: dividend == %d and divisor == -1 at %d bits'
                         % (', '.join('%s%d(%s) == %d' % (m[0], m[1], m[2], c) for m, c in sorted(kind[1].items())),
                            -(1 << (W - 1)), W))
        else:
            raise AnalysisBroken('%s: unrecognised guard %r' % (row['name'], g))
    if not seen_zero:
        probs.append('no zero-divisor guard dominates the division')
    if sg == 's' and not seen_ovf:
        probs.append('no MIN/-1 guard dominates the signed %s (undefined behaviour in C, trap/0 in the specification)'
                     % ('division' if is_div else 'remainder'))
    return probs


def _guard_kind(g, ops, W):
    g0, _ = unwrap(g)
    # `!y` is the same test as `y == 0`
    if g0.k == 'un' and g0.x == '!' and full_slot(unwrap(g0.a[0])[0] if False else g0.a[0], ops[1], W):
        return 'zero'
    if g0.k == 'bin' and g0.x == '==':
        for x, c in ((g0.a[0], g0.a[1]), (g0.a[1], g0.a[0])):
            cv = const_value(c)
            if cv == 0 and full_slot(x, ops[1], W):
                return 'zero'
    if g0.k == 'bin' and g0.x == '&&':
        l, _ = unwrap(g0.a[0])
        r, _ = unwrap(g0.a[1])
        a = _eq_const(l)
        b = _eq_const(r)
        if a and b:
            d = dict([a, b])
            xm = ('s', W, ops[0])
            ym = ('s', W, ops[1])
            if d.get(xm) == -(1 << (W - 1)) and d.get(ym) == -1:
                return 'ovf'
            slots = {m[2] for m in d}
            if slots == {ops[0], ops[1]}:
                return ('ovf-wrong', d)
    return None


def _eq_const(e):
    while e.k == 'cast' and e.x == 'IntegralToBoolean':
        e = e.a[0]
    if e.k == 'bin' and e.x == '==':
        for x, c in ((e.a[0], e.a[1]), (e.a[1], e.a[0])):
            cv = const_value(c)
            m = math_value(iabs(x))
            if cv is not None and m is not None:
                return (m, cv)
    return None


BITCOUNT_BUILTINS = {
    'clz': {'__builtin_clz': 'unsigned int', '__builtin_clzl': 'unsigned long', '__builtin_clzll': 'unsigned long long'},
    'ctz': {'__builtin_ctz': 'unsigned int', '__builtin_ctzl': 'unsigned long', '__builtin_ctzll': 'unsigned long long'},
    'popcnt': {'__builtin_popcount': 'unsigned int', '__builtin_popcountl': 'unsigned long',
               '__builtin_popcountll': 'unsigned long long'},
}


def descr_bitcount(row, rhs, ops):
    """builtin configuration only; returns (problems, decided?)"""
    cls = row['sem']['cls']
    W = W_OF[row['sem']['type']]
    arms, els = cond_chain(rhs)
    core, _ = unwrap(els)
    probs = []
    call = None
    zero_const = None
    if len(arms) == 1:
        c, then = arms[0]
        t0, _ = unwrap(then)
        e0, _ = unwrap(els)
        c0 = c
        while c0.k == 'cast' and c0.x == 'IntegralToBoolean':
            c0 = c0.a[0]
        negated = False
        if c0.k == 'bin' and c0.x in ('!=', '==') and const_value(c0.a[1]) == 0:
            negated = c0.x == '=='
            c0 = c0.a[0]
        if not full_slot(c0, ops[0], W):
            probs.append('zero test is on %r, expected all %d bits of %s' % (c0, W, ops[0]))
        nz, z = (e0, t0) if negated else (t0, e0)
        call = nz
        zero_const = const_value(z)
    elif not arms:
        call = core
    else:
        raise AnalysisBroken('%s: unrecognised shape %r' % (row['name'], rhs))
    if call.k != 'call':
        raise AnalysisBroken('%s: expected a call, found %r' % (row['name'], call))
    fam = BITCOUNT_BUILTINS[cls]
    if call.x not in fam:
        other = [k for k, v in BITCOUNT_BUILTINS.items() if call.x in v]
        if other:
            probs.append('calls %s (a %s builtin), specification requires %s' % (call.x, other[0], cls))
            return probs, True
        return probs, False          # fallback implementation: arithmetic not decided statically
    pw = tinfo(fam[call.x])[1]
    if pw != W:
        probs.append('%s counts in a %d-bit word, the operand has %d bits' % (call.x, pw, W))
    if not full_slot(call.a[0], ops[0], min(W, pw)) and not full_slot(call.a[0], ops[0], W):
        probs.append('argument is %r, expected all %d bits of %s' % (call.a[0], W, ops[0]))
    if cls in ('clz', 'ctz'):
        if zero_const is None:
            probs.append('%s(0) is undefined for the builtin and no zero guard yields %d' % (cls, W))
        elif zero_const != W:
            probs.append('%s of zero yields %d, specification requires %d' % (cls, zero_const, W))
    return probs, True


def int_reference(row, vals):
    """WebAssembly result of the integer instruction `row` on operand bit patterns vals: ('value', bits) or ('trap', kind)"""
    sem = row['sem']
    cls = sem['cls']
    W = W_OF[row['params'][0]]
    M = (1 << W) - 1

    def s(x):
        x &= M
        return x - (1 << W) if x >> (W - 1) else x
    a = vals[0] & M
    b = vals[1] & M if len(vals) > 1 else 0
    if cls == 'eqz':
        return ('value', int(a == 0))
    if cls == 'icmp':
        x, y = (s(a), s(b)) if sem['sign'] == 's' else (a, b)
        return ('value', int({'==': x == y, '!=': x != y, '<': x < y, '>': x > y, '<=': x <= y, '>=': x >= y}[sem['op']]))
    if cls == 'bin':
        return ('value', {'+': a + b, '-': a - b, '*': a * b, '&': a & b, '|': a | b, '^': a ^ b}[sem['op']] & M)
    if cls == 'shift':
        k = b % W
        if sem['dir'] == 'l':
            return ('value', (a << k) & M)
        return ('value', ((s(a) >> k) if sem['sign'] == 's' else (a >> k)) & M)
    if cls == 'rot':
        k = b % W
        if sem['dir'] == 'r':
            k = (W - k) % W
        return ('value', ((a << k) | (a >> ((W - k) % W))) & M if k else a)
    if cls in ('div', 'rem'):
        if b == 0:
            return ('trap', TRAP_DIVZERO)
        if sem['sign'] == 's':
            x, y = s(a), s(b)
            if cls == 'div' and x == -(1 << (W - 1)) and y == -1:
                return ('trap', TRAP_OVERFLOW)
            q = abs(x) // abs(y)
            if (x < 0) != (y < 0):
                q = -q
            return ('value', (q if cls == 'div' else x - q * y) & M)
        return ('value', (a // b if cls == 'div' else a % b) & M)
    if cls == 'clz':
        return ('value', W - a.bit_length())
    if cls == 'ctz':
        return ('value', W if a == 0 else (a & -a).bit_length() - 1)
    if cls == 'popcnt':
        return ('value', bin(a).count('1'))
    if cls == 'wrap':
        return ('value', a & 0xFFFFFFFF)
    if cls == 'extend':
        fb = sem['from_bits']
        x = a & ((1 << fb) - 1)
        if sem['sign'] == 's' and x >> (fb - 1):
            x |= ~((1 << fb) - 1)
        return ('value', x & ((1 << W_OF[row['results'][0]]) - 1))
    raise AnalysisBroken('no reference semantics for class %s' % cls)


def int_grid(W):
    top = 1 << (W - 1)
    g = [0, 1, 2, 3, 4, 5, 7, 8, 31, 32, 33, 63, 64, 65, 0x80, 0xFF, 0x100, 0x7FFF, 0x8000, 0xFFFF, 0x10000, 0x7FFFFFFF, 0x80000000,
         0xFFFFFFFF, 0x100000000, top - 1, top, top + 1, (1 << W) - 1, (1 << W) - 2, (1 << W) - 3, 0x0123456789ABCDEF, 0xFEDCBA9876543210,
         1 << (W // 2), (1 << (W // 2)) - 1]
    return sorted({x & ((1 << W) - 1) for x in g})


def ub_on_grid(row, rhs, ops):
    """first grid operand for which evaluating the template expression runs into undefined behaviour (text), or None"""
    from .ctyperules import ieval, EvalTrap, EvalUB, EvalUnknown
    W = W_OF[row['params'][0]]
    grid = int_grid(W)
    pts = [(x,) for x in grid] if len(ops) == 1 else [(x, y) for x in grid for y in grid]
    for vals in pts:
        try:
            ieval(rhs, dict(zip(ops, vals)))
        except EvalTrap:
            pass
        except EvalUB as u:
            return 'operands %s: %s' % (', '.join('0x%X' % v for v in vals), u)
        except EvalUnknown as u:
            raise AnalysisBroken('%s: not evaluable (%s)' % (row['name'], u))
    return None


def refute_on_grid(row, rhs, ops, Wres, small=False):
    """evaluate the (unrecognised) template expression exactly on a grid of boundary operands against the specification; returns a
    problem text for the first disagreement (a definite witness), None when every grid point agrees (which decides nothing more)"""
    from .ctyperules import ieval, EvalTrap, EvalUB, EvalUnknown
    W = W_OF[row['params'][0]]
    grid = int_grid(W)
    if small and len(ops) > 1:
        top = 1 << (W - 1)
        grid = sorted({0, 1, 2, 3, 31, 32, 33, 63, 64, 0xFF, top - 1, top, (1 << W) - 1, (1 << W) - 2, 0x0123456789ABCDEF & ((1 << W) - 1)})
    if len(ops) == 1:
        # one operand: every single bit, every low/high run of ones and their complements, and the byte/nibble patterns
        M = (1 << W) - 1
        extra = set()
        for k in range(W):
            extra |= {1 << k, (1 << k) - 1, M ^ (1 << k), (M << k) & M, (1 << k) | 1, (1 << k) | (1 << (W - 1))}
        for pat in (0x55, 0xAA, 0x33, 0xCC, 0x0F, 0xF0, 0x01, 0x80, 0x7F, 0xFE):
            extra.add(int(('%02X' % pat) * (W // 8), 16))
        grid = sorted(set(grid) | extra)
    pts = [(x,) for x in grid] if len(ops) == 1 else [(x, y) for x in grid for y in grid]
    for vals in pts:
        env = dict(zip(ops, vals))
        want = int_reference(row, list(vals))
        try:
            got = ('value', ieval(rhs, env) & ((1 << Wres) - 1))
        except EvalTrap as t:
            got = ('trap', t.kind)
        except EvalUB as u:
            return 'for operands %s the emitted expression has undefined behaviour (%s); specification: %s' % (
                ', '.join('0x%X' % v for v in vals), u, '%s 0x%X' % want if want[0] == 'value' else 'trap %s' % want[1])
        except EvalUnknown as u:
            raise AnalysisBroken('%s: not evaluable (%s)' % (row['name'], u))
        if got != want:
            def show(r):
                return ('0x%X' % r[1]) if r[0] == 'value' else 'trap %s' % r[1]
            return 'for operands %s the emitted expression gives %s, the specification requires %s' % (
                ', '.join('0x%X' % v for v in vals), show(got), show(want))
    return None


def descr_castchain(row, rhs, ops, Wres):
    """wrap / extend: the value finally stored (rhs already includes the conversion to the slot type)"""
    sem = row['sem']
    if sem['cls'] == 'wrap':
        want = ('slice', ops[0], 32, 'z', 32, False)
    else:
        fb = sem['from_bits']
        ext = 's' if sem['sign'] == 's' else 'z'
        want = ('slice', ops[0], fb, ext, Wres, False)
    v = iabs(rhs)
    if v[0] != 'slice':
        # not a single truncate-and-extend, but possibly still a pure chain of integer casts of the operand.  Such a chain maps
        # every result bit to one operand bit or to 0, so its value on 0 and on every single-bit operand decides all operands.
        chain = []
        e = rhs
        while e.k == 'cast' and tinfo(e.ty)[0] == 'int':
            chain.append(tinfo(e.ty))
            e = e.a[0]
        if e.k != 'var' or e.x != ops[0] or tinfo(e.ty)[0] != 'int':
            raise AnalysisBroken('%s: not a cast chain: %r (%s)' % (row['name'], rhs, v[1] if len(v) > 1 else ''))
        Win = tinfo(e.ty)[1]

        def run(x):
            bits, signed = Win, tinfo(e.ty)[2]
            for _k, b_, s_ in reversed(chain):
                x &= (1 << b_) - 1          # value as a two's complement pattern of the new width
                if bits < b_ and signed and x >> (bits - 1) & 1:
                    x |= ((1 << b_) - 1) & ~((1 << bits) - 1)
                bits, signed = b_, s_
            return x & ((1 << Wres) - 1)

        def spec(x):
            _, _slot, k, ext, W_, _S = want
            x &= (1 << k) - 1
            if ext == 's' and x >> (k - 1) & 1:
                x |= ((1 << W_) - 1) & ~((1 << k) - 1)
            return x & ((1 << W_) - 1)
        for x in [0] + [1 << i for i in range(Win)]:
            if run(x) != spec(x):
                return ['for operand 0x%X the cast chain %r yields 0x%X, specification requires 0x%X' % (x, rhs, run(x), spec(x))]
        return []
    # canonical form: zero-extension of k == W bits equals the plain value
    def canon(s):
        _, slot, k, ext, W, S = s
        if k >= W:
            return (slot, W, 'z', W)
        return (slot, k, ext, W)
    if canon(v) != canon(want):
        return ['stores %s-extension of the low %d bits of %s in %d bits; specification requires %s-extension of the '
                'low %d bits in %d bits' % ('sign' if v[3] == 's' else 'zero', v[2], v[1], v[4],
                                            'sign' if want[3] == 's' else 'zero', want[2], want[4])]
    return []


# =====================================================================================================
# floating point

FT_W = {'f32': 32, 'f64': 64}
FT_C = {'f32': 'float', 'f64': 'double'}

LIBM = {   # semantic classes of ISO C functions used as opcode implementations (name -> operand float width)
    'fabs': {'fabsf': 32, 'fabs': 64, '__builtin_fabsf': 32, '__builtin_fabs': 64},
    'fsqrt': {'sqrtf': 32, 'sqrt': 64, '__builtin_sqrtf': 32, '__builtin_sqrt': 64},
    'fceil': {'ceilf': 32, 'ceil': 64, '__builtin_ceilf': 32, '__builtin_ceil': 64},
    'ffloor': {'floorf': 32, 'floor': 64, '__builtin_floorf': 32, '__builtin_floor': 64},
    'ftrunc': {'truncf': 32, 'trunc': 64, '__builtin_truncf': 32, '__builtin_trunc': 64},
    # round-half-to-even in the default rounding mode; round()/roundf() round half away from zero: NOT members
    'fnearest': {'nearbyintf': 32, 'nearbyint': 64, 'rintf': 32, 'rint': 64,
                 '__builtin_nearbyintf': 32, '__builtin_nearbyint': 64, '__builtin_rintf': 32, '__builtin_rint': 64},
    'fcopysign': {'copysignf': 32, 'copysign': 64, '__builtin_copysignf': 32, '__builtin_copysign': 64},
}
LIBM_ALL = {n: c for c, d in LIBM.items() for n in d}


def float_slot(e, slot, W):
    """e is the value of float slot `slot` (possibly widened to a wider float type - exact)"""
    while e.k == 'cast' and e.x == 'FloatingCast':
        s, d = tinfo(e.a[0].ty), tinfo(e.ty)
        if s[0] == 'float' and d[0] == 'float' and d[1] >= s[1]:
            e = e.a[0]
        else:
            return False
    return e.k == 'var' and e.x == slot and tinfo(e.ty) == ('float', W)


def descr_farith(row, rhs, ops):
    W = FT_W[row['sem']['type']]
    op = {'fadd': '+', 'fsub': '-', 'fmul': '*', 'fdiv': '/'}[row['sem']['cls']]
    e = rhs
    while e.k == 'cast' and e.x == 'FloatingCast':
        e = e.a[0]
    if e.k != 'bin':
        raise AnalysisBroken('%s: expected a binary operator, found %r' % (row['name'], rhs))
    probs = []
    if e.x != op:
        probs.append('operator is %s, specification requires %s' % (e.x, op))
    ti = tinfo(e.ty)
    if ti[0] != 'float' or ti[1] < W or ti[1] > 64:
        probs.append('computed in type %s; needs the IEEE type of %d bits (or binary64 for f32, where double rounding is innocuous)' % (e.ty, W))
    if not float_slot(e.a[0], ops[0], W):
        probs.append('left operand is %r, expected the deeper operand %s' % (e.a[0], ops[0]))
    if not float_slot(e.a[1], ops[1], W):
        probs.append('right operand is %r, expected the top operand %s' % (e.a[1], ops[1]))
    return probs


# C99 quiet comparison macros / builtins: the same truth value as the operator for every operand pair (false when unordered), they only
# differ in not raising the invalid exception.  (islessgreater is NOT `!=`: it is false for unordered operands.)
QUIET_CMP = {'isless': '<', 'islessequal': '<=', 'isgreater': '>', 'isgreaterequal': '>='}


def descr_fcmp(row, rhs, ops):
    W = FT_W[row['sem']['type']]
    e, _ = unwrap(rhs)
    if e.k == 'call' and (e.x or '').replace('__builtin_', '') in QUIET_CMP and len(e.a) == 2:
        op = QUIET_CMP[e.x.replace('__builtin_', '')]
        probs = []
        if op != row['sem']['op']:
            probs.append('comparison is %s (the quiet form of %s), specification requires %s' % (e.x, op, row['sem']['op']))
        if not float_slot(e.a[0], ops[0], W) or not float_slot(e.a[1], ops[1], W):
            probs.append('operands are %r, %r; expected the float values of %s then %s' % (e.a[0], e.a[1], ops[0], ops[1]))
        return probs
    if e.k != 'bin':
        raise AnalysisBroken('%s: expected a comparison, found %r' % (row['name'], rhs))
    probs = []
    if e.x != row['sem']['op']:
        probs.append('comparison operator is %s, specification requires %s' % (e.x, row['sem']['op']))
    if not float_slot(e.a[0], ops[0], W) or not float_slot(e.a[1], ops[1], W):
        probs.append('operands are %r, %r; expected the float values of %s then %s' % (e.a[0], e.a[1], ops[0], ops[1]))
    return probs


def descr_fneg(row, rhs, ops):
    W = FT_W[row['sem']['type']]
    e = rhs
    while e.k == 'cast' and e.x == 'FloatingCast':
        e = e.a[0]
    if e.k == 'un' and e.x == '-':
        if not float_slot(e.a[0], ops[0], W):
            return ['negates %r, expected %s' % (e.a[0], ops[0])]
        if any(x.k == 'cast' and x.x == 'FloatingCast' for x in walk_e(rhs)):
            return ['the operand is converted to another floating format around the negation: a signalling NaN is quieted, but neg must '
                    'keep every NaN bit pattern intact']
        return []
    if e.k == 'bin':
        return ['negation is computed arithmetically as %r - NaN payload/sign and -0 are not preserved' % (e,)]
    raise AnalysisBroken('%s: expected unary minus, found %r' % (row['name'], rhs))


def descr_libm(row, rhs, ops):
    cls = row['sem']['cls']
    W = FT_W[row['sem']['type']]
    e = rhs
    while e.k == 'cast' and e.x == 'FloatingCast':
        e = e.a[0]
    if e.k != 'call' or e.x is None:
        raise AnalysisBroken('%s: expected a libm call, found %r' % (row['name'], rhs))
    fam = LIBM[cls]
    probs = []
    if e.x not in fam:
        other = LIBM_ALL.get(e.x)
        what = 'a %s-class function' % other[1:] if other else 'not in the %s class' % cls[1:]
        probs.append('calls %s (%s); the specification requires %s semantics (accepted: %s)'
                     % (e.x, what, cls[1:], ', '.join(sorted(n for n in fam if not n.startswith('__')))))
        return probs
    if fam[e.x] < W:
        probs.append('calls the binary%d function %s on a %d-bit operand (precision lost)' % (fam[e.x], e.x, W))
    if cls in ('fabs', 'fcopysign') and (fam[e.x] != W or any(x.k == 'cast' and x.x == 'FloatingCast' for x in walk_e(rhs))):
        # bit-preserving instructions: a detour through another floating format is a value conversion, and converting a signalling NaN
        # quiets it (sets the top fraction bit) - the payload is no longer intact
        probs.append('the %d-bit operand is converted to another floating format (%s works on binary%d): a signalling NaN is quieted on '
                     'the way, but this instruction must keep every NaN bit pattern intact' % (W, e.x, fam[e.x]))
    for k, a in enumerate(e.a):
        if not float_slot(a, ops[k], W):
            probs.append('argument %d is %r, expected %s' % (k + 1, a, ops[k]))
    if len(e.a) != len(ops):
        probs.append('%d arguments, expected %d' % (len(e.a), len(ops)))
    return probs


def descr_fconv(row, rhs, ops):
    """promote / demote / convert"""
    sem = row['sem']
    cls = sem['cls']
    if cls in ('promote', 'demote'):
        src, dst = (32, 64) if cls == 'promote' else (64, 32)
        e = rhs
        n = 0
        casts = []
        while e.k == 'cast':
            casts.append((e.x, e.ty))
            e = e.a[0]
        if e.k != 'var' or e.x != ops[0]:
            raise AnalysisBroken('%s: expected a cast of %s, found %r' % (row['name'], ops[0], rhs))
        bad = [c for c in casts if c[0] != 'FloatingCast']
        if bad:
            return ['value passes through a non-floating conversion %r' % (bad,)]
        widths = [tinfo(t)[1] for _, t in casts]
        if not widths or widths[0] != dst or min(widths + [src]) < min(src, dst):
            return ['cast chain %r does not convert binary%d to binary%d in one rounding' % (casts, src, dst)]
        return []
    # convert
    dstW = FT_W[sem['dst']]
    srcW = W_OF[sem['src']]
    e = rhs
    fcasts = []
    while e.k == 'cast' and e.x == 'FloatingCast':
        fcasts.append(tinfo(e.ty)[1])
        e = e.a[0]
    if e.k != 'cast' or e.x != 'IntegralToFloating':
        # not the single-cast form: a definite refutation on a rounding-tie operand is a violation; without one the shape
        # stays undecided (exit 2) - agreement on finitely many points proves nothing
        w = conversion_witness(rhs, ops[0], srcW, sem['sign'], dstW)
        if w is not None:
            return ['conversion is not the correctly rounded one: ' + w]
        raise AnalysisBroken('%s: expected an integer-to-float cast, found %r' % (row['name'], rhs))
    probs = []
    w = tinfo(e.ty)[1]
    if w != dstW or any(x != dstW for x in fcasts):
        probs.append('integer is converted to binary%d (then %r), specification requires a single rounding to binary%d'
                     % (w, fcasts, dstW))
    m = math_value(iabs(e.a[0]))
    if m is None or m != (sem['sign'], srcW, ops[0]):
        probs.append('converts %r (%s), specification requires the %s interpretation of all %d bits of %s'
                     % (e.a[0], 'unrecognised' if m is None else '%s%d(%s)' % m, _sn(sem['sign']), srcW, ops[0]))
    return probs


def bitcopy_function(tu, name):
    """(param type, return type, ok) if function `name` is { T2 r; memcpy(&r, &x, sizeof r); return r; }"""
    f = tu.functions.get(name)
    if f is None:
        return None
    params = astdb.fn_params(f)
    if len(params) != 1:
        return None
    pt = tu.desugar(astdb.qtype(params[0]))
    rt = tu.desugar(astdb.qtype(f)).split('(')[0].strip()
    body = [s for s in astdb.fn_body(f).get('inner', []) if s.get('kind')]
    ok = False
    copy_size = None
    src_ok = dst_ok = False
    local = None
    for s in body:
        if s.get('kind') == 'DeclStmt':
            for d in s.get('inner', []):
                if d.get('kind') == 'VarDecl':
                    local = d.get('name')
        elif s.get('kind') == 'CallExpr' and astdb.callee_name(s) in ('memcpy', '__builtin_memcpy', 'memmove'):
            a = [ct.simplify(x, tu) for x in astdb.call_args(s)]
            d0, _ = unwrap(a[0])
            s0, _ = unwrap(a[1])
            dst_ok = d0.k == 'addr' and d0.a[0].k == 'var' and d0.a[0].x == local
            src_ok = s0.k == 'addr' and s0.a[0].k == 'var' and s0.a[0].x == params[0].get('name')
            z, _ = unwrap(a[2])
            if z.k == 'sizeof':
                copy_size = _sizeof(z.x[1])
            else:
                copy_size = const_value(z)
        elif s.get('kind') == 'ReturnStmt':
            r = ct.simplify([c for c in s.get('inner', []) if c.get('kind')][0], tu)
            ok = r.k == 'var' and r.x == local
        else:
            return (pt, rt, False, 'unexpected statement %s' % s.get('kind'))
    psz, rsz = _sizeof(pt), _sizeof(rt)
    good = ok and src_ok and dst_ok and copy_size is not None and copy_size == psz == rsz
    return (pt, rt, good, 'copies %r bytes from a %r-byte %s into a %r-byte %s' % (copy_size, psz, pt, rsz, rt))


def _sizeof(t):
    ti = tinfo(t)
    if ti[0] in ('int', 'float'):
        return ti[1] // 8
    return None


def descr_reinterpret(row, rhs, ops, tu):
    sem = row['sem']
    e = rhs
    if e.k != 'call' or e.x is None:
        if e.k == 'cast':
            return ['reinterpretation is written as a value conversion %r - the bit pattern is not preserved' % (rhs,)]
        raise AnalysisBroken('%s: expected a call, found %r' % (row['name'], rhs))
    info = bitcopy_function(tu, e.x)
    if info is None:
        raise AnalysisBroken('%s: callee %s has no analysable body' % (row['name'], e.x))
    pt, rt, good, why = info
    probs = []
    want_p = ('float', FT_W[sem['src']]) if sem['src'][0] == 'f' else ('int', W_OF[sem['src']], False)
    want_r = ('float', FT_W[sem['dst']]) if sem['dst'][0] == 'f' else ('int', W_OF[sem['dst']], False)
    if tinfo(pt) != want_p or tinfo(rt) != want_r:
        probs.append('%s has signature %s -> %s, specification: %s -> %s' % (e.x, pt, rt, sem['src'], sem['dst']))
    if not good:
        probs.append('%s is not a plain bit copy: %s' % (e.x, why))
    a = e.a[0]
    if not (a.k == 'var' and a.x == ops[0]):
        probs.append('argument is %r (converted before the copy), expected %s itself' % (a, ops[0]))
    return probs


# ---- point evaluation over float classes -----------------------------------------------------------

import math


class UB(Exception):
    pass


def has_var(e):
    return any(x.k == 'var' for x in walk_e(e))


def int_to_float(v, width):
    """exact round-to-nearest-even conversion of a python int to binary32/64 (returned as a python float)"""
    if width == 64:
        return float(v)             # CPython converts ints to double with correct rounding
    p = 24
    if v == 0:
        return 0.0
    neg = v < 0
    m = -v if neg else v
    e = m.bit_length()
    if e > p:
        sh = e - p
        q, r = m >> sh, m & ((1 << sh) - 1)
        half = 1 << (sh - 1)
        if r > half or (r == half and (q & 1)):
            q += 1
        m = q << sh
    r = float(m)                    # at most 25 significant bits: exact in binary64
    return -r if neg else r


def conversion_points(srcW, sign, dstW):
    """integer operands around every rounding tie of an integer -> binary32/64 conversion"""
    p = 24 if dstW == 32 else 53
    pts = {0, 1, 2, 3, (1 << srcW) - 1, 1 << (srcW - 1), (1 << (srcW - 1)) - 1, (1 << (srcW - 1)) + 1}
    for e in range(p, srcW):
        ulp = 1 << (e - p + 1)
        for k in (0, 1, 2, (1 << (p - 1)) - 2, (1 << (p - 1)) - 1):
            base = (1 << e) + k * ulp
            for d in (0, 1, ulp // 2 - 1, ulp // 2, ulp // 2 + 1, ulp - 1):
                if 0 <= d < ulp:
                    pts.add(base + d)
    out = set()
    for v in pts:
        v &= (1 << srcW) - 1
        out.add(v)
        out.add((-v) & ((1 << srcW) - 1))
    return sorted(out)


def conversion_witness(rhs, op, srcW, sign, dstW):
    """evaluate an unrecognised conversion template on the tie points; -> description of a refuting operand or None"""
    for u in conversion_points(srcW, sign, dstW):
        val = u - (1 << srcW) if (sign == 's' and u >> (srcW - 1)) else u
        want = int_to_float(val, dstW)
        try:
            got = fpoint(rhs, {op: u})
        except UB as e:
            return 'operand 0x%X: undefined behaviour (%s)' % (u, e)
        except AnalysisBroken:
            return None
        if isinstance(got, tuple) or got != want:
            return 'operand 0x%X (%d): the template evaluates to %r (bits 0x%X), correctly rounded conversion gives %r (bits 0x%X)' % (
                u, val, got, ct.float_bits(got, dstW) if not isinstance(got, tuple) else 0, want, ct.float_bits(want, dstW))
    return None


def fpoint(e, env):
    """value of e with float variables bound to python floats (exact for binary32/64 values)"""
    if e.k == 'var':
        if e.x in env:
            return env[e.x]
        raise AnalysisBroken('free variable %s in template' % e.x)
    if e.k == 'const':
        v = e.x
        if isinstance(v, tuple) and v[0] == 'float':
            return float(feval(e)[0])
        if isinstance(v, tuple) and v[0] == 'enum':
            return v[2]
        if isinstance(v, int):
            return v
        return v
    if e.k == 'cast':
        if not has_var(e):
            r = feval(e)
            if r is not None:
                return float(r[0]) if r[1] else int(r[0])
        v = fpoint(e.a[0], env)
        d = tinfo(e.ty)
        if isinstance(v, tuple):
            return v
        if e.x == 'FloatingCast':
            if d[1] == 32:
                return ct.round_to(v, 32)
            return v
        if e.x == 'FloatingToIntegral':
            if v != v or v in (float('inf'), float('-inf')):
                raise UB('conversion of %r to %s' % (v, e.ty))
            t = int(v)
            lo, hi = (-(1 << (d[1] - 1)), (1 << (d[1] - 1)) - 1) if d[2] else (0, (1 << d[1]) - 1)
            if not lo <= t <= hi:
                raise UB('conversion of %r to %s is out of range' % (v, e.ty))
            return t
        if e.x == 'IntegralCast' and d[0] == 'int':
            v = int(v) & ((1 << d[1]) - 1)
            if d[2] and v >> (d[1] - 1):
                v -= 1 << d[1]
            return v
        if e.x == 'IntegralToFloating':
            return int_to_float(int(v), d[1])
        if e.x in ('IntegralToBoolean', 'FloatingToBoolean'):
            return int(v != 0)
        return v
    if e.k == 'un':
        v = fpoint(e.a[0], env)
        if e.x == '!':
            return int(not v)
        if e.x == '-':
            return -v
        if e.x == '+':
            return v
    if e.k == 'bin':
        if e.x == '&&':
            return int(bool(fpoint(e.a[0], env)) and bool(fpoint(e.a[1], env)))
        if e.x == '||':
            return int(bool(fpoint(e.a[0], env)) or bool(fpoint(e.a[1], env)))
        a, b = fpoint(e.a[0], env), fpoint(e.a[1], env)
        if e.x in ('==', '!=', '<', '>', '<=', '>='):
            return int({'==': a == b, '!=': a != b, '<': a < b, '>': a > b, '<=': a <= b, '>=': a >= b}[e.x])
        if e.x in ('+', '-', '*') and not isinstance(a, tuple) and not isinstance(b, tuple):
            r = {'+': a + b, '-': a - b, '*': a * b}[e.x]
            d = tinfo(e.ty)
            if d[0] == 'int':
                r = int(r) & ((1 << d[1]) - 1)
                if d[2] and r >> (d[1] - 1):
                    r -= 1 << d[1]
            elif d[0] == 'float' and d[1] == 32:
                r = ct.round_to(r, 32)      # operands are binary32 values: the binary64 result rounds once more without harm
            return r
        if e.x in ('>>', '<<', '&', '|', '^') and isinstance(a, int) and isinstance(b, int):
            d = tinfo(e.ty)
            la = tinfo(e.a[0].ty)
            if e.x in ('>>', '<<'):
                if not 0 <= b < la[1]:
                    raise UB('shift of a %d-bit value by %d' % (la[1], b))
                if e.x == '<<' and (a < 0 or (la[2] and (a << b) >> (la[1] - 1))):
                    raise UB('left shift of a signed value overflows')
            r = {'>>': a >> b if e.x == '>>' else 0, '<<': a << b if e.x == '<<' else 0, '&': a & b, '|': a | b, '^': a ^ b}[e.x]
            if d[0] == 'int':
                r &= (1 << d[1]) - 1
                if d[2] and r >> (d[1] - 1):
                    r -= 1 << d[1]
            return r
    if e.k == 'cond':
        return fpoint(e.a[1] if fpoint(e.a[0], env) else e.a[2], env)
    if e.k == 'comma':
        l = e.a[0]
        if l.k == 'call' and l.x == 'trap':
            return ('trap', trap_of(e))
        return fpoint(e.a[1], env)
    if e.k == 'call':
        n = e.x or ''
        if 'signbit' in n:
            return int(math.copysign(1.0, fpoint(e.a[0], env)) < 0)
        if n.startswith('__builtin_nan') or n in ('nan', 'nanf'):
            return float('nan')
        if 'isnan' in n:
            v = fpoint(e.a[0], env)
            return int(v != v)
        if n in ('__builtin_inff', '__builtin_inf', '__builtin_huge_valf', '__builtin_huge_val'):
            return float('inf')
        if n == 'trap':
            return ('trap', '?')
    if e.k == 'sizeof':
        return _sizeof(e.x[1])
    raise AnalysisBroken('point evaluation: unsupported form %r' % (e,))


def same_float(a, b):
    if a != a and b != b:
        return True
    return a == b and math.copysign(1.0, a) == math.copysign(1.0, b)


def descr_fminmax(row, rhs, ops):
    W = FT_W[row['sem']['type']]
    is_min = row['sem']['cls'] == 'fmin'
    reps = [float('nan'), float('-inf'), -2.0, -1.0, -0.0, 0.0, 1.0, 2.0, float('inf')]
    bad = []
    n = 0
    for x in reps:
        for y in reps:
            n += 1
            if x != x or y != y:
                want = float('nan')
            elif x == 0 and y == 0:
                neg = (math.copysign(1, x) < 0, math.copysign(1, y) < 0)
                want = -0.0 if (any(neg) if is_min else all(neg)) else 0.0
            else:
                want = min(x, y) if is_min else max(x, y)
            try:
                got = fpoint(rhs, {ops[0]: x, ops[1]: y})
            except UB as u:
                got = 'UB: %s' % u
            if isinstance(got, tuple) or isinstance(got, str) or not same_float(float(got), want):
                bad.append('%s(%r, %r) yields %r, specification requires %r' % (row['name'], x, y, got, want))
    return bad[:3], n


def trunc_points(consts, W_src, W_dst, signed):
    lo = -(1 << (W_dst - 1)) if signed else 0
    hi = (1 << (W_dst - 1)) - 1 if signed else (1 << W_dst) - 1
    pts = set()
    seeds = [Fraction(lo - 1), Fraction(lo), Fraction(hi), Fraction(hi + 1), Fraction(0), Fraction(1), Fraction(-1),
             Fraction(1, 2), Fraction(-1, 2)] + list(consts)
    for s in seeds:
        try:
            f = ct._frac_to_f32(s) if W_src == 32 else float(s)
        except OverflowError:
            continue
        if f in (float('inf'), float('-inf')) or f != f:
            continue
        cur = f
        up = f
        pts.add(f)
        for _ in range(3):
            cur = ct.next_down(cur, W_src)
            up = ct.next_up(up, W_src)
            pts.add(cur)
            pts.add(up)
    big = ct.float_from_bits(0x7f7fffff, 32) if W_src == 32 else ct.float_from_bits(0x7fefffffffffffff, 64)
    pts |= {big, -big, float('inf'), float('-inf'), float('nan'), 0.0, -0.0}
    return sorted(pts, key=lambda v: (v != v, v)), lo, hi


def descr_trunc(row, rhs, ops):
    sem = row['sem']
    W_src, W_dst = FT_W[sem['src']], W_OF[sem['dst']]
    signed = sem['sign'] == 's'
    consts = []
    for x in walk_e(rhs):
        if not has_var(x) and x.k in ('const', 'cast', 'un', 'bin'):
            r = feval(x)
            if r is not None:
                consts.append(r[0])
    # the conversion itself: innermost FloatingToIntegral must target the W_dst-bit type of the row's signedness
    probs = []
    f2i = [x for x in walk_e(rhs) if x.k == 'cast' and x.x == 'FloatingToIntegral']
    if len(f2i) != 1:
        raise AnalysisBroken('%s: expected exactly one float-to-integer conversion, found %d in %r' % (row['name'], len(f2i), rhs))
    d = tinfo(f2i[0].ty)
    if d != ('int', W_dst, signed):
        probs.append('truncates into %s; specification requires a %s %d-bit result' % (f2i[0].ty, _sn(sem['sign']), W_dst))
    if not float_slot(f2i[0].a[0], ops[0], W_src):
        probs.append('truncates %r, expected %s' % (f2i[0].a[0], ops[0]))
    pts, lo, hi = trunc_points(consts, W_src, W_dst, signed)
    mask = (1 << W_dst) - 1
    n = 0
    for x in pts:
        n += 1
        if x != x:
            want = ('trap', TRAP_INVALID) if not sem['sat'] else 0
        elif x in (float('inf'), float('-inf')) or not lo <= int(x) <= hi:
            if sem['sat']:
                want = (lo if x < 0 else hi) & mask
            else:
                want = ('trap', TRAP_OVERFLOW)
        else:
            want = int(x) & mask
        try:
            got = fpoint(rhs, {ops[0]: x})
            if not isinstance(got, tuple):
                got = int(got) & mask
        except UB as u:
            got = 'undefined behaviour (%s)' % u
        if got != want:
            probs.append('%s at %s (0x%X): yields %s, specification requires %s'
                         % (row['name'], repr(x), ct.float_bits(x, W_src), _show(got), _show(want)))
            if len(probs) >= 3:
                break
    return probs, n


def _show(v):
    if isinstance(v, tuple):
        return 'trap %s' % v[1]
    if isinstance(v, int):
        return '0x%X' % v
    return str(v)
