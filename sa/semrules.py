"""Semantic descriptor rules over typed templates (shared by C01, C02, C11).

Each matcher receives the simplified assignment `dst = rhs` of one template, the names of the operand slots
(deeper first) and the oracle row, and returns a list of problems (empty = descriptor equals the spec row).
Unrecognised *shapes* raise AnalysisBroken (exit 2) - they are never reported as violations.
"""
from fractions import Fraction

from . import astdb
from .astdb import AnalysisBroken
from .ctyperules import (E, tinfo, iabs, math_value, cond_chain, trap_of, walk_e, const_value, feval,
                         next_up, next_down, Fraction as _F)
from . import ctyperules as ct

W_OF = {'i32': 32, 'i64': 64, 'f32': 32, 'f64': 64}

TRAP_DIVZERO = 'trapDivByZero'
TRAP_OVERFLOW = 'trapIntOverflow'
TRAP_INVALID = 'trapInvalidConversion'


def unwrap(e):
    """strip casts and return (inner, [cast types outermost first])"""
    cs = []
    while e.k == 'cast':
        cs.append(e.ty)
        e = e.a[0]
    return e, cs


def full_slot(e, slot, W, sign=None):
    """e denotes all W bits of `slot` (signed/unsigned interpretation if sign given)"""
    v = iabs(e)
    if v[0] != 'slice' or v[1] != slot or v[2] != W:
        return False
    if sign is None:
        return True
    m = math_value(v)
    return m is not None and m[0] == sign


def descr_bin(row, rhs, ops):
    W = W_OF[row['sem']['type']]
    e, _ = unwrap(rhs)
    probs = []
    if e.k != 'bin':
        raise AnalysisBroken('%s: expected a binary operator, found %r' % (row['name'], rhs))
    if e.x != row['sem']['op']:
        probs.append('operator is %s, specification requires %s' % (e.x, row['sem']['op']))
    ti = tinfo(e.ty)
    if ti[0] != 'int' or ti[2] or ti[1] < W:
        probs.append('computed in type %s; needs an unsigned type of at least %d bits (wrap-around semantics)' % (e.ty, W))
    if not full_slot(e.a[0], ops[0], W):
        probs.append('left operand is %r, expected all %d bits of the deeper operand %s' % (e.a[0], W, ops[0]))
    if not full_slot(e.a[1], ops[1], W):
        probs.append('right operand is %r, expected all %d bits of the top operand %s' % (e.a[1], W, ops[1]))
    return probs


def descr_icmp(row, rhs, ops):
    W = W_OF[row['sem']['type']]
    e, _ = unwrap(rhs)
    if e.k != 'bin':
        raise AnalysisBroken('%s: expected a comparison, found %r' % (row['name'], rhs))
    probs = []
    if e.x != row['sem']['op']:
        probs.append('comparison operator is %s, specification requires %s' % (e.x, row['sem']['op']))
    sg = row['sem']['sign']
    ma, mb = math_value(iabs(e.a[0])), math_value(iabs(e.a[1]))
    if ma is None or mb is None:
        probs.append('operands %r, %r are not interpretations of the operand slots' % (e.a[0], e.a[1]))
        return probs
    if (ma[1], ma[2]) != (W, ops[0]) or (mb[1], mb[2]) != (W, ops[1]):
        probs.append('operands are %s%d(%s), %s%d(%s); expected all %d bits of %s then %s'
                     % (ma[0], ma[1], ma[2], mb[0], mb[1], mb[2], W, ops[0], ops[1]))
    if sg is not None:
        if ma[0] != sg or mb[0] != sg:
            probs.append('operands are compared as %s/%s values, specification requires %s'
                         % (_sn(ma[0]), _sn(mb[0]), _sn(sg)))
    elif ma[0] != mb[0]:
        probs.append('operands of ==/!= have different signedness interpretations')
    return probs


def _sn(s):
    return 'signed' if s == 's' else 'unsigned'


def descr_eqz(row, rhs, ops):
    W = W_OF[row['sem']['type']]
    e, _ = unwrap(rhs)
    x = None
    if e.k == 'un' and e.x == '!':
        x = e.a[0]
        while x.k == 'cast' and x.x == 'IntegralToBoolean':
            x = x.a[0]
    elif e.k == 'bin' and e.x == '==' and const_value(e.a[1]) == 0:
        x = e.a[0]
    else:
        raise AnalysisBroken('%s: expected !x or x == 0, found %r' % (row['name'], rhs))
    if not full_slot(x, ops[0], W):
        return ['tests %r, expected all %d bits of %s' % (x, W, ops[0])]
    return []


def _mask_count(c, slot, W):
    """c is (y & (W-1)) with y the count slot -> problems"""
    e, _ = unwrap(c)
    if e.k != 'bin' or e.x != '&':
        return ['shift count %r is not masked to the operand width' % (c,)]
    for y, m in ((e.a[0], e.a[1]), (e.a[1], e.a[0])):
        mv = const_value(m)
        if mv is None:
            continue
        probs = []
        if mv != W - 1:
            probs.append('shift count is masked with %d, specification requires modulo %d (mask %d)' % (mv, W, W - 1))
        v = iabs(y)
        if v[0] != 'slice' or v[1] != slot or v[2] < 6:
            probs.append('shift count is taken from %r, expected the top operand %s' % (y, slot))
        return probs
    return ['shift count %r has no constant mask' % (c,)]


def descr_shift(row, rhs, ops):
    W = W_OF[row['sem']['type']]
    sem = row['sem']
    e, _ = unwrap(rhs)
    if e.k != 'bin' or e.x not in ('<<', '>>'):
        raise AnalysisBroken('%s: expected a shift, found %r' % (row['name'], rhs))
    probs = []
    want = '<<' if sem['dir'] == 'l' else '>>'
    if e.x != want:
        probs.append('shift direction is %s, specification requires %s' % (e.x, want))
    ti = tinfo(e.ty)
    sign = 's' if sem['sign'] == 's' else 'u'
    if not full_slot(e.a[0], ops[0], W, sign if want == '>>' else None):
        probs.append('shifted value is %r; expected the %s interpretation of all %d bits of %s'
                     % (e.a[0], _sn(sign), W, ops[0]))
    if ti[0] != 'int' or ti[1] != W:
        probs.append('shift is performed in %s, expected a %d-bit type' % (e.ty, W))
    elif want == '<<' and ti[2]:
        probs.append('left shift performed in a signed type (%s)' % e.ty)
    elif want == '>>' and ti[2] != (sign == 's'):
        probs.append('right shift performed in %s type %s, specification requires %s shift'
                     % (_sn('s' if ti[2] else 'u'), e.ty, 'arithmetic' if sign == 's' else 'logical'))
    probs += _mask_count(e.a[1], ops[1], W)
    return probs


def linear(e, slot, W):
    """(a, b) with e == a*slot + b (mod W), or None"""
    e0, _ = unwrap(e)
    c = const_value(e0)
    if c is not None:
        return (0, c % W)
    if e0.k == 'var':
        return (1, 0) if e0.x == slot else None
    if e0.k == 'bin' and e0.x in ('+', '-'):
        l, r = linear(e0.a[0], slot, W), linear(e0.a[1], slot, W)
        if l is None or r is None:
            return None
        if e0.x == '+':
            return ((l[0] + r[0]) % W, (l[1] + r[1]) % W)
        return ((l[0] - r[0]) % W, (l[1] - r[1]) % W)
    if e0.k == 'un' and e0.x == '-':
        l = linear(e0.a[0], slot, W)
        return None if l is None else ((-l[0]) % W, (-l[1]) % W)
    if e0.k == 'bin' and e0.x == '&':
        for y, m in ((e0.a[0], e0.a[1]), (e0.a[1], e0.a[0])):
            mv = const_value(m)
            if mv is not None and mv == W - 1:
                return linear(y, slot, W)
        return None
    return None


def _masked(c, W):
    e, _ = unwrap(c)
    if e.k == 'bin' and e.x == '&':
        for m in e.a:
            mv = const_value(m)
            if mv is not None and 0 <= mv <= W - 1:
                return True
    return False


def descr_rot(row, rhs, ops):
    W = W_OF[row['sem']['type']]
    e, _ = unwrap(rhs)
    if e.k != 'bin' or e.x != '|' or e.a[0].k != 'bin' or e.a[1].k != 'bin':
        raise AnalysisBroken('%s: expected (x << a) | (x >> b), found %r' % (row['name'], rhs))
    parts = {}
    for s in e.a:
        s0, _ = unwrap(s)
        if s0.k != 'bin' or s0.x not in ('<<', '>>') or s0.x in parts:
            raise AnalysisBroken('%s: expected two opposite shifts, found %r' % (row['name'], rhs))
        parts[s0.x] = s0
    probs = []
    for op, s in parts.items():
        ti = tinfo(s.ty)
        if not full_slot(s.a[0], ops[0], W, 'u') or ti[0] != 'int' or ti[1] != W or ti[2]:
            probs.append('%s operates on %r in type %s; expected the unsigned %d-bit value of %s'
                         % (op, s.a[0], s.ty, W, ops[0]))
        if not _masked(s.a[1], W):
            probs.append('count of %s (%r) is not reduced modulo %d' % (op, s.a[1], W))
    for op, s in parts.items():
        for x in walk_e(s.a[1]):
            if x.k == 'bin' and x.x == '&':
                for m in x.a:
                    mv = const_value(m)
                    if mv is not None and mv != W - 1:
                        probs.append('count of %s is reduced with mask %d, a %d-bit rotation needs mask %d' % (op, mv, W, W - 1))
    if probs:
        return probs
    l = linear(parts['<<'].a[1], ops[1], W)
    r = linear(parts['>>'].a[1], ops[1], W)
    if l is None or r is None:
        raise AnalysisBroken('%s: shift counts %r / %r are not affine in %s' % (row['name'], parts['<<'].a[1], parts['>>'].a[1], ops[1]))
    want_l, want_r = ((1, 0), (W - 1, 0)) if row['sem']['dir'] == 'l' else ((W - 1, 0), (1, 0))
    if l != want_l or r != want_r:
        probs.append('rotation counts are <<(%d*y+%d) | >>(%d*y+%d) (mod %d); specification requires <<(%d*y) | >>(%d*y)'
                     % (l[0], l[1], r[0], r[1], W, want_l[0], want_r[0]))
    return probs


def descr_divrem(row, rhs, ops):
    W = W_OF[row['sem']['type']]
    sg = row['sem']['sign']
    is_div = row['sem']['cls'] == 'div'
    arms, els = cond_chain(rhs)
    core, _ = unwrap(els)
    if core.k != 'bin' or core.x not in ('/', '%'):
        raise AnalysisBroken('%s: expected a guarded / or %%, found %r' % (row['name'], rhs))
    probs = []
    want = '/' if is_div else '%'
    if core.x != want:
        probs.append('operator is %s, specification requires %s' % (core.x, want))
    ti = tinfo(core.ty)
    if not full_slot(core.a[0], ops[0], W, sg) or not full_slot(core.a[1], ops[1], W, sg):
        probs.append('operands are %r and %r; expected the %s interpretations of all %d bits of %s and %s'
                     % (core.a[0], core.a[1], _sn(sg), W, ops[0], ops[1]))
    if ti[0] != 'int' or ti[1] < W or ti[2] != (sg == 's'):
        probs.append('performed in type %s, expected a %s type of %d bits' % (core.ty, _sn(sg), W))
    seen_zero = False
    seen_ovf = False
    for g, res in arms:
        kind = _guard_kind(g, ops, W)
        tr = trap_of(res)
        if kind == 'zero':
            seen_zero = True
            if tr != TRAP_DIVZERO:
                probs.append('a zero divisor is reported as %s, specification requires a divide-by-zero trap (%s)'
                             % (tr if tr else 'value %r' % (res,), TRAP_DIVZERO))
        elif kind == 'ovf':
            seen_ovf = True
            if sg != 's':
                probs.append('unsigned operation has a MIN/-1 special case')
            elif is_div:
                if tr != TRAP_OVERFLOW:
                    probs.append('MIN / -1 yields %s, specification requires an integer-overflow trap (%s)'
                                 % (tr if tr else 'value %r' % (res,), TRAP_OVERFLOW))
            else:
                if tr is not None or const_value(unwrap(res)[0]) != 0:
                    probs.append('MIN %% -1 yields %r, specification requires 0 without trapping' % (res,))
        elif isinstance(kind, tuple) and kind[0] == 'ovf-wrong':
            seen_ovf = True
            probs.append('overflow guard tests %s; specification: dividend == %d and divisor == -1 at %d bits'
                         % (', '.join('%s%d(%s) == %d' % (m[0], m[1], m[2], c) for m, c in sorted(kind[1].items())),
                            -(1 << (W - 1)), W))
        else:
            raise AnalysisBroken('%s: unrecognised guard %r' % (row['name'], g))
    if not seen_zero:
        probs.append('no zero-divisor guard dominates the division')
    if sg == 's' and not seen_ovf:
        probs.append('no MIN/-1 guard dominates the signed %s (undefined behaviour in C, trap/0 in the specification)'
                     % ('division' if is_div else 'remainder'))
    return probs


def _guard_kind(g, ops, W):
    g0, _ = unwrap(g)
    if g0.k == 'bin' and g0.x == '==':
        for x, c in ((g0.a[0], g0.a[1]), (g0.a[1], g0.a[0])):
            cv = const_value(c)
            if cv == 0 and full_slot(x, ops[1], W):
                return 'zero'
    if g0.k == 'bin' and g0.x == '&&':
        l, _ = unwrap(g0.a[0])
        r, _ = unwrap(g0.a[1])
        a = _eq_const(l)
        b = _eq_const(r)
        if a and b:
            d = dict([a, b])
            xm = ('s', W, ops[0])
            ym = ('s', W, ops[1])
            if d.get(xm) == -(1 << (W - 1)) and d.get(ym) == -1:
                return 'ovf'
            slots = {m[2] for m in d}
            if slots == {ops[0], ops[1]}:
                return ('ovf-wrong', d)
    return None


def _eq_const(e):
    while e.k == 'cast' and e.x == 'IntegralToBoolean':
        e = e.a[0]
    if e.k == 'bin' and e.x == '==':
        for x, c in ((e.a[0], e.a[1]), (e.a[1], e.a[0])):
            cv = const_value(c)
            m = math_value(iabs(x))
            if cv is not None and m is not None:
                return (m, cv)
    return None


BITCOUNT_BUILTINS = {
    'clz': {'__builtin_clz': 'unsigned int', '__builtin_clzl': 'unsigned long', '__builtin_clzll': 'unsigned long long'},
    'ctz': {'__builtin_ctz': 'unsigned int', '__builtin_ctzl': 'unsigned long', '__builtin_ctzll': 'unsigned long long'},
    'popcnt': {'__builtin_popcount': 'unsigned int', '__builtin_popcountl': 'unsigned long',
               '__builtin_popcountll': 'unsigned long long'},
}


def descr_bitcount(row, rhs, ops):
    """builtin configuration only; returns (problems, decided?)"""
    cls = row['sem']['cls']
    W = W_OF[row['sem']['type']]
    arms, els = cond_chain(rhs)
    core, _ = unwrap(els)
    probs = []
    call = None
    zero_const = None
    if len(arms) == 1:
        c, then = arms[0]
        t0, _ = unwrap(then)
        e0, _ = unwrap(els)
        c0 = c
        while c0.k == 'cast' and c0.x == 'IntegralToBoolean':
            c0 = c0.a[0]
        negated = False
        if c0.k == 'bin' and c0.x in ('!=', '==') and const_value(c0.a[1]) == 0:
            negated = c0.x == '=='
            c0 = c0.a[0]
        if not full_slot(c0, ops[0], W):
            probs.append('zero test is on %r, expected all %d bits of %s' % (c0, W, ops[0]))
        nz, z = (e0, t0) if negated else (t0, e0)
        call = nz
        zero_const = const_value(z)
    elif not arms:
        call = core
    else:
        raise AnalysisBroken('%s: unrecognised shape %r' % (row['name'], rhs))
    if call.k != 'call':
        raise AnalysisBroken('%s: expected a call, found %r' % (row['name'], call))
    fam = BITCOUNT_BUILTINS[cls]
    if call.x not in fam:
        other = [k for k, v in BITCOUNT_BUILTINS.items() if call.x in v]
        if other:
            probs.append('calls %s (a %s builtin), specification requires %s' % (call.x, other[0], cls))
            return probs, True
        return probs, False          # fallback implementation: arithmetic not decided statically
    pw = tinfo(fam[call.x])[1]
    if pw != W:
        probs.append('%s counts in a %d-bit word, the operand has %d bits' % (call.x, pw, W))
    if not full_slot(call.a[0], ops[0], min(W, pw)) and not full_slot(call.a[0], ops[0], W):
        probs.append('argument is %r, expected all %d bits of %s' % (call.a[0], W, ops[0]))
    if cls in ('clz', 'ctz'):
        if zero_const is None:
            probs.append('%s(0) is undefined for the builtin and no zero guard yields %d' % (cls, W))
        elif zero_const != W:
            probs.append('%s of zero yields %d, specification requires %d' % (cls, zero_const, W))
    return probs, True


def descr_castchain(row, rhs, ops, Wres):
    """wrap / extend: the value finally stored (rhs already includes the conversion to the slot type)"""
    sem = row['sem']
    if sem['cls'] == 'wrap':
        want = ('slice', ops[0], 32, 'z', 32, False)
    else:
        fb = sem['from_bits']
        ext = 's' if sem['sign'] == 's' else 'z'
        want = ('slice', ops[0], fb, ext, Wres, False)
    v = iabs(rhs)
    if v[0] != 'slice':
        raise AnalysisBroken('%s: not a cast chain: %r (%s)' % (row['name'], rhs, v[1] if len(v) > 1 else ''))
    # canonical form: zero-extension of k == W bits equals the plain value
    def canon(s):
        _, slot, k, ext, W, S = s
        if k >= W:
            return (slot, W, 'z', W)
        return (slot, k, ext, W)
    if canon(v) != canon(want):
        return ['stores %s-extension of the low %d bits of %s in %d bits; specification requires %s-extension of the '
                'low %d bits in %d bits' % ('sign' if v[3] == 's' else 'zero', v[2], v[1], v[4],
                                            'sign' if want[3] == 's' else 'zero', want[2], want[4])]
    return []
