"""Summaries of the runtime functions of w2c2_base.h (and futex.c) by partial evaluation.

The function is interpreted with symbolic parameters; accesses to linear memory, byte reversals, atomic
builtins, libc copies and mutex operations are leaf models that append to an ordered event trace.  The
summary of a path is (decisions, events, return value)."""
from . import astdb, pe
from .pe import Sym, Ptr, unk, is_sym, PEError

HEADER_CONFIGS = {
    'le': ['-std=gnu89', '-DWASM_THREADS_PTHREADS'],
    'le-nothreads': ['-std=gnu89'],
    'be': ['-std=gnu89', '-DWASM_THREADS_PTHREADS', '-DWASM_ENDIAN=WASM_BIG_ENDIAN'],
    'be-fallback': ['-std=gnu89', '-DWASM_THREADS_PTHREADS', '-DWASM_ENDIAN=WASM_BIG_ENDIAN',
                    '-U__GNUC__', '-U__clang__', '-D__inline__=inline', '-D__builtin_va_list=void*',
                    '-DWASM_ATOMICS_GCC'],
}

_HDR = {}


def header(config='le'):
    if config not in _HDR:
        _HDR[config] = astdb.header_tu('w2c2/w2c2_base.h', HEADER_CONFIGS[config], config=config)
    return _HDR[config]


class Traced(dict):
    """record whose field reads/writes are logged into the current path's events"""

    def __init__(self, interp, name, fields):
        dict.__init__(self, fields)
        self._interp = interp
        self._name = name

    def __getitem__(self, k):
        self._interp.event('read', (self._name, k))
        return dict.__getitem__(self, k)

    def __setitem__(self, k, v):
        self._interp.event('write', (self._name, k, pe._hashable(v)))
        dict.__setitem__(self, k, v)


def _h(v):
    return pe._hashable(v)


def _ev(name):
    def f(interp, args, node):
        interp.event(name, tuple(_h(a) for a in args), node)
        return None
    return f


def _memcpy(name):
    def f(interp, args, node):
        dst, src, n = args[0], args[1], args[2]
        srcval = src
        if isinstance(src, Ptr):
            try:
                srcval = ('val', interp.load(src.c, src.k))
            except PEError:
                pass
        interp.event(name, (_h(dst), _h(srcval), _h(n)), node)
        if isinstance(dst, Ptr) and not isinstance(dst.c, list):
            old = interp.load(dst.c, dst.k)
            ctype = old.ctype if is_sym(old) else ''
            interp.store(dst.c, dst.k, Sym('bytes', (_h(srcval[1] if isinstance(srcval, tuple) else srcval), _h(n)), ctype))
        return dst
    return f


def _bswap(width):
    def f(interp, args, node):
        interp.event('bswap', (width, _h(args[0])), node)
        return Sym('bswap%d' % width, (_h(args[0]),), {16: 'unsigned short', 32: 'unsigned int', 64: 'unsigned long long'}[width])
    return f


def _atomic(interp, name, args, node):
    from . import ctyperules as ct
    pw = None
    ks = astdb.kids(node)
    if ks:
        pt = interp.cur_tu.desugar(astdb.qtype(ks[0])) if interp.cur_tu else astdb.qtype(ks[0])
        ti = ct.tinfo(pt.rstrip().rstrip('*').strip()) if pt.rstrip().endswith('*') else ('other',)
        if ti[0] == 'int':
            pw = ti[1]
    interp.event('atomic', (name,) + tuple(_h(a) for a in args) + (pw,), node)
    if name == '__atomic_compare_exchange_n':
        exp = args[2]
        if isinstance(exp, Ptr):
            old = interp.load(exp.c, exp.k)
            interp.store(exp.c, exp.k, Sym('observed', (_h(args[0]),), old.ctype if is_sym(old) else astdb.qtype(node)))
        return Sym('cas-ok', (_h(args[0]),))
    if name == '__atomic_store_n' or name == '__atomic_thread_fence':
        return None
    return Sym('atomic-old', (name, _h(args[0])), astdb.qtype(node))


def runtime_leafs():
    L = {
        'memcpy': _memcpy('memcpy'), '__builtin_memcpy': _memcpy('memcpy'),
        'memmove': _memcpy('memmove'), '__builtin_memmove': _memcpy('memmove'),
        'memset': _ev('memset'), '__builtin_memset': _ev('memset'),
        '__builtin_bswap16': _bswap(16), '__builtin_bswap32': _bswap(32), '__builtin_bswap64': _bswap(64),
        '@atomic': _atomic,
        'pthread_mutex_lock': _ev('lock'), 'pthread_mutex_unlock': _ev('unlock'),
        'pthread_cond_wait': _ev('cond_wait'), 'pthread_cond_signal': _ev('cond_signal'),
        'abort': pe.leaf_abort('abort'),
        'free': _ev('free'),
        '__assert_fail': pe.leaf_abort('assert'),
    }

    def realloc(interp, args, node):
        interp.event('realloc', tuple(_h(a) for a in args), node)
        return unk('realloc-result')

    def calloc(interp, args, node):
        interp.event('calloc', tuple(_h(a) for a in args), node)
        return unk('calloc-result')
    def malloc(interp, args, node):
        # not zero-initialised: a separate event, so that rules about zero-filled storage can tell the two apart
        interp.event('malloc', tuple(_h(a) for a in args), node)
        return unk('calloc-result')
    L['realloc'] = realloc
    L['calloc'] = calloc
    L['malloc'] = malloc
    return L


def memory_record(interp, shared=None):
    f = {'data': unk('data', 'unsigned char *'), 'size': unk('size', 'unsigned int'),
         'pages': unk('pages', 'unsigned int'), 'maxPages': unk('maxPages', 'unsigned int'),
         'shared': unk('shared') if shared is None else int(shared),
         'futex': unk('futex'), 'futexFree': unk('futexFree'), 'mutex': {'_opaque': 1}}
    return Traced(interp, 'mem', f)


def summarize(tu, fname, make_args, extra_leafs=None, max_paths=256):
    """PE of tu's function fname. make_args(interp) -> (args, state). Returns list of pe.Path."""
    leafs = runtime_leafs()
    if extra_leafs:
        leafs.update(extra_leafs)
    it = pe.Interp([tu], leafs, max_paths=max_paths)
    it.cur_tu = tu

    def setup():
        args, state = make_args(it)
        return (fname, args, state)
    return it.explore(setup)


def sym_slice(v):
    """bit-slice abstraction (ctyperules domain) of a Sym cast chain over a typed base Sym"""
    from . import ctyperules as ct
    if not is_sym(v):
        return ('top', 'not symbolic')
    if v.op == 'cast':
        ti = ct.tinfo(v.ctype)
        if ti[0] != 'int':
            return ('top', 'non-integer cast to %s' % v.ctype)
        return ct.cast_abs(sym_slice(v.args[0]), ti[1], ti[2])
    ti = ct.tinfo(v.ctype) if v.ctype else ('other',)
    if ti[0] == 'int':
        return ('slice', v, ti[1], 'z', ti[1], ti[2])
    return ('top', 'untyped base %r' % (v,))
