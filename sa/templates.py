"""Engine TT part 1: per-opcode statement templates (via PE) and the typed harness.

extract(): runs wasmCWriteFunctionCode over a scripted stream [opcode, immediates, end] with a concrete
operand type stack and returns, per PE path, the emitted text, the stack effect, the slot declarations and
the decoder log.  Harness: turns template texts into real C functions against the *current* w2c2_base.h
and returns clang's typed AST of each.
"""
import re

from . import astdb, pe, emit, oracle
from .astdb import AnalysisBroken
from .pe import Sym, Ptr, unk, is_sym

END = 0x0B
OFFSET_MAGIC = 74565      # 0x12345: rendered in place of a symbolic memarg offset
ALIGN_MAGIC = 43981      # 0xABCD: rendered in place of a symbolic memarg alignment hint (which no generated expression may contain)
IMM_MAGIC = {'offset': OFFSET_MAGIC, 'align': ALIGN_MAGIC}


def dispatch_setup(it, tokens, stack, pretty=0, multiple=0, ignore=0, labels=None, module=None,
                   function=None, debug=0):
    """setup() for one run of wasmCWriteFunctionCode over a scripted instruction stream"""
    def setup():
        st = {'stream': emit.Stream(tokens)}
        sb = {'string': 0, 'length': 0, 'capacity': 0}
        sbcell = {'v': sb}
        emit._sb_init(it, [Ptr(sbcell, 'v')], None)
        ts = {'v': emit.type_stack(stack)}
        sd = {'v': emit.empty_decls()}
        ls = {'v': emit.label_stack(labels if labels is not None else [(0, 0, None)])}
        mod = {'v': module(it) if module else it.zero_init('struct WasmModule')}
        code = {'v': {'data': unk('code'), 'length': unk('codelen')}}
        w = {'builder': Ptr(sbcell, 'v'), 'typeStack': Ptr(ts, 'v'), 'stackDeclarations': Ptr(sd, 'v'),
             'labelStack': Ptr(ls, 'v'), 'module': Ptr(mod, 'v'), 'moduleName': 'mod',
             'function': function(it) if function else it.zero_init('struct WasmFunction'),
             'code': Ptr(code, 'v'), 'codeStart': 0, 'indent': 0, 'ignore': ignore, 'pretty': pretty,
             'debug': debug, 'multipleModules': multiple, 'debugLines': 0}
        wc = {'v': w}
        opc = {'v': 0}
        st.update(sb=sb, ts=ts['v'], sd=sd['v'], ls=ls['v'], w=w, opcode=opc, module=mod['v'])
        return ('wasmCWriteFunctionCode', [Ptr(wc, 'v'), Ptr(opc, 'v')], st)
    return setup


def tokens_for(row, imm=None, end=True):
    """scripted stream for one instruction. imm: optional {position or name: value}"""
    imm = imm or {}
    enc = row['enc']
    toks = [('byte', enc[0])]
    if len(enc) > 1:
        toks.append(('u32', enc[1]))
    names = imm_names(row)
    for k, tag in enumerate(row['imm']):
        nm = names[k]
        if tag == 'blocktype':
            toks.append(('i32', imm.get(nm, oracle.BLOCKTYPE_VOID)))
        elif tag == 'vec_u32':
            vec = imm.get(nm, [])
            toks.append(('u32', len(vec)))
            for v in vec:
                toks.append(('u32', v))
        else:
            toks.append((tag, imm.get(nm, unk(nm))))
    if end:
        toks.append(('byte', END))
    return toks


def imm_names(row):
    c = row['sem'].get('cls', '')
    if row['imm'] == ['u32', 'u32'] and (c in ('load', 'store') or c.startswith('atomic.')):
        return ['align', 'offset']
    if c == 'call_indirect':
        return ['typeidx', 'tableidx']
    if c == 'memory.init':
        return ['dataidx', 'memidx']
    if c == 'memory.copy':
        return ['memidx1', 'memidx2']
    if c == 'br_table':
        return ['labels', 'default']
    return ['imm%d' % k for k in range(len(row['imm']))]


class Template:
    def __init__(self, row, path, pretty, multiple, stack_before):
        st = path.state
        self.row = row
        self.path = path
        self.pretty = pretty
        self.multiple = multiple
        self.ok = (path.ret == 1) and path.aborted is None
        self.parts = list(st['sb']['_text'].parts)
        self.stack_before = list(stack_before)
        n = st['ts']['length']
        self.stack_after = [emit.VT_NAMES[x] if isinstance(x, int) and 0 <= x < 4 else x
                            for x in st['ts']['valueTypes'].c[:n]] if isinstance(n, int) else None
        self.decls = emit.decl_list(st['sd'])
        self.log = list(st['stream'].log)
        self.ignore_after = st['w']['ignore']
        self.cond = path.cond_text()
        self.events = list(path.events)

    def text(self, subst=None):
        def f(p):
            if subst is not None:
                r = subst(p)
                if r is not None:
                    return r
            if isinstance(p, tuple) and p[0] in ('U32', 'I32', 'U64', 'I64') and is_sym(p[1]):
                nm = p[1].args[0] if p[1].op == 'unk' else None
                if nm in IMM_MAGIC:
                    return str(IMM_MAGIC[nm])
            return '/*?%r*/' % (p,)
        out = []
        for p in self.parts:
            out.append(p if isinstance(p, str) else f(p))
        return ''.join(out)

    def has_unknown_parts(self):
        return '/*?' in self.text()


def extract(it, row, stack, pretty=0, multiple=0, ignore=0, imm=None, labels=None, module=None,
            function=None, end=True):
    toks = tokens_for(row, imm, end)
    paths = it.explore(dispatch_setup(it, toks, stack, pretty, multiple, ignore, labels, module, function))
    return [Template(row, p, pretty, multiple, stack) for p in paths]


# ---- harness -----------------------------------------------------------------------------------

SLOT_RE = re.compile(r'\bs([ijfd])(\d+)\b')
LOCAL_RE = re.compile(r'\bl(\d+)\b')
LABEL_USE_RE = re.compile(r'\bgoto\s+(L\d+)\s*;')
LABEL_DEF_RE = re.compile(r'\b(L\d+)\s*:')
LETTER_C = {'i': 'U32', 'j': 'U64', 'f': 'F32', 'd': 'F64'}

HARNESS_PRELUDE = '''#include "%(base)s"
typedef struct modInstance {
  wasmModuleInstance common;
  wasmMemory* m0; wasmMemory* m1; wasmMemory* envX5F_memory;
  wasmTable t0; wasmTable t1; wasmTable* envX5F_table;
  U32 g0; U64 g1; F32 g2; F64 g3; U32* env__g;
} modInstance;
extern const U8 d0[]; extern const U8 d1[]; extern const U8 d7[];
'''


class Harness:
    def __init__(self, base_flags=(), extra_decls=''):
        self.funcs = []     # (name, text)
        self.base_flags = list(base_flags)
        self.extra_decls = extra_decls
        self.tu = None

    def add(self, name, body, local_types=None, ret='void', params=''):
        """body: statement text of a template.  All slot/local identifiers become parameters."""
        slots = sorted(set(SLOT_RE.findall(body)), key=lambda x: (int(x[1]), x[0]))
        locs = sorted(set(LOCAL_RE.findall(body)), key=int)
        ps = ['modInstance* i']
        for letter, idx in slots:
            ps.append('%s s%s%s' % (LETTER_C[letter], letter, idx))
        for idx in locs:
            ty = (local_types or {}).get(int(idx), 'U32')
            ps.append('%s l%s' % (ty, idx))
        if params:
            ps.append(params)
        used = set(LABEL_USE_RE.findall(body))
        defined = set(LABEL_DEF_RE.findall(body))
        tail = ''.join('%s:;\n' % l for l in sorted(used - defined))
        text = '%s %s(%s) {\n%s%s}\n' % (ret, name, ', '.join(ps), body, tail)
        self.funcs.append((name, text))

    def source(self):
        return HARNESS_PRELUDE % dict(base=astdb.src('w2c2/w2c2_base.h')) + self.extra_decls + \
            '\n'.join(t for _, t in self.funcs)

    def parse(self, config='default', extra=()):
        flags = ['-std=gnu89', '-I' + astdb.src('w2c2')] + self.base_flags + list(extra)
        self.tu = astdb.dump_ast('<harness:%s>' % config, flags=flags, text=self.source(), config=config)
        return self.tu

    def fn(self, name):
        return self.tu.fn(name)
