"""Bit-exact evaluation of float / conversion templates and the WebAssembly reference semantics of the float instructions.

Values: integers are Python ints wrapped to their C type; floating values are carried as *bit patterns* ('F', width, bits) so that NaN
payloads, signalling NaNs and the sign of zero survive.  A conversion between floating formats quiets a signalling NaN (as the
analysed targets do), arithmetic on a NaN yields "some NaN" (the specification leaves the payload open), sign-bit operations are
bit operations.  Used by C02 as a second, shape-independent decision of every float row and as the refutation engine for shapes
the descriptors do not recognise.
"""
import math
import struct
from fractions import Fraction

from . import ctyperules as ct
from .ctyperules import tinfo, EvalTrap, EvalUB, EvalUnknown
from .astdb import AnalysisBroken

TRAP_OVERFLOW = 'trapIntOverflow'
TRAP_INVALID = 'trapInvalidConversion'

FMT = {32: (8, 23), 64: (11, 52)}


def F(W, bits):
    return ('F', W, bits & ((1 << W) - 1))


def is_f(v):
    return isinstance(v, tuple) and len(v) == 3 and v[0] == 'F'


def to_py(v):
    _, W, bits = v
    return struct.unpack('<f' if W == 32 else '<d', bits.to_bytes(W // 8, 'little'))[0]


def from_py(x, W):
    """nearest-even rounding of a Python float (binary64) to the format; NaN becomes the canonical quiet NaN"""
    if x != x:
        return F(W, canonical_nan(W))
    if W == 64:
        return F(64, int.from_bytes(struct.pack('<d', x), 'little'))
    try:
        return F(32, int.from_bytes(struct.pack('<f', x), 'little'))
    except OverflowError:
        return F(32, 0x7F800000 | (0x80000000 if math.copysign(1.0, x) < 0 else 0))


def canonical_nan(W):
    eb, fb = FMT[W]
    return (((1 << eb) - 1) << fb) | (1 << (fb - 1))


def is_nan(v):
    _, W, bits = v
    eb, fb = FMT[W]
    return (bits >> fb) & ((1 << eb) - 1) == (1 << eb) - 1 and bits & ((1 << fb) - 1) != 0


def sign(v):
    return v[2] >> (v[1] - 1) & 1


def convert_format(v, W2):
    """IEEE conversion between binary formats, signalling NaNs quieted, payload kept in the high fraction bits"""
    _, W, bits = v
    if W == W2:
        return v
    if is_nan(v):
        eb, fb = FMT[W]
        eb2, fb2 = FMT[W2]
        frac = bits & ((1 << fb) - 1)
        frac2 = frac << (fb2 - fb) if fb2 > fb else frac >> (fb - fb2)
        frac2 |= 1 << (fb2 - 1)
        return F(W2, (sign(v) << (W2 - 1)) | (((1 << eb2) - 1) << fb2) | frac2)
    return from_py(to_py(v), W2)


def exact(v):
    """Fraction value of a finite float"""
    return Fraction(to_py(v))


def round_fraction(fr, W):
    """correctly rounded (nearest-even) float of format W for an exact rational"""
    if W == 32:
        # overflow threshold of binary32: values at or beyond max + half an ulp round to infinity
        lim = Fraction(2) ** 128 - Fraction(2) ** 103
        if abs(fr) >= lim:
            return F(32, 0x7F800000 | (0x80000000 if fr < 0 else 0))
        return from_py(ct._frac_to_f32(fr), 32)
    try:
        return from_py(float(fr), 64)           # Fraction.__float__ is correctly rounded
    except OverflowError:
        return F(64, 0x7FF0000000000000 | ((1 << 63) if fr < 0 else 0))


def arith(op, a, b, W):
    """IEEE + - * / in format W on operands of that format"""
    if is_nan(a) or is_nan(b):
        return 'nan'
    x, y = to_py(a), to_py(b)
    inf = float('inf')
    if op == '/':
        if y == 0:
            if x == 0 or x != x:
                return 'nan'
            s = sign(a) ^ sign(b)
            return F(W, (s << (W - 1)) | (((1 << FMT[W][0]) - 1) << FMT[W][1]))
        if abs(x) == inf and abs(y) == inf:
            return 'nan'
        if abs(x) == inf or abs(y) == inf:
            return from_py(x / y, W)
        r = round_fraction(Fraction(x) / Fraction(y), W)
        if to_py(r) == 0 and r[2] == 0 and (sign(a) ^ sign(b)):
            r = F(W, 1 << (W - 1))
        return r
    if abs(x) == inf or abs(y) == inf:
        try:
            r = {'+': x + y, '-': x - y, '*': x * y}[op]
        except Exception:
            return 'nan'
        return 'nan' if r != r else from_py(r, W)
    fr = {'+': Fraction(x) + Fraction(y), '-': Fraction(x) - Fraction(y), '*': Fraction(x) * Fraction(y)}[op]
    r = round_fraction(fr, W)
    if fr == 0:
        # sign of an exact zero result
        if op == '*':
            s = sign(a) ^ sign(b)
        elif op == '+':
            s = 1 if (sign(a) and sign(b)) else 0
            if x != 0 or y != 0:
                s = 0
        else:
            s = 1 if (sign(a) and not sign(b)) else 0
            if x != 0 or y != 0:
                s = 0
        r = F(W, s << (W - 1))
    return r


def _rint(x, mode):
    if x != x or abs(x) == float('inf') or x == 0:
        return x
    if mode == 'ceil':
        r = float(math.ceil(x))
    elif mode == 'floor':
        r = float(math.floor(x))
    elif mode == 'trunc':
        r = float(math.trunc(x))
    else:
        r = float(round(x))          # Python rounds half to even
    if r == 0:
        r = math.copysign(0.0, x)
    return r


LIBM = {}
for _n, _m in (('ceil', 'ceil'), ('floor', 'floor'), ('trunc', 'trunc'), ('nearbyint', 'nearest'), ('rint', 'nearest')):
    LIBM[_n] = (_m, 64)
    LIBM[_n + 'f'] = (_m, 32)
    LIBM['__builtin_' + _n] = (_m, 64)
    LIBM['__builtin_' + _n + 'f'] = (_m, 32)
for _n in ('sqrt', 'fabs', 'copysign', 'round'):
    LIBM[_n] = (_n, 64)
    LIBM[_n + 'f'] = (_n, 32)
    LIBM['__builtin_' + _n] = (_n, 64)
    LIBM['__builtin_' + _n + 'f'] = (_n, 32)


def _as_format(v, W):
    """argument conversion at a call boundary"""
    if is_f(v):
        return convert_format(v, W)
    if isinstance(v, int):
        return from_py(float(v), W)
    raise EvalUnknown('argument %r' % (v,))


def call_libm(name, args):
    kind, W = LIBM[name]
    a = [_as_format(x, W) for x in args]
    if kind == 'fabs':
        return F(W, a[0][2] & ~(1 << (W - 1)))
    if kind == 'copysign':
        return F(W, (a[0][2] & ~(1 << (W - 1))) | (a[1][2] & (1 << (W - 1))))
    if is_nan(a[0]):
        return 'nan:%d' % W
    x = to_py(a[0])
    if kind == 'sqrt':
        if x < 0:
            return 'nan:%d' % W
        if x == 0 or x == float('inf'):
            return a[0]
        # correctly rounded square root: refine the binary64 root against the exact value
        r = math.sqrt(x)
        if W == 32:
            cands = sorted({ct.round_to(r, 32), ct.next_up(ct.round_to(r, 32), 32), ct.next_down(ct.round_to(r, 32), 32)})
            fx = Fraction(x)
            best = min(cands, key=lambda c: (abs(Fraction(c) ** 2 - fx) if c > 0 else fx, ))
            # nearest in value, not in square: compare against midpoints
            best = cands[0]
            for c in cands:
                if c <= 0:
                    continue
                lo = (Fraction(ct.next_down(c, 32)) + Fraction(c)) / 2
                hi = (Fraction(c) + Fraction(ct.next_up(c, 32))) / 2
                if lo * lo <= fx <= hi * hi:
                    best = c
            return from_py(best, 32)
        return from_py(r, 64)
    if kind == 'round':
        r = math.floor(abs(x) + 0.5) if abs(x) < 2 ** 52 else abs(x)
        return from_py(math.copysign(r, x), W)
    return from_py(_rint(x, kind), W)


def feval(e, env):
    """value of the typed expression e; env maps slot names to bit patterns (ints) of their own width"""
    ti = tinfo(e.ty)
    k = e.k
    if k == 'var':
        if e.x not in env:
            raise EvalUnknown('variable %s' % e.x)
        if ti[0] == 'float':
            return F(ti[1], env[e.x])
        if ti[0] == 'int':
            return ct._wrap(env[e.x], ti)
        raise EvalUnknown('variable of type %s' % e.ty)
    if k == 'const':
        v = e.x
        if isinstance(v, tuple) and v[0] == 'enum':
            v = v[2]
        if isinstance(v, tuple) and v[0] == 'float':
            r = ct.feval(e)
            if r is None:
                raise EvalUnknown('float constant %r' % (e.x,))
            return round_fraction(r[0], ti[1] if ti[0] == 'float' else 64)
        if isinstance(v, int) and not isinstance(v, bool):
            return ct._wrap(v, ti) if ti[0] == 'int' else v
        raise EvalUnknown('constant %r' % (e.x,))
    if k == 'cast':
        if ti[0] == 'other' and e.ty.strip() == 'void':
            feval(e.a[0], env)
            return 0
        v = feval(e.a[0], env)
        if v == 'nanflag':
            return v
        if ti[0] == 'float':
            if isinstance(v, str):                  # some NaN
                return 'nan:%d' % ti[1]
            if is_f(v):
                return convert_format(v, ti[1]) if ti[1] in FMT else v
            if isinstance(v, int):
                return round_fraction(Fraction(v), ti[1])
            raise EvalUnknown('conversion of %r' % (v,))
        if ti[0] == 'int':
            if isinstance(v, str):
                raise EvalUB('conversion of a NaN to %s' % e.ty)
            if is_f(v):
                if is_nan(v):
                    raise EvalUB('conversion of a NaN to %s' % e.ty)
                x = to_py(v)
                if abs(x) == float('inf'):
                    raise EvalUB('conversion of an infinity to %s' % e.ty)
                t = int(x)
                if e.x in ('FloatingToBoolean',) or e.ty.strip() in ('_Bool', 'bool'):
                    return int(x != 0)
                lo, hi = (-(1 << (ti[1] - 1)), (1 << (ti[1] - 1)) - 1) if ti[2] else (0, (1 << ti[1]) - 1)
                if not lo <= t <= hi:
                    raise EvalUB('conversion of %r to %s is out of range' % (x, e.ty))
                return t
            if e.ty.strip() in ('_Bool', 'bool'):
                return int(v != 0)
            return ct._wrap(v, ti)
        raise EvalUnknown('cast to %s' % e.ty)
    if k == 'comma':
        feval(e.a[0], env)
        return feval(e.a[1], env)
    if k == 'cond':
        c = truth(feval(e.a[0], env))
        return feval(e.a[1] if c else e.a[2], env)
    if k == 'assign':
        return feval(e.a[1], env)
    if k == 'un':
        if e.x == '!':
            return 0 if truth(feval(e.a[0], env)) else 1
        v = feval(e.a[0], env)
        if e.x == '-':
            if isinstance(v, str):
                return v
            if is_f(v):
                return F(v[1], v[2] ^ (1 << (v[1] - 1)))
            r = -v
            if ti[0] == 'int' and ti[2] and r != ct._wrap(r, ti):
                raise EvalUB('signed negation overflows')
            return ct._wrap(r, ti)
        if e.x == '+':
            return v
        if e.x == '~' and isinstance(v, int):
            return ct._wrap(~v, ti)
        raise EvalUnknown('unary %s' % e.x)
    if k == 'bin':
        op = e.x
        if op == '&&':
            return 1 if truth(feval(e.a[0], env)) and truth(feval(e.a[1], env)) else 0
        if op == '||':
            return 1 if truth(feval(e.a[0], env)) or truth(feval(e.a[1], env)) else 0
        l, r = feval(e.a[0], env), feval(e.a[1], env)
        fl = is_f(l) or is_f(r) or isinstance(l, str) or isinstance(r, str)
        if op in ('==', '!=', '<', '>', '<=', '>='):
            if fl:
                if isinstance(l, str) or isinstance(r, str) or (is_f(l) and is_nan(l)) or (is_f(r) and is_nan(r)):
                    return int(op == '!=')
                x = to_py(l) if is_f(l) else l
                y = to_py(r) if is_f(r) else r
                if is_f(l) and is_f(r):
                    fx, fy = (exact(l) if abs(x) != float('inf') else x), (exact(r) if abs(y) != float('inf') else y)
                else:
                    fx, fy = (Fraction(x) if abs(x) != float('inf') else x), (Fraction(y) if abs(y) != float('inf') else y)
                return int({'==': fx == fy, '!=': fx != fy, '<': fx < fy, '>': fx > fy, '<=': fx <= fy, '>=': fx >= fy}[op])
            return int({'==': l == r, '!=': l != r, '<': l < r, '>': l > r, '<=': l <= r, '>=': l >= r}[op])
        if fl:
            if op not in ('+', '-', '*', '/') or ti[0] != 'float' or ti[1] not in FMT:
                raise EvalUnknown('float operator %s in %s' % (op, e.ty))
            W = ti[1]
            if isinstance(l, str) or isinstance(r, str):
                return 'nan:%d' % W
            a = convert_format(l, W) if is_f(l) else round_fraction(Fraction(l), W)
            b = convert_format(r, W) if is_f(r) else round_fraction(Fraction(r), W)
            res = arith(op, a, b, W)
            return 'nan:%d' % W if res == 'nan' else res
        return ct.ieval(ct.E('bin', e.ty, [ct.E('const', e.a[0].ty, (), None, l), ct.E('const', e.a[1].ty, (), None, r)], e.node, op), {})
    if k == 'call':
        if e.x == 'trap':
            arg = e.a[0]
            while arg.k == 'cast':
                arg = arg.a[0]
            raise EvalTrap(arg.x[1] if arg.k == 'const' and isinstance(arg.x, tuple) and arg.x[0] == 'enum' else '?')
        args = [feval(a, env) for a in e.a]
        if e.x in LIBM:
            if any(isinstance(a, str) for a in args):
                kind, W = LIBM[e.x]
                if kind in ('fabs', 'copysign'):
                    raise EvalUnknown('sign operation on an unspecified NaN')
                return 'nan:%d' % W
            return call_libm(e.x, args)
        import re
        m = re.fullmatch(r'([if])(32|64)_reinterpret_([if])(32|64)', e.x or '')
        if m and len(args) == 1:
            v = args[0]
            W = int(m.group(2))
            bits = v[2] if is_f(v) else (v & ((1 << W) - 1) if isinstance(v, int) else None)
            if bits is None:
                raise EvalUnknown('reinterpretation of %r' % (v,))
            return F(W, bits) if m.group(1) == 'f' else bits
        if e.x in ('__builtin_inff', '__builtin_inf', '__builtin_huge_valf', '__builtin_huge_val', '__builtin_infl') and not args:
            W_ = 32 if e.x.endswith('ff') or e.x.endswith('valf') else 64
            return F(W_, ((1 << FMT[W_][0]) - 1) << FMT[W_][1])
        if e.x in ('__builtin_nanf', '__builtin_nan') :
            return 'nan:%d' % (32 if e.x.endswith('nanf') else 64)
        if e.x in ('__builtin_signbit', '__builtin_signbitf', '__builtin_signbitl', 'signbit') and len(args) == 1:
            if isinstance(args[0], str):
                raise EvalUnknown('sign of an unspecified NaN')
            if is_f(args[0]):
                return sign(args[0])
            return int(args[0] < 0)
        qc = {'__builtin_isless': '<', '__builtin_islessequal': '<=', '__builtin_isgreater': '>', '__builtin_isgreaterequal': '>=',
              '__builtin_islessgreater': '<>', '__builtin_isunordered': '?'}
        if e.x in qc and len(args) == 2:
            l_, r_ = args
            nan_ = any(isinstance(v_, str) or (is_f(v_) and is_nan(v_)) for v_ in (l_, r_))
            if qc[e.x] == '?':
                return int(nan_)
            if nan_:
                return 0                # the quiet comparison macros are false for unordered operands
            x_ = exact(l_) if is_f(l_) and abs(to_py(l_)) != float('inf') else (to_py(l_) if is_f(l_) else l_)
            y_ = exact(r_) if is_f(r_) and abs(to_py(r_)) != float('inf') else (to_py(r_) if is_f(r_) else r_)
            return int({'<': x_ < y_, '<=': x_ <= y_, '>': x_ > y_, '>=': x_ >= y_, '<>': x_ < y_ or x_ > y_}[qc[e.x]])
        if e.x in ('__builtin_isnan', 'isnan', '__isnan', '__isnanf') and len(args) == 1:
            return int(isinstance(args[0], str) or (is_f(args[0]) and is_nan(args[0])))
        if e.x in ct._BITCOUNT:
            return ct.ieval(ct.E('call', e.ty, [ct.E('const', e.a[0].ty, (), None, args[0])], e.node, e.x), {})
        raise EvalUnknown('call of %s' % e.x)
    raise EvalUnknown('node %s' % k)


def truth(v):
    if isinstance(v, str):
        return True         # a NaN is non-zero
    if is_f(v):
        return is_nan(v) or to_py(v) != 0
    return v != 0


# ---- reference semantics -----------------------------------------------------------------------------------

def _W(t):
    return 32 if t.endswith('32') else 64


def reference(row, vals):
    """('value', bits) | ('nan', W) | ('trap', kind) for operand bit patterns vals"""
    sem = row['sem']
    cls = sem['cls']
    if cls == 'reinterpret':
        return ('value', vals[0])
    if cls in ('convert',):
        Ws, Wd = _W(sem['src']), _W(sem['dst'])
        v = vals[0] & ((1 << Ws) - 1)
        if sem['sign'] == 's' and v >> (Ws - 1):
            v -= 1 << Ws
        return ('value', round_fraction(Fraction(v), Wd)[2])
    if cls in ('promote', 'demote'):
        Ws, Wd = (32, 64) if cls == 'promote' else (64, 32)
        a = F(Ws, vals[0])
        if is_nan(a):
            return ('nan', Wd)
        return ('value', from_py(to_py(a), Wd)[2])
    if cls == 'trunc':
        Ws, Wd = _W(sem['src']), _W(sem['dst'])
        a = F(Ws, vals[0])
        signed = sem['sign'] == 's'
        lo, hi = (-(1 << (Wd - 1)), (1 << (Wd - 1)) - 1) if signed else (0, (1 << Wd) - 1)
        if is_nan(a):
            return ('value', 0) if sem.get('sat') else ('trap', TRAP_INVALID)
        x = to_py(a)
        if abs(x) == float('inf'):
            t = hi + 1 if x > 0 else lo - 1
        else:
            t = int(x)
        if t < lo or t > hi:
            if sem.get('sat'):
                return ('value', (lo if t < lo else hi) & ((1 << Wd) - 1))
            return ('trap', TRAP_OVERFLOW)
        return ('value', t & ((1 << Wd) - 1))
    W = _W(sem['type'])
    a = F(W, vals[0])
    b = F(W, vals[1]) if len(vals) > 1 else None
    if cls == 'fcmp':
        if is_nan(a) or is_nan(b):
            return ('value', int(sem['op'] == '!='))
        x, y = to_py(a), to_py(b)
        return ('value', int({'==': x == y, '!=': x != y, '<': x < y, '>': x > y, '<=': x <= y, '>=': x >= y}[sem['op']]))
    if cls == 'fabs':
        return ('value', vals[0] & ~(1 << (W - 1)) & ((1 << W) - 1))
    if cls == 'fneg':
        return ('value', (vals[0] ^ (1 << (W - 1))) & ((1 << W) - 1))
    if cls == 'fcopysign':
        return ('value', ((vals[0] & ~(1 << (W - 1))) | (vals[1] & (1 << (W - 1)))) & ((1 << W) - 1))
    if cls in ('fadd', 'fsub', 'fmul', 'fdiv'):
        r = arith({'fadd': '+', 'fsub': '-', 'fmul': '*', 'fdiv': '/'}[cls], a, b, W)
        return ('nan', W) if r == 'nan' else ('value', r[2])
    if cls in ('fmin', 'fmax'):
        if is_nan(a) or is_nan(b):
            return ('nan', W)
        x, y = to_py(a), to_py(b)
        if x == y:
            # zeros of different sign: min takes -0, max +0
            if cls == 'fmin':
                return ('value', a[2] if sign(a) else b[2])
            return ('value', b[2] if sign(a) else a[2])
        pick = (x < y) if cls == 'fmin' else (x > y)
        return ('value', a[2] if pick else b[2])
    if is_nan(a):
        return ('nan', W)
    x = to_py(a)
    if cls == 'fsqrt':
        r = call_libm('sqrtf' if W == 32 else 'sqrt', [a])
        return ('nan', W) if isinstance(r, str) else ('value', r[2])
    mode = {'fceil': 'ceil', 'ffloor': 'floor', 'ftrunc': 'trunc', 'fnearest': 'nearest'}.get(cls)
    if mode:
        return ('value', from_py(_rint(x, mode), W)[2])
    raise AnalysisBroken('no reference semantics for class %s' % cls)


def float_grid(W):
    eb, fb = FMT[W]
    top = 1 << (W - 1)
    expm = ((1 << eb) - 1) << fb
    vals = [0.0, 1.0, 1.5, 2.5, 0.5, 3.5, 4.5, 0.1, 2.0, 3.0, 1e10, 2147483648.0, 2147483647.0, 2147483520.0, 4294967296.0, 4294967295.0,
            9223372036854775808.0, 18446744073709551616.0, 9007199254740993.0, 16777217.0, 0.49999999999999994, 2147483648.5, 0.9999999]
    bits = set()
    for x in vals:
        b = from_py(x, W)[2]
        bits |= {b, b | top}
    for b in (expm, expm | top,                                     # infinities
              expm | (1 << (fb - 1)), expm | (1 << (fb - 1)) | top,   # canonical quiet NaNs
              expm | 1, expm | top | 1, expm | (1 << (fb - 2)) | 5,   # signalling NaNs
              expm | (1 << (fb - 1)) | 0x1234,
              1, top | 1, (1 << fb) - 1, 1 << fb, (1 << fb) | top,    # subnormals, smallest normal
              expm - 1, (expm - 1) | top):                            # largest finite
        bits.add(b & ((1 << W) - 1))
    if W == 64:
        # binary32 overflow and underflow thresholds seen from binary64 (demotion): FLT_MAX, the rounding midpoint 2^128 - 2^103 and
        # their neighbours; the smallest subnormal 2^-149, the tie 2^-150 and its neighbours
        for b in (0x47EFFFFFE0000000, 0x47EFFFFFE0000001, 0x47EFFFFFE8000000, 0x47EFFFFFEFFFFFFF, 0x47EFFFFFF0000000, 0x47EFFFFFF0000001,
                  0x47F0000000000000, 0x36A0000000000000, 0x3690000000000000, 0x3690000000000001, 0x368FFFFFFFFFFFFF, 0x36A8000000000000,
                  0x3810000000000000, 0x380FFFFFFFFFFFFF, 0x3FF0000010000000, 0x3FF0000010000001, 0x3FF0000030000000):
            bits |= {b, b | top}
    # neighbours of the integer conversion boundaries
    for x in (-2147483648.0, -2147483649.0, -9223372036854775808.0, -1.0, -0.9999999, -0.5):
        b = from_py(x, W)[2]
        bits |= {b, (b + 1) & ((1 << W) - 1), (b - 1) & ((1 << W) - 1)}
    return sorted(bits)


def int_grid(W):
    top = 1 << (W - 1)
    return sorted({x & ((1 << W) - 1) for x in (0, 1, 2, 3, top - 1, top, top + 1, (1 << W) - 1, (1 << W) - 2, 16777216, 16777217, 16777219, 0x7FFFFF80,
                                               0x7FFFFFBF, 0x7FFFFFC0, 0xFFFFFF7F, 0xFFFFFF80, 9007199254740993, 9007199254740992, 0x7FFFFFFFFFFFFC00,
                                               0x7FFFFFFFFFFFFDFF, 0x7FFFFFFFFFFFFE00, 0xFFFFFFFFFFFFF800, 0xFFFFFFFFFFFFFBFF, 0xFFFFFFFFFFFFFC00,
                                               0x8000000000000400, 0x0123456789ABCDEF)})


def refute_on_grid(row, rhs, ops, small=False):
    """first disagreement of the template expression with the specification on the grid, as text; None if all points agree"""
    sem = row['sem']
    grids = []
    for t in row['params']:
        W = _W(t)
        g = float_grid(W) if t[0] == 'f' else int_grid(W)
        grids.append(g)
    if len(grids) == 2 and small:
        grids = [g[::3] + g[-2:] for g in grids]
    pts = [(x,) for x in grids[0]] if len(grids) == 1 else [(x, y) for x in grids[0] for y in grids[1]]
    rt = row['results'][0]
    Wr = _W(rt)
    for vals in pts:
        env = dict(zip(ops, vals))
        want = reference(row, list(vals))
        try:
            v = feval(rhs, env)
            if isinstance(v, str):
                got = ('nan', Wr)
            elif is_f(v):
                if v[1] != Wr or rt[0] != 'f':
                    v = convert_format(v, Wr) if rt[0] == 'f' else v
                got = ('nan', Wr) if (is_nan(v) and want[0] == 'nan') else ('value', v[2])
            else:
                got = ('value', v & ((1 << Wr) - 1))
        except EvalTrap as t_:
            got = ('trap', t_.kind)
        except EvalUB as u:
            return 'for operands %s the emitted expression has undefined behaviour (%s); specification: %s' % (
                ', '.join('0x%X' % x for x in vals), u, show(want))
        except EvalUnknown as u:
            raise AnalysisBroken('%s: not evaluable (%s)' % (row['name'], u))
        if got != want:
            return 'for operands %s the emitted expression gives %s, the specification requires %s' % (
                ', '.join('0x%X' % x for x in vals), show(got), show(want))
    return None


def show(r):
    if r[0] == 'value':
        return '0x%X' % r[1]
    if r[0] == 'nan':
        return 'a NaN'
    return 'trap %s' % r[1]
