"""Oracle tables for WASI (witx of wasi_snapshot_preview1 and wasi_unstable = snapshot 0).
Sources: WASI/phases/snapshot/witx/{typenames,wasi_snapshot_preview1}.witx and phases/old/snapshot_0.

Core-wasm signature of every import after lowering (pointers/sizes/handles -> i32, u64 -> i64; a (string)
parameter lowers to pointer + length), struct layouts (offset, width in bits), errno numbering, whence.
"""

SIG = {  # parameters after `instance`; all results are errno (i32) except proc_exit (none)
    'args_get': ['i32', 'i32'], 'args_sizes_get': ['i32', 'i32'],
    'environ_get': ['i32', 'i32'], 'environ_sizes_get': ['i32', 'i32'],
    'clock_res_get': ['i32', 'i32'], 'clock_time_get': ['i32', 'i64', 'i32'],
    'fd_advise': ['i32', 'i64', 'i64', 'i32'], 'fd_allocate': ['i32', 'i64', 'i64'],
    'fd_close': ['i32'], 'fd_datasync': ['i32'], 'fd_fdstat_get': ['i32', 'i32'],
    'fd_fdstat_set_flags': ['i32', 'i32'], 'fd_fdstat_set_rights': ['i32', 'i64', 'i64'],
    'fd_filestat_get': ['i32', 'i32'], 'fd_filestat_set_size': ['i32', 'i64'],
    'fd_filestat_set_times': ['i32', 'i64', 'i64', 'i32'],
    'fd_pread': ['i32', 'i32', 'i32', 'i64', 'i32'], 'fd_prestat_get': ['i32', 'i32'],
    'fd_prestat_dir_name': ['i32', 'i32', 'i32'], 'fd_pwrite': ['i32', 'i32', 'i32', 'i64', 'i32'],
    'fd_read': ['i32', 'i32', 'i32', 'i32'], 'fd_readdir': ['i32', 'i32', 'i32', 'i64', 'i32'],
    'fd_renumber': ['i32', 'i32'], 'fd_seek': ['i32', 'i64', 'i32', 'i32'], 'fd_sync': ['i32'],
    'fd_tell': ['i32', 'i32'], 'fd_write': ['i32', 'i32', 'i32', 'i32'],
    'path_create_directory': ['i32', 'i32', 'i32'],
    'path_filestat_get': ['i32', 'i32', 'i32', 'i32', 'i32'],
    'path_filestat_set_times': ['i32', 'i32', 'i32', 'i32', 'i64', 'i64', 'i32'],
    'path_link': ['i32', 'i32', 'i32', 'i32', 'i32', 'i32', 'i32'],
    'path_open': ['i32', 'i32', 'i32', 'i32', 'i32', 'i64', 'i64', 'i32', 'i32'],
    'path_readlink': ['i32', 'i32', 'i32', 'i32', 'i32', 'i32'],
    'path_remove_directory': ['i32', 'i32', 'i32'],
    'path_rename': ['i32', 'i32', 'i32', 'i32', 'i32', 'i32'],
    'path_symlink': ['i32', 'i32', 'i32', 'i32', 'i32'],
    'path_unlink_file': ['i32', 'i32', 'i32'],
    'poll_oneoff': ['i32', 'i32', 'i32', 'i32'], 'proc_exit': ['i32'], 'proc_raise': ['i32'],
    'sched_yield': [], 'random_get': ['i32', 'i32'],
    'sock_accept': ['i32', 'i32', 'i32'], 'sock_recv': ['i32', 'i32', 'i32', 'i32', 'i32', 'i32'],
    'sock_send': ['i32', 'i32', 'i32', 'i32', 'i32'], 'sock_shutdown': ['i32', 'i32'],
}

# the imports named by property C12
C12_IMPORTS = ['path_open', 'fd_write', 'fd_pwrite', 'fd_read', 'fd_pread', 'fd_seek', 'fd_tell', 'fd_filestat_get', 'fd_close']

ERRNO = ['success', '2big', 'acces', 'addrinuse', 'addrnotavail', 'afnosupport', 'again', 'already', 'badf', 'badmsg',
         'busy', 'canceled', 'child', 'connaborted', 'connrefused', 'connreset', 'deadlk', 'destaddrreq', 'dom', 'dquot',
         'exist', 'fault', 'fbig', 'hostunreach', 'idrm', 'ilseq', 'inprogress', 'intr', 'inval', 'io', 'isconn', 'isdir',
         'loop', 'mfile', 'mlink', 'msgsize', 'multihop', 'nametoolong', 'netdown', 'netreset', 'netunreach', 'nfile',
         'nobufs', 'nodev', 'noent', 'noexec', 'nolck', 'nolink', 'nomem', 'nomsg', 'noprotoopt', 'nospc', 'nosys',
         'notconn', 'notdir', 'notempty', 'notrecoverable', 'notsock', 'notsup', 'notty', 'nxio', 'overflow', 'ownerdead',
         'perm', 'pipe', 'proto', 'protonosupport', 'prototype', 'range', 'rofs', 'spipe', 'srch', 'stale', 'timedout',
         'txtbsy', 'xdev', 'notcapable']
ERRNO_NUM = {n: i for i, n in enumerate(ERRNO)}
# host errno macro -> WASI name
HOST_ERRNO = {'E2BIG': '2big', 'EACCES': 'acces', 'EADDRINUSE': 'addrinuse', 'EADDRNOTAVAIL': 'addrnotavail',
              'EAFNOSUPPORT': 'afnosupport', 'EAGAIN': 'again', 'EALREADY': 'already', 'EBADF': 'badf', 'EBADMSG': 'badmsg',
              'EBUSY': 'busy', 'ECANCELED': 'canceled', 'ECHILD': 'child', 'ECONNABORTED': 'connaborted',
              'ECONNREFUSED': 'connrefused', 'ECONNRESET': 'connreset', 'EDEADLK': 'deadlk', 'EDESTADDRREQ': 'destaddrreq',
              'EDOM': 'dom', 'EDQUOT': 'dquot', 'EEXIST': 'exist', 'EFAULT': 'fault', 'EFBIG': 'fbig',
              'EHOSTUNREACH': 'hostunreach', 'EIDRM': 'idrm', 'EILSEQ': 'ilseq', 'EINPROGRESS': 'inprogress', 'EINTR': 'intr',
              'EINVAL': 'inval', 'EIO': 'io', 'EISCONN': 'isconn', 'EISDIR': 'isdir', 'ELOOP': 'loop', 'EMFILE': 'mfile',
              'EMLINK': 'mlink', 'EMSGSIZE': 'msgsize', 'EMULTIHOP': 'multihop', 'ENAMETOOLONG': 'nametoolong',
              'ENETDOWN': 'netdown', 'ENETRESET': 'netreset', 'ENETUNREACH': 'netunreach', 'ENFILE': 'nfile',
              'ENOBUFS': 'nobufs', 'ENODEV': 'nodev', 'ENOENT': 'noent', 'ENOEXEC': 'noexec', 'ENOLCK': 'nolck',
              'ENOLINK': 'nolink', 'ENOMEM': 'nomem', 'ENOMSG': 'nomsg', 'ENOPROTOOPT': 'noprotoopt', 'ENOSPC': 'nospc',
              'ENOSYS': 'nosys', 'ENOTCONN': 'notconn', 'ENOTDIR': 'notdir', 'ENOTEMPTY': 'notempty',
              'ENOTRECOVERABLE': 'notrecoverable', 'ENOTSOCK': 'notsock', 'ENOTSUP': 'notsup', 'ENOTTY': 'notty',
              'ENXIO': 'nxio', 'EOVERFLOW': 'overflow', 'EOWNERDEAD': 'ownerdead', 'EPERM': 'perm', 'EPIPE': 'pipe',
              'EPROTO': 'proto', 'EPROTONOSUPPORT': 'protonosupport', 'EPROTOTYPE': 'prototype', 'ERANGE': 'range',
              'EROFS': 'rofs', 'ESPIPE': 'spipe', 'ESRCH': 'srch', 'ESTALE': 'stale', 'ETIMEDOUT': 'timedout',
              'ETXTBSY': 'txtbsy', 'EXDEV': 'xdev'}

WHENCE = {'preview1': {0: 'SEEK_SET', 1: 'SEEK_CUR', 2: 'SEEK_END'},
          'unstable': {0: 'SEEK_CUR', 1: 'SEEK_END', 2: 'SEEK_SET'}}

OFLAGS = {'O_CREAT': 1 << 0, 'O_DIRECTORY': 1 << 1, 'O_EXCL': 1 << 2, 'O_TRUNC': 1 << 3}
FDFLAGS = {'O_APPEND': 1 << 0, 'O_DSYNC': 1 << 1, 'O_NONBLOCK': 1 << 2, 'O_SYNC': 1 << 4}   # rsync (1<<3) may be ignored
RIGHTS_FD_READ = 1 << 1
RIGHTS_FD_WRITE = 1 << 6
RIGHTS_FD_READDIR = 1 << 14

# struct layouts: field -> (offset, bits)
FILESTAT = {
    'preview1': dict(size=64, fields={'dev': (0, 64), 'ino': (8, 64), 'filetype': (16, 8), 'nlink': (24, 64),
                                      'size': (32, 64), 'atim': (40, 64), 'mtim': (48, 64), 'ctim': (56, 64)}),
    'unstable': dict(size=56, fields={'dev': (0, 64), 'ino': (8, 64), 'filetype': (16, 8), 'nlink': (20, 32),
                                      'size': (24, 64), 'atim': (32, 64), 'mtim': (40, 64), 'ctim': (48, 64)}),
}
FDSTAT = dict(size=24, fields={'filetype': (0, 8), 'flags': (2, 16), 'rights_base': (8, 64), 'rights_inheriting': (16, 64)})
DIRENT = dict(size=24, fields={'d_next': (0, 64), 'd_ino': (8, 64), 'd_namlen': (16, 32), 'd_type': (20, 8)})
IOVEC = dict(size=8, fields={'buf': (0, 32), 'buf_len': (4, 32)})
PRESTAT = dict(size=8, fields={'tag': (0, 8), 'pr_name_len': (4, 32)})
CLOCKS = {0: 'CLOCK_REALTIME', 1: 'CLOCK_MONOTONIC', 2: 'CLOCK_PROCESS_CPUTIME_ID', 3: 'CLOCK_THREAD_CPUTIME_ID'}
FILETYPE = {'unknown': 0, 'block_device': 1, 'character_device': 2, 'directory': 3, 'regular_file': 4,
            'socket_dgram': 5, 'socket_stream': 6, 'symbolic_link': 7}
