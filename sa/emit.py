"""Harness around engine PE for w2c2's C emitters (w2c2/c.c).

Leaf models (the complete, reviewed list - everything else is interpreted from the AST):

  byte stream      bufferReadByte, leb128ReadU32/I32/U64/I64, bufferReadF32/F64   -> scripted tokens
  string builder   stringBuilderInitialize/Reset/Free/Append/AppendSized/AppendChar/AppendU32/I32/
                   U64/I64/F32/F64/CharHex/U32Hex/U64Hex                           -> Text parts
  FILE*            fopen/fclose/fputs/fputc/fprintf/fwrite                         -> Text parts
  memory           arrayEnsureCapacity(SlowPath), calloc, malloc, realloc, free, memset
  libc             strlen, strcmp, isalnum, abort, exit, assert-fail, strerror, sprintf
  escaping         wasmCWriteStringEscaped / wasmCWriteFileEscaped are interpreted for concrete names and
                   modelled as one ('esc', name) token for symbolic names (their bodies are checked
                   separately by C09 R09.5 / C10 R10.5)
"""
from . import astdb, pe
from .pe import Sym, Ptr, Text, unk, is_sym, PEError, PathAbort


class ScriptMismatch(PEError):
    pass


class Stream:
    """scripted byte stream: list of (tag, value); tags: byte,u32,i32,u64,i64,f32,f64"""

    def __init__(self, tokens):
        self.tokens = list(tokens)
        self.pos = 0
        self.log = []

    def take(self, tag):
        if self.pos >= len(self.tokens):
            self.log.append((tag, 'EOF'))
            return None
        t, v = self.tokens[self.pos]
        if t != tag:
            raise ScriptMismatch('decoder asked for %s but the next immediate of the instruction is %s'
                                 ' (consumed so far: %r)' % (tag, t, self.log))
        self.pos += 1
        self.log.append((tag, v))
        return v


_DIFF_CACHE = {}


def decide_mismatch(chk, rule, instance, e, site, what=''):
    """a decoder asked for another immediate type than the binary format has at that position (ScriptMismatch e).  Two different
    LEB128 kinds decode some valid encodings to other values: a violation.  A raw byte where a LEB128 immediate stands (or the
    reverse) is a wrong decoder or a correct single-byte fast path: decided on bytes by sa/bytedecode.py (every instruction translated
    with the real decoders from its minimal and from a padded encoding, live and dead code).  Returns True when a violation was
    recorded; otherwise the construct is recorded as undecided (exit 2 unless something else is violated)"""
    import re
    m = re.search(r'asked for (\w+) but the (?:next immediate of the instruction is|buffer holds) (\w+)', str(e))
    leb = ('u32', 'i32', 'u64', 'i64')
    if m and m.group(1) in leb and m.group(2) in leb:
        chk.fail(rule, instance, '%s%s - the two LEB128 kinds decode some valid encodings to different values' % (what, e), site)
        return True
    if 'diff' not in _DIFF_CACHE:
        from . import bytedecode
        _DIFF_CACHE['diff'] = bytedecode.differential(chk.tier)
    bad, n, ok = _DIFF_CACHE['diff']
    if bad:
        chk.fail(rule, instance, '%s%s; translated from bytes: %s' % (what, str(e)[:200], bad[0]), site, witnesses=bad[:5])
        return True
    chk.undecide('%s%s - outside the token model of the decoders; translated from bytes, all %d instruction encodings (minimal and padded, '
                 'live and dead code) give identical results' % (what, str(e)[:200], n))
    return False


def _sb(interp, p):
    """StringBuilder record behind pointer p -> its Text"""
    if isinstance(p, Ptr):
        sb = interp.load(p.c, p.k)
        if isinstance(sb, dict):
            t = sb.get('_text')
            if t is None:
                t = Text('builder')
                sb['_text'] = t
                sb['string'] = t
            return t
    if isinstance(p, Text):
        return p
    raise PEError('string builder argument is not a builder: %r' % (p,))


def _file(interp, f):
    if isinstance(f, Text):
        return f
    return None


def _cstr(interp, v):
    """python str for a C string value (str, or pointer into a char list)"""
    if isinstance(v, str):
        return v
    if isinstance(v, Ptr) and isinstance(v.c, str):
        return v.c[v.k:] if isinstance(v.k, int) and v.k >= 0 else v
    if isinstance(v, Ptr) and isinstance(v.c, list):
        out = []
        for x in v.c[v.k:]:
            if isinstance(x, tuple):
                return x
            if x == 0:
                break
            if is_sym(x):
                return Sym('str', (pe._hashable(v),))
            out.append(chr(x & 0xff))
        return ''.join(out)
    return v


def _append_num(kind):
    def f(interp, args, node):
        t = _sb(interp, args[0])
        v = args[1]
        if is_sym(v) or not isinstance(v, int):
            t.add((kind, v))
        elif kind in ('U32', 'I32', 'U64', 'I64'):
            t.add(str(v))
        elif kind == 'CharHex':
            # the byte value of the char in two hex digits (that the real function formats an *unsigned* byte is C10 R10.5's obligation)
            t.add('%02X' % (v & 0xff))
        elif kind == 'U32Hex':
            t.add('%08X' % (v & 0xffffffff))
        elif kind == 'U64Hex':
            t.add('%016X' % (v & 0xffffffffffffffff))
        else:
            t.add((kind, v))
        return 1
    return f


def _sb_append(interp, args, node):
    t = _sb(interp, args[0])
    s = _cstr(interp, args[1])
    if isinstance(s, str):
        t.add(s)
    elif isinstance(s, Text):
        for p in s.parts:
            t.add(p)
    else:
        t.add(('str', s))
    return 1


def _sb_append_sized(interp, args, node):
    t = _sb(interp, args[0])
    s = _cstr(interp, args[1])
    n = args[2]
    if isinstance(s, str) and isinstance(n, int):
        t.add(s[:n])
    else:
        t.add(('strn', s, n))
    return 1


def _sb_append_char(interp, args, node):
    t = _sb(interp, args[0])
    c = args[1]
    if isinstance(c, int):
        t.add(chr(c & 0xff))
    else:
        t.add(('char', c))
    return 1


def _sb_init(interp, args, node):
    p = args[0]
    sb = interp.load(p.c, p.k)
    t = Text('builder')
    sb['_text'] = t
    sb['string'] = t
    sb['length'] = 0
    sb['capacity'] = 8
    return 1


def _sb_reset(interp, args, node):
    p = args[0]
    sb = interp.load(p.c, p.k)
    if sb.get('_text') is None:
        return _sb_init(interp, args, node)
    sb['_text'].parts = []
    return 1


def _sb_free(interp, args, node):
    p = args[0]
    sb = interp.load(p.c, p.k)
    sb['string'] = 0
    interp.event('stringBuilderFree', (), node)
    return None


def _fputs(interp, args, node):
    f = _file(interp, args[1])
    s = _cstr(interp, args[0])
    if f is None:
        interp.event('fputs-nonfile', (pe._hashable(s),), node)
        return 0
    if isinstance(s, str):
        f.add(s)
    elif isinstance(s, Text):
        for p in s.parts:
            f.add(p)
    else:
        f.add(('str', s))
    return 0


def _fputc(interp, args, node):
    f = _file(interp, args[1])
    c = args[0]
    if f is None:
        return 0
    if isinstance(c, int):
        f.add(chr(c & 0xff))
    else:
        f.add(('char', c))
    return 0


def _fprintf(interp, args, node):
    f = _file(interp, args[0])
    fmt = _cstr(interp, args[1])
    rest = [_cstr(interp, a) for a in args[2:]]
    if f is None:
        interp.event('diagnostic', (fmt,) + tuple(pe._hashable(a) for a in rest), node)
        return 0
    if not isinstance(fmt, str):
        f.add(('fmt?', fmt))
        return 0
    for p in pe.format_printf(fmt, rest):
        f.add(p)
    return 0


def _sprintf(interp, args, node):
    buf = args[0]
    fmt = _cstr(interp, args[1])
    rest = [_cstr(interp, a) for a in args[2:]]
    parts = pe.format_printf(fmt, rest) if isinstance(fmt, str) else [('fmt?', fmt)]
    if isinstance(buf, Ptr) and isinstance(buf.c, list):
        if len(parts) == 1 and isinstance(parts[0], str):
            s = parts[0]
            for i, ch in enumerate(s):
                interp.store(buf.c, buf.k + i, ord(ch))
            interp.store(buf.c, buf.k + len(s), 0)
            return len(s)
        interp.store(buf.c, buf.k, ('sprintf', tuple(parts)))
    interp.event('sprintf', (fmt,) + tuple(pe._hashable(a) for a in rest), node)
    return Sym('call', ('sprintf',))


def _snprintf(interp, args, node):
    """snprintf(buf, size, fmt, ...): at most size-1 characters and the terminator are stored, the full length is returned"""
    buf, size = args[0], args[1]
    fmt = _cstr(interp, args[2])
    rest = [_cstr(interp, a) for a in args[3:]]
    parts = pe.format_printf(fmt, rest) if isinstance(fmt, str) else [('fmt?', fmt)]
    if isinstance(buf, Ptr) and isinstance(buf.c, list) and isinstance(size, int) and len(parts) == 1 and isinstance(parts[0], str):
        s = parts[0]
        if size > 0:
            kept = s[:size - 1]
            for i, ch in enumerate(kept):
                interp.store(buf.c, buf.k + i, ord(ch))
            interp.store(buf.c, buf.k + len(kept), 0)
        return len(s)
    interp.event('snprintf', (fmt,) + tuple(pe._hashable(a) for a in rest), node)
    return Sym('call', ('snprintf',))


def _fopen(interp, args, node):
    name = _cstr(interp, args[0])
    mode = _cstr(interp, args[1])
    t = Text(name if isinstance(name, str) else repr(name))
    interp.event('fopen', (pe._hashable(name), mode), node)
    files = getattr(interp, 'files', None)
    if files is not None:
        files.append((name, mode, t))
    return t


def _array_ensure(interp, args, node):
    items, length = args[0], args[1]
    cap = args[2]
    if isinstance(items, Ptr):
        cur = interp.load(items.c, items.k)
        if cur == 0:
            interp.store(items.c, items.k, Ptr([], 0))
    if isinstance(cap, Ptr) and isinstance(length, int):
        c = interp.load(cap.c, cap.k)
        if isinstance(c, int) and c < length:
            interp.store(cap.c, cap.k, length)
    return 1


def _calloc(interp, args, node):
    n = args[0]
    interp.event('calloc', tuple(pe._hashable(a) for a in args), node)
    if isinstance(n, int) and n < 100000:
        return Ptr([0] * n, 0)
    return Ptr([], 0)


def _strlen(interp, args, node):
    s = _cstr(interp, args[0])
    if isinstance(s, str):
        return len(s)
    return Sym('call', ('strlen', pe._hashable(s)))


def _strcmp(interp, args, node):
    a, b = _cstr(interp, args[0]), _cstr(interp, args[1])
    if isinstance(a, str) and isinstance(b, str):
        return (a > b) - (a < b)
    return Sym('call', ('strcmp', pe._hashable(a), pe._hashable(b)))


def _isalnum(interp, args, node):
    c = args[0]
    if isinstance(c, int):
        return int(0 <= c < 128 and chr(c).isalnum())
    return Sym('call', ('isalnum', c))


def _ctype(name, pred):
    def f(interp, args, node):
        c = args[0]
        if isinstance(c, int):
            return int(0 <= c < 128 and pred(chr(c)))     # "C" locale
        return Sym('call', (name, c))
    return f


CTYPE_LEAFS = {
    'isxdigit': _ctype('isxdigit', lambda ch: ch in '0123456789abcdefABCDEF'),
    'isdigit': _ctype('isdigit', lambda ch: ch in '0123456789'),
    'isalpha': _ctype('isalpha', lambda ch: ch.isalpha()),
    'isupper': _ctype('isupper', lambda ch: 'A' <= ch <= 'Z'),
    'islower': _ctype('islower', lambda ch: 'a' <= ch <= 'z'),
    'isspace': _ctype('isspace', lambda ch: ch in ' \t\n\v\f\r'),
    'isprint': _ctype('isprint', lambda ch: 32 <= ord(ch) < 127),
    'ispunct': _ctype('ispunct', lambda ch: 32 < ord(ch) < 127 and not ch.isalnum()),
    'iscntrl': _ctype('iscntrl', lambda ch: ord(ch) < 32 or ord(ch) == 127),
}


def stream_leafs(get_stream):
    def rd(tag, store=True):
        def f(interp, args, node):
            buf = args[0]
            local = None
            if isinstance(buf, Ptr):
                try:
                    b = interp.load(buf.c, buf.k)
                except PEError:
                    b = None
                if isinstance(b, dict) and '_tokens' in b:
                    local = b
            if local is not None:
                # a Buffer value that carries its own scripted contents (constant expressions of the module)
                pos = local.get('_pos', 0)
                toks = local['_tokens']
                if pos >= len(toks):
                    return 0
                t, v = toks[pos]
                if t != tag:
                    raise ScriptMismatch('decoder asked for %s but the buffer holds %s at position %d' % (tag, t, pos))
                local['_pos'] = pos + 1
            else:
                st = get_stream(interp)
                v = st.take(tag)
                if v is None:
                    return 0
            p = args[1]
            if isinstance(p, Ptr):
                interp.store(p.c, p.k, v)
            elif is_sym(p):
                interp.event('store-sym', (p, pe._hashable(v)), node)
            return 1
        return f
    return {
        'bufferReadByte': rd('byte'),
        'leb128ReadU32': rd('u32'),
        'leb128ReadI32': rd('i32'),
        'leb128ReadU64': rd('u64'),
        'leb128ReadI64': rd('i64'),
        'bufferReadF32': rd('f32'),
        'bufferReadF64': rd('f64'),
    }


def escaped_leafs(interp_get_real):
    """model the two escaping functions as a token when the name is symbolic"""
    def string_escaped(interp, args, node):
        name = _cstr(interp, args[1])
        if isinstance(name, str):
            return interp_get_real(interp, 'wasmCWriteStringEscaped', args, node)
        _sb(interp, args[0]).add(('esc', name))
        return 1

    def file_escaped(interp, args, node):
        name = _cstr(interp, args[1])
        if isinstance(name, str):
            return interp_get_real(interp, 'wasmCWriteFileEscaped', args, node)
        f = _file(interp, args[0])
        if f is not None:
            f.add(('esc', name))
        return None
    return {'wasmCWriteStringEscaped': string_escaped, 'wasmCWriteFileEscaped': file_escaped}


_CTYPE = None


def _ctype_b_loc(interp, args, node):
    """glibc's isalnum() expands to (*__ctype_b_loc())[c] & _ISalnum: provide the C-locale table (bit 8 = alnum,
    bit 0x800 = digit, 0x400 = alpha as in <ctype.h> for little-endian hosts)"""
    global _CTYPE
    if _CTYPE is None:
        tab = []
        for c in range(-128, 256):
            v = 0
            if 0 <= c < 128:
                ch = chr(c)
                if ch.isalnum():
                    v |= 8
                if ch.isalpha():
                    v |= 0x400
                if ch.isdigit():
                    v |= 0x800
                # the remaining classes of the "C" locale (glibc _ISbit layout on little-endian hosts)
                if 'A' <= ch <= 'Z':
                    v |= 0x100
                if 'a' <= ch <= 'z':
                    v |= 0x200
                if ch in '0123456789abcdefABCDEF':
                    v |= 0x1000
                if ch in ' \t\n\v\f\r':
                    v |= 0x2000
                if 32 <= c < 127:
                    v |= 0x4000
                if 32 < c < 127:
                    v |= 0x8000
                if ch in ' \t':
                    v |= 0x1
                if c < 32 or c == 127:
                    v |= 0x2
                if 32 < c < 127 and not ch.isalnum():
                    v |= 0x4
            tab.append(v)
        _CTYPE = {'v': Ptr(tab, 128)}
    return Ptr(_CTYPE, 'v')


def base_leafs():
    L = {
        '__ctype_b_loc': _ctype_b_loc,
        'stringBuilderInitialize': _sb_init,
        'stringBuilderReset': _sb_reset,
        'stringBuilderFree': _sb_free,
        'stringBuilderAppend': _sb_append,
        'stringBuilderAppendSized': _sb_append_sized,
        'stringBuilderAppendChar': _sb_append_char,
        'fputs': _fputs, 'fputc': _fputc, 'putc': _fputc, 'fprintf': _fprintf, 'sprintf': _sprintf,
        'fopen': _fopen,
        'fclose': pe.leaf_event('fclose', 0),
        'fwrite': lambda i, a, n: (i.event('fwrite', tuple(pe._hashable(x) for x in a), n), a[2])[1],
        'arrayEnsureCapacity': _array_ensure,
        'arrayEnsureCapacitySlowPath': _array_ensure,
        'calloc': _calloc,
        'malloc': lambda i, a, n: Ptr([], 0),
        'free': pe.leaf_event('free'),
        'strlen': _strlen, 'strcmp': _strcmp, 'isalnum': _isalnum, **CTYPE_LEAFS,
        'strerror': pe.leaf_const('<strerror>'),
        'abort': pe.leaf_abort('abort'),
        'exit': pe.leaf_abort('exit'),
        '__assert_fail': pe.leaf_abort('assert'),
        'wasmOpcodeDescription': pe.leaf_const('<opcode>'),
        'wasmThreadsOpcodeDescription': pe.leaf_const('<opcode>'),
        'wasmMiscOpcodeDescription': pe.leaf_const('<opcode>'),
        'wasmValueTypeDescription': pe.leaf_const('<type>'),
        'wasmExportKindDescription': pe.leaf_const('<kind>'),
    }
    for kind in ('U32', 'I32', 'U64', 'I64', 'F32', 'F64', 'CharHex', 'U32Hex', 'U64Hex'):
        L['stringBuilderAppend' + kind] = _append_num(kind)
    return L


_TU_CACHE = {}


def translator_tus(names=('c.c', 'opcode.c', 'instruction.c'), extra=(), chk=None):
    tus = []
    for n in names:
        key = (n, tuple(extra))
        if key not in _TU_CACHE:
            _TU_CACHE[key] = astdb.dump_ast(astdb.src('w2c2/' + n), extra=extra)
        tus.append(_TU_CACHE[key])
        if chk is not None:
            chk.unit(_TU_CACHE[key])
    return tus


def make_interp(tus, stream_getter=None, extra_leafs=None, symbolic_names=True, **kw):
    leafs = base_leafs()
    if stream_getter is None:
        stream_getter = lambda interp: interp.path.state['stream']
    leafs.update(stream_leafs(stream_getter))
    it = pe.Interp(tus, leafs, **kw)
    if symbolic_names:
        def real(interp, name, args, node):
            saved = interp.leafs.pop(name)
            try:
                return interp.call(name, args, node)
            finally:
                interp.leafs[name] = saved
        it.leafs.update(escaped_leafs(real))
    if extra_leafs:
        it.leafs.update(extra_leafs)
    return it


# ---- object builders ---------------------------------------------------------------

VT = {'i32': 0, 'i64': 1, 'f32': 2, 'f64': 3}
VT_NAMES = ['i32', 'i64', 'f32', 'f64']
VT_C = ['U32', 'U64', 'F32', 'F64']
VT_LETTER = ['i', 'j', 'f', 'd']


def type_stack(types):
    vals = [VT[t] if isinstance(t, str) else t for t in types]
    return {'length': len(vals), 'capacity': len(vals) + 64, 'valueTypes': Ptr(vals + [0] * 64, 0)}


def empty_decls():
    return {'length': 0, 'capacity': 256, 'valueTypes': Ptr([0] * 256, 0)}


def label_stack(labels, next_index=None):
    """labels: list of (index, typeStackLength, type or None)"""
    ls = []
    for idx, tsl, ty in labels:
        ls.append({'index': idx, 'typeStackLength': tsl,
                   'type': 0 if ty is None else Ptr([VT[ty] if isinstance(ty, str) else ty], 0)})
    n = len(ls)
    return {'labels': {'length': n, 'capacity': n + 64,
                       'labels': Ptr(ls + [{'index': 0, 'typeStackLength': 0, 'type': 0} for _ in range(64)], 0)},
            'nextLabelIndex': next_index if next_index is not None else (max([l[0] for l in labels]) + 1 if labels else 0)}


def func_type(params, results):
    return {'parameterCount': len(params), 'parameterTypes': Ptr([VT[p] for p in params], 0),
            'resultCount': len(results), 'resultTypes': Ptr([VT[r] for r in results], 0)}


def decl_list(stack_decl):
    """{slot index: set of type letters} from a stackDeclarations record"""
    out = {}
    arr = stack_decl['valueTypes'].c
    for i in range(stack_decl['length']):
        e = arr[i]
        if isinstance(e, int) and e:
            out[i] = {VT_NAMES[b] for b in range(4) if e & (1 << b)}
    return out
