"""Compilation database, configurations and clang JSON AST loading for /repo.

Every check obtains its ASTs through this module.  Nothing derived from the
sources is committed: the AST of a (file, configuration) pair is dumped with
clang on demand and cached under /verif/.cache keyed by the sha256 of the
*preprocessed* source plus flags, so an edit to /repo always invalidates it.
"""
import hashlib
import re
import json
import os
import pickle
import subprocess
import sys
import time

REPO = os.environ.get('VERIF_REPO', '/repo')
VERIF = os.path.dirname(os.path.dirname(os.path.abspath(__file__)))
CACHE = os.environ.get('VERIF_CACHE_DIR') or os.path.join(VERIF, '.cache')      # AST dumps keyed by the hash of the preprocessed source + flags
CLANG = 'clang'

# Flags of the pinned build (w2c2/CMakeLists.txt, wasi/CMakeLists.txt, futex/CMakeLists.txt).
# Used when /repo/_build has no ninja compdb; the evidence records which route was taken.
FALLBACK_FLAGS = {
    'w2c2': ['-DHAS_GETOPT=1', '-DHAS_GLOB=1', '-DHAS_LIBGEN=1', '-DHAS_PTHREAD=1',
             '-DHAS_STRDUP=1', '-DHAS_UNISTD=1', '-std=gnu90'],
    'wasi': ['-DHAS_FCNTL=1', '-DHAS_GETENTROPY=1', '-DHAS_LSTAT=1', '-DHAS_STRNDUP=1',
             '-DHAS_SYSRESOURCE=1', '-DHAS_SYSTIME=1', '-DHAS_SYSUIO=1', '-DHAS_TIMESPEC=1',
             '-DHAS_UNISTD=1', '-DWASM_THREADS_PTHREADS', '-std=gnu90'],
    'futex': ['-DWASM_THREADS_PTHREADS', '-DHAS_UNISTD=1', '-std=gnu90'],
}

_compdb_cache = None
FLAG_ROUTE = None


class AnalysisBroken(Exception):
    """An anchor vanished / clang failed / a floor was not met: exit code 2."""


def _compdb():
    global _compdb_cache, FLAG_ROUTE
    if _compdb_cache is not None:
        return _compdb_cache
    flags = {}
    bdir = os.path.join(REPO, '_build')
    try:
        out = subprocess.run(['ninja', '-C', bdir, '-t', 'compdb'], capture_output=True,
                             text=True, timeout=60)
        if out.returncode == 0:
            for e in json.loads(out.stdout):
                f = e.get('file', '')
                if not f.endswith('.c') or f in flags:
                    continue
                toks = e['command'].split()
                keep = [t for t in toks if t.startswith('-D') or t.startswith('-I')
                        or t.startswith('-std=')]
                keep = [t for t in keep if t != '-DNDEBUG']
                flags[os.path.realpath(f)] = keep
    except Exception:
        flags = {}
    FLAG_ROUTE = 'ninja-compdb' if flags else 'fallback-table'
    _compdb_cache = flags
    return flags


def flags_for(path):
    """Build flags of a translation unit (absolute path under REPO)."""
    path = os.path.realpath(path)
    db = _compdb()
    if path in db:
        return list(db[path])
    rel = os.path.relpath(path, os.path.realpath(REPO))
    top = rel.split(os.sep)[0]
    if top in FALLBACK_FLAGS:
        return list(FALLBACK_FLAGS[top])
    raise AnalysisBroken('no flags known for %s' % path)


def src(rel):
    p = os.path.join(REPO, rel)
    if not os.path.exists(p):
        raise AnalysisBroken('anchor file missing: %s' % rel)
    return p


def _run(cmd, inp=None, timeout=300):
    return subprocess.run(cmd, input=inp, capture_output=True, timeout=timeout)


def preprocess(path, flags, text=None):
    cmd = [CLANG, '-E', '-P', '-UNDEBUG'] + flags
    if text is not None:
        cmd += ['-x', 'c', '-']
        r = _run(cmd, inp=text.encode())
    else:
        cmd += [path]
        r = _run(cmd)
    if r.returncode != 0:
        raise AnalysisBroken('clang -E failed for %s: %s' % (path, r.stderr.decode()[:2000]))
    return r.stdout


# --------------------------------------------------------------------------------------
# location resolution: clang elides "file" and "line" when unchanged from the previously
# printed location, so a single in-order pass over the raw JSON restores them.


class _LocState:
    __slots__ = ('file', 'line', 'tok')

    def __init__(self):
        self.file = None
        self.line = None
        self.tok = None


def _bare(st, d):
    if not d:
        return None
    if 'file' in d:
        st.file = d['file']
    if 'line' in d:
        st.line = d['line']
    if 'col' not in d and 'offset' not in d:
        return None
    st.tok = (st.file, d.get('offset'), d.get('tokLen'))
    return (st.file, st.line, d.get('col'))


def _resolve_loc(st, d):
    """returns (expansion_loc, spelling_loc or None)"""
    if not d:
        return (None, None)
    if 'spellingLoc' in d or 'expansionLoc' in d:
        sp = _bare(st, d.get('spellingLoc'))
        tok = st.tok
        ex = _bare(st, d.get('expansionLoc'))
        st.tok = tok
        return (ex, sp)
    return (_bare(st, d), None)


def _walk_locs(node, st, keep_pred, depth=0):
    """annotate nodes in place with '_loc' (expansion (file,line,col)), '_sloc' (macro spelling
    loc) and '_end'; prune bodies of declarations for which keep_pred(file) is false."""
    loc = node.get('loc')
    if loc is not None:
        ex, sp = _resolve_loc(st, loc)
        node['_loc'] = ex
        if sp:
            node['_sloc'] = sp
    rng = node.get('range')
    if rng is not None:
        b, bs = _resolve_loc(st, rng.get('begin'))
        if node.get('kind') == 'AtomicExpr':
            node['_tok'] = st.tok
        e, _ = _resolve_loc(st, rng.get('end'))
        if '_loc' not in node or node['_loc'] is None:
            node['_loc'] = b
            if bs:
                node['_sloc'] = bs
        node['_end'] = e
        node['_begin'] = b
    node.pop('loc', None)
    node.pop('range', None)
    inner = node.get('inner')
    if inner:
        for ch in inner:
            if isinstance(ch, dict):
                _walk_locs(ch, st, keep_pred, depth + 1)
        if depth == 1:
            l = node.get('_loc')
            f = l[0] if l else None
            if f is not None and not keep_pred(f):
                k = node.get('kind')
                if k == 'FunctionDecl':
                    # keep the parameter list (types) but drop bodies of system inline functions
                    node['inner'] = [c for c in inner if c.get('kind') == 'ParmVarDecl']
                elif k in ('VarDecl',):
                    node['inner'] = []


def _default_keep(f):
    return f.startswith(os.path.realpath(REPO)) or f.startswith(REPO) or f == '<stdin>' \
        or f.startswith(VERIF) or f.startswith('/tmp/')


class TU:
    """A parsed translation unit."""

    def __init__(self, path, flags, root, config=''):
        self.path = path
        self.flags = flags
        self.root = root
        self.config = config
        self.functions = {}   # name -> FunctionDecl with body (last definition wins)
        self.decls = {}       # name -> any top-level decl (first)
        self.byid = {}
        self.enums = {}       # enumerator name -> int value
        self.enum_decls = {}  # enum name -> [(enumerator, value)]
        self.records = {}     # struct name -> RecordDecl
        self.typedefs = {}
        self.vars = {}
        self._index()

    def _index(self):
        for d in self.root.get('inner', []):
            k = d.get('kind')
            name = d.get('name')
            if 'id' in d:
                self.byid[d['id']] = d
            if k == 'FunctionDecl':
                has_body = any(c.get('kind') == 'CompoundStmt' for c in d.get('inner', []))
                if has_body:
                    self.functions[name] = d
                self.decls.setdefault(name, d)
                if has_body:
                    self.decls[name] = d
            elif k == 'EnumDecl':
                vals = []
                cur = -1
                for c in d.get('inner', []):
                    if c.get('kind') != 'EnumConstantDecl':
                        continue
                    v = None
                    for cc in c.get('inner', []):
                        v = const_int(cc, self)
                    cur = cur + 1 if v is None else v
                    self.enums[c['name']] = cur
                    self.byid[c['id']] = c
                    c['_value'] = cur
                    vals.append((c['name'], cur))
                if name:
                    self.enum_decls[name] = vals
                d['_values'] = vals
            elif k == 'RecordDecl':
                if name and any(c.get('kind') == 'FieldDecl' for c in d.get('inner', [])):
                    self.records[name] = d
            elif k == 'TypedefDecl':
                self.typedefs[name] = d
            elif k == 'VarDecl':
                self.vars[name] = d
                self.decls.setdefault(name, d)

    def record(self, name):
        """RecordDecl by tag name; anonymous records are addressed as clang spells them: '(unnamed at file:line:col)'"""
        r = self.records.get(name)
        if r is not None or not name.startswith('('):
            return r
        if not hasattr(self, '_anon'):
            self._anon = {}
            for n in walk(self.root):
                if n.get('kind') == 'RecordDecl' and not n.get('name') and n.get('_loc') and \
                        any(c.get('kind') == 'FieldDecl' for c in n.get('inner', [])):
                    self._anon['%s:%d:%d' % n['_loc']] = n
        m = re.search(r'at (.+:\d+:\d+)\)', name)
        return self._anon.get(m.group(1)) if m else None

    def desugar(self, qt, depth=0):
        """resolve typedef names anywhere inside a type spelling (clang only desugars the top level)"""
        if depth > 8 or not qt:
            return qt
        changed = [False]

        def rep(m):
            w = m.group(0)
            td = self.typedefs.get(w)
            if td is None or w in ('const', 'volatile', 'struct', 'union', 'enum', 'unsigned', 'signed'):
                return w
            t = td.get('type') or {}
            u = t.get('desugaredQualType') or t.get('qualType')
            if not u or u == w:
                return w
            changed[0] = True
            return u
        out = re.sub(r'(?<!enum )(?<!struct )(?<!union )\b[A-Za-z_][A-Za-z_0-9]*', rep, qt)
        if changed[0]:
            return self.desugar(out, depth + 1)
        return out

    def fn(self, name):
        f = self.functions.get(name)
        if f is None:
            raise AnalysisBroken('anchor function %s not found in %s' % (name, self.path))
        return f

    def body(self, name):
        return fn_body(self.fn(name))


def fn_body(fdecl):
    for c in fdecl.get('inner', []):
        if c.get('kind') == 'CompoundStmt':
            return c
    return None


def fn_params(fdecl):
    return [c for c in fdecl.get('inner', []) if c.get('kind') == 'ParmVarDecl']


_SYSINC = None


def system_include_flags():
    """-nostdinc + the include search path of the *build* compiler (cc), so that library macros (FLT_DECIMAL_DIG, PATH_MAX,
    O_*, E*) have the values the real build sees, not those of clang's own resource headers"""
    global _SYSINC
    if _SYSINC is None:
        _SYSINC = []
        try:
            r = subprocess.run([os.environ.get('VERIF_CC', 'cc'), '-E', '-Wp,-v', '-xc', '/dev/null'], capture_output=True, text=True, timeout=60)
            dirs, on = [], False
            for line in r.stderr.splitlines():
                if line.startswith('#include <...>'):
                    on = True
                elif line.startswith('End of search list'):
                    on = False
                elif on and line.strip():
                    dirs.append(line.strip())
            if dirs and all(os.path.isdir(d) for d in dirs):
                _SYSINC = ['-nostdinc'] + [x for d in dirs for x in ('-isystem', d)]
        except Exception:
            _SYSINC = []
    return list(_SYSINC)


def dump_ast(path, flags=None, extra=(), text=None, config='', keep_pred=None, lang_flags=()):
    """Return a TU for `path` (or for in-memory `text`, with `path` used as its label)."""
    if flags is None:
        flags = flags_for(path)
    flags = list(flags) + list(extra) + system_include_flags()
    os.makedirs(CACHE, exist_ok=True)
    pp = preprocess(path, flags, text=text)
    h = hashlib.sha256()
    h.update(pp)
    h.update(('\0'.join(flags) + '|' + path + '|v6').encode())
    key = h.hexdigest()[:32]
    cfile = os.path.join(CACHE, 'ast-' + key + '.pkl')
    if os.path.exists(cfile):
        try:
            with open(cfile, 'rb') as f:
                root = pickle.load(f)
            return TU(path, flags, root, config)
        except Exception:
            pass
    cmd = [CLANG, '-fsyntax-only', '-UNDEBUG', '-Wno-everything', '-Xclang', '-ast-dump=json'] + flags
    if text is not None:
        cmd += ['-x', 'c', '-']
        r = _run(cmd, inp=text.encode(), timeout=600)
    else:
        cmd += [path]
        r = _run(cmd, timeout=600)
    if r.returncode != 0:
        raise AnalysisBroken('clang failed to parse %s [%s]: %s' % (path, ' '.join(flags),
                                                                    r.stderr.decode()[:3000]))
    root = json.loads(r.stdout)
    sys.setrecursionlimit(100000)
    _walk_locs(root, _LocState(), keep_pred or _default_keep)
    tmp = cfile + '.%d.tmp' % os.getpid()
    with open(tmp, 'wb') as f:
        pickle.dump(root, f, protocol=pickle.HIGHEST_PROTOCOL)
    os.replace(tmp, cfile)
    return TU(path, flags, root, config)


def header_tu(rel_header, flags, extra=(), config='', prelude=''):
    """Parse a header through a one-line TU."""
    p = src(rel_header)
    text = '%s#include "%s"\n' % (prelude, p)
    return dump_ast(p + '#tu', flags=list(flags), extra=extra, text=text, config=config)


# --------------------------------------------------------------------------------------
# generic AST helpers

def walk(node):
    """pre-order iterator over all dict nodes"""
    stack = [node]
    while stack:
        n = stack.pop()
        if not isinstance(n, dict):
            continue
        yield n
        inner = n.get('inner')
        if inner:
            stack.extend(reversed(inner))


def kids(node):
    return [c for c in node.get('inner', []) if isinstance(c, dict)]


_TRANSPARENT = ('ParenExpr', 'ImplicitCastExpr', 'ConstantExpr')


def strip(node, casts=False):
    """strip parentheses and implicit casts (and explicit casts when casts=True)"""
    while node is not None:
        k = node.get('kind')
        if k in _TRANSPARENT or (casts and k == 'CStyleCastExpr'):
            ks = kids(node)
            if not ks:
                return node
            node = ks[0]
        else:
            return node
    return node


def strip_parens(node):
    while node is not None and node.get('kind') in ('ParenExpr', 'ConstantExpr'):
        node = kids(node)[0]
    return node


def qtype(node):
    t = node.get('type') or {}
    return t.get('desugaredQualType') or t.get('qualType') or ''


def qtype_sugar(node):
    t = node.get('type') or {}
    return t.get('qualType') or ''


def callee_name(call):
    """name of the directly called function of a CallExpr, or None"""
    ks = kids(call)
    if not ks:
        return None
    c = strip(ks[0])
    if c.get('kind') == 'DeclRefExpr':
        return (c.get('referencedDecl') or {}).get('name')
    return None


def call_args(call):
    return kids(call)[1:]


def ref_name(node):
    n = strip(node)
    if n is not None and n.get('kind') == 'DeclRefExpr':
        return (n.get('referencedDecl') or {}).get('name')
    return None


def loc_str(node):
    l = node.get('_loc') or node.get('_begin')
    if not l:
        return '?'
    f = l[0] or '?'
    s = '%s:%s' % (f, l[1])
    sp = node.get('_sloc')
    if sp and (sp[0], sp[1]) != (l[0], l[1]):
        s += ' (macro text at %s:%s)' % (sp[0], sp[1])
    return s


def line_of(node):
    l = node.get('_loc') or node.get('_begin')
    return l[1] if l else None


def file_of(node):
    l = node.get('_loc') or node.get('_begin')
    return l[0] if l else None


_INT_RANGES = {
    'char': (8, True), 'signed char': (8, True), 'unsigned char': (8, False),
    'short': (16, True), 'unsigned short': (16, False),
    'int': (32, True), 'unsigned int': (32, False),
    'long': (64, True), 'unsigned long': (64, False),
    'long long': (64, True), 'unsigned long long': (64, False),
    '_Bool': (8, False), '__int128': (128, True), 'unsigned __int128': (128, False),
}


def int_type_info(qt):
    """(bits, signed) of a desugared integer type name, or None"""
    q = qt.replace('const ', '').replace('volatile ', '').strip()
    if q.startswith('enum '):
        return (32, False)
    return _INT_RANGES.get(q)


def wrap_int(v, qt):
    info = int_type_info(qt)
    if info is None:
        return v
    bits, signed = info
    v &= (1 << bits) - 1
    if signed and v >= 1 << (bits - 1):
        v -= 1 << bits
    return v


def const_int(node, tu=None):
    """Evaluate an integer constant expression; None when not constant."""
    if node is None:
        return None
    k = node.get('kind')
    if k in ('ParenExpr', 'ConstantExpr'):
        ks = kids(node)
        if k == 'ConstantExpr' and 'value' in node:
            try:
                return int(node['value'])
            except ValueError:
                pass
        return const_int(ks[0], tu) if ks else None
    if k == 'IntegerLiteral':
        return int(node['value'])
    if k == 'CharacterLiteral':
        return int(node['value'])
    if k in ('ImplicitCastExpr', 'CStyleCastExpr'):
        v = const_int(kids(node)[0], tu)
        if v is None:
            return None
        if node.get('castKind') in ('IntegralCast', 'NoOp', 'LValueToRValue', 'IntegralToBoolean'):
            if node.get('castKind') == 'IntegralToBoolean':
                return int(v != 0)
            return wrap_int(v, qtype(node))
        return None
    if k == 'DeclRefExpr':
        rd = node.get('referencedDecl') or {}
        if rd.get('kind') == 'EnumConstantDecl' and tu is not None:
            return tu.enums.get(rd.get('name'))
        if rd.get('kind') == 'VarDecl' and tu is not None:
            vd = tu.byid.get(rd.get('id')) or tu.vars.get(rd.get('name'))
            if vd is not None and 'const' in qtype_sugar(vd):
                ini = [c for c in kids(vd)]
                if ini:
                    return const_int(ini[-1], tu)
        return None
    if k == 'UnaryOperator':
        v = const_int(kids(node)[0], tu)
        if v is None:
            return None
        op = node.get('opcode')
        if op == '-':
            return wrap_int(-v, qtype(node))
        if op == '+':
            return v
        if op == '~':
            return wrap_int(~v, qtype(node))
        if op == '!':
            return int(not v)
        return None
    if k == 'BinaryOperator':
        a = const_int(kids(node)[0], tu)
        b = const_int(kids(node)[1], tu)
        if a is None or b is None:
            return None
        op = node.get('opcode')
        try:
            if op == '+': r = a + b
            elif op == '-': r = a - b
            elif op == '*': r = a * b
            elif op == '/': r = int(a / b) if b else None
            elif op == '%': r = a - b * int(a / b) if b else None
            elif op == '<<': r = a << b
            elif op == '>>': r = a >> b
            elif op == '&': r = a & b
            elif op == '|': r = a | b
            elif op == '^': r = a ^ b
            elif op == '==': return int(a == b)
            elif op == '!=': return int(a != b)
            elif op == '<': return int(a < b)
            elif op == '>': return int(a > b)
            elif op == '<=': return int(a <= b)
            elif op == '>=': return int(a >= b)
            elif op == '&&': return int(bool(a) and bool(b))
            elif op == '||': return int(bool(a) or bool(b))
            else: return None
        except Exception:
            return None
        if r is None:
            return None
        return wrap_int(r, qtype(node))
    if k == 'UnaryExprOrTypeTraitExpr':
        return None
    return None


def string_value(node):
    """Python str of a StringLiteral node (through casts), else None"""
    n = strip(node, casts=True)
    if n is not None and n.get('kind') == 'StringLiteral':
        return c_unescape(n.get('value', '""'))
    return None


def c_unescape(lit):
    """'"a\\n"' -> 'a\n' (clang prints the literal with C escapes)"""
    s = lit
    if s.startswith('"') and s.endswith('"'):
        s = s[1:-1]
    out = []
    i = 0
    simple = {'n': '\n', 't': '\t', 'r': '\r', '0': '\0', '\\': '\\', '"': '"', "'": "'",
              'a': '\a', 'b': '\b', 'f': '\f', 'v': '\v', '?': '?'}
    while i < len(s):
        c = s[i]
        if c != '\\':
            out.append(c)
            i += 1
            continue
        i += 1
        c = s[i]
        if c == 'x':
            j = i + 1
            while j < len(s) and s[j] in '0123456789abcdefABCDEF':
                j += 1
            out.append(chr(int(s[i + 1:j], 16)))
            i = j
        elif c in '01234567':
            j = i
            while j < len(s) and j < i + 3 and s[j] in '01234567':
                j += 1
            out.append(chr(int(s[i:j], 8)))
            i = j
        else:
            out.append(simple.get(c, c))
            i += 1
    return ''.join(out)


def expr_text(node, depth=0):
    """compact C-like rendering of an expression (for reports only)"""
    if node is None or depth > 40:
        return '?'
    k = node.get('kind')
    ks = kids(node)
    if k in ('ImplicitCastExpr', 'ConstantExpr'):
        return expr_text(ks[0], depth + 1) if ks else '?'
    if k == 'ParenExpr':
        return '(' + expr_text(ks[0], depth + 1) + ')'
    if k == 'CStyleCastExpr':
        return '(' + qtype_sugar(node) + ')' + expr_text(ks[0], depth + 1)
    if k == 'DeclRefExpr':
        return (node.get('referencedDecl') or {}).get('name', '?')
    if k in ('IntegerLiteral', 'FloatingLiteral', 'CharacterLiteral'):
        return str(node.get('value'))
    if k == 'StringLiteral':
        return node.get('value', '')
    if k == 'MemberExpr':
        return expr_text(ks[0], depth + 1) + ('->' if node.get('isArrow') else '.') + node.get('name', '?')
    if k == 'ArraySubscriptExpr':
        return expr_text(ks[0], depth + 1) + '[' + expr_text(ks[1], depth + 1) + ']'
    if k == 'UnaryOperator':
        if node.get('isPostfix'):
            return expr_text(ks[0], depth + 1) + node.get('opcode', '')
        return node.get('opcode', '') + expr_text(ks[0], depth + 1)
    if k in ('BinaryOperator', 'CompoundAssignOperator'):
        return expr_text(ks[0], depth + 1) + ' ' + node.get('opcode', '?') + ' ' + expr_text(ks[1], depth + 1)
    if k == 'ConditionalOperator':
        return expr_text(ks[0], depth + 1) + ' ? ' + expr_text(ks[1], depth + 1) + ' : ' + expr_text(ks[2], depth + 1)
    if k == 'CallExpr':
        return expr_text(ks[0], depth + 1) + '(' + ', '.join(expr_text(a, depth + 1) for a in ks[1:]) + ')'
    if k == 'UnaryExprOrTypeTraitExpr':
        at = node.get('argType', {}).get('qualType')
        return node.get('name', 'sizeof') + '(' + (at if at else (expr_text(ks[0], depth + 1) if ks else '')) + ')'
    return k or '?'


_SRC_CACHE = {}


def token_at(tok):
    """source text of the token (file, offset, length) recorded for a node"""
    if not tok or tok[0] is None or tok[1] is None:
        return None
    f, off, ln = tok
    if f not in _SRC_CACHE:
        try:
            with open(f, 'rb') as fh:
                _SRC_CACHE[f] = fh.read()
        except OSError:
            return None
    return _SRC_CACHE[f][off:off + (ln or 0)].decode('latin-1')


def atomic_name(node):
    """builtin name of an AtomicExpr (clang 14's JSON omits it): the token at its spelling location"""
    return token_at(node.get('_tok'))
