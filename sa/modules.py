"""Concrete / symbolic WasmModule objects for partial evaluation of the module-level emitters of c.c."""
from . import emit, pe
from .pe import Ptr, unk

VT = emit.VT


def _leb(v, signed):
    out = []
    while True:
        b_ = v & 0x7F
        v >>= 7
        done = (v == 0 and not b_ & 0x40) or (v == -1 and b_ & 0x40) if signed else v == 0
        out.append(b_ | (0 if done else 0x80))
        if done:
            return out


def encode(tokens):
    """the bytes a WebAssembly binary holds for the scripted tokens (minimal LEB128) - for code that peeks at raw bytes"""
    out = []
    for t, v in tokens:
        if not isinstance(v, int):
            return None
        if t == 'byte':
            out.append(v & 0xFF)
        elif t in ('u32', 'u64'):
            out += _leb(v, False)
        elif t == 'i32':
            out += _leb(v - (1 << 32) if v >> 31 else v, True) if v >= 0 else _leb(v, True)
        elif t == 'i64':
            out += _leb(v - (1 << 64) if v >> 63 else v, True) if v >= 0 else _leb(v, True)
        elif t == 'f32':
            out += list((v & 0xFFFFFFFF).to_bytes(4, 'little'))
        elif t == 'f64':
            out += list((v & 0xFFFFFFFFFFFFFFFF).to_bytes(8, 'little'))
        else:
            return None
    return out


def buffer(tokens):
    """a Buffer value whose contents are scripted decoder tokens; `data` / `length` hold the corresponding bytes of the binary"""
    raw = encode(tokens)
    if raw is None:
        return {'data': Ptr([0], 0), 'length': len(tokens), '_tokens': tuple(tokens), '_pos': 0}
    return {'data': Ptr(raw + [0], 0), 'length': len(raw), '_tokens': tuple(tokens), '_pos': 0}


def i32_const(v):
    return buffer([('byte', 0x41), ('i32', v), ('byte', 0x0B)])


def i64_const(v):
    return buffer([('byte', 0x42), ('i64', v), ('byte', 0x0B)])


def global_get(idx):
    return buffer([('byte', 0x23), ('u32', idx), ('byte', 0x0B)])


def null_buffer():
    return {'data': 0, 'length': 0}


def arr(items, extra=0):
    return Ptr(list(items) + [0] * extra, 0) if items else 0


def build(it, types=(), func_imports=(), functions=(), globals_=(), global_imports=(), memories=(), memory_imports=(),
          tables=(), table_imports=(), data_segments=(), element_segments=(), exports=(), start=None, function_names=None):
    """types: [(params, results)]; func_imports: [(module, name, typeidx)]; functions: [typeidx or dict];
    globals_: [(valtype, mutable, init buffer)]; global_imports: [(module, name, valtype, mutable)];
    memories: [(min, max, shared)]; memory_imports: [(module, name, min, max, shared)]; tables likewise;
    data_segments: [(memoryIndex, offset buffer or None, nbytes, passive)];
    element_segments: [(tableIndex, offset buffer, [function indices])]; exports: [(name, kind, index)]"""
    m = it.zero_init('struct WasmModule')
    m['functionTypes'] = {'functionTypes': arr([emit.func_type(p, r) for p, r in types]), 'count': len(types)}
    fi = [{'module': a, 'name': b, 'functionTypeIndex': c} for a, b, c in func_imports]
    m['functionImports'] = {'length': len(fi), 'capacity': len(fi), 'imports': arr(fi)}
    fs = []
    for f in functions:
        fd = it.zero_init('struct WasmFunction')
        if isinstance(f, dict):
            fd.update(f)
        else:
            fd['functionTypeIndex'] = f
        fs.append(fd)
    m['functions'] = {'functions': arr(fs), 'count': len(fs)}
    gs = [{'type': {'valueType': VT[t], 'mutable': int(mu)}, 'init': init} for t, mu, init in globals_]
    m['globals'] = {'globals': arr(gs), 'count': len(gs)}
    gi = [{'module': a, 'name': b, 'globalType': {'valueType': VT[t], 'mutable': int(mu)}} for a, b, t, mu in global_imports]
    m['globalImports'] = {'length': len(gi), 'capacity': len(gi), 'imports': arr(gi)}
    ms = [{'min': a, 'max': b, 'shared': int(c)} for a, b, c in memories]
    m['memories'] = {'memories': arr(ms), 'count': len(ms)}
    mi = [{'module': a, 'name': b, 'min': c, 'max': d, 'shared': int(e)} for a, b, c, d, e in memory_imports]
    m['memoryImports'] = {'length': len(mi), 'capacity': len(mi), 'imports': arr(mi)}
    ts = [{'min': a, 'max': b, 'shared': int(c)} for a, b, c in tables]
    m['tables'] = {'tables': arr(ts), 'count': len(ts)}
    ti = [{'module': a, 'name': b, 'min': c, 'max': d, 'shared': int(e)} for a, b, c, d, e in table_imports]
    m['tableImports'] = {'length': len(ti), 'capacity': len(ti), 'imports': arr(ti)}
    ds = []
    for mem, off, nbytes, passive in data_segments:
        ds.append({'memoryIndex': mem, 'offset': off if off is not None else null_buffer(),
                   'bytes': {'data': Ptr(([7, 9] + [0] * nbytes)[:nbytes], 0), 'length': nbytes}, 'passive': int(passive)})
    m['dataSegments'] = {'dataSegments': arr(ds), 'count': len(ds)}
    es = [{'tableIndex': t, 'offset': off, 'functionIndexCount': len(ix), 'functionIndices': arr(ix)} for t, off, ix in element_segments]
    m['elementSegments'] = {'elementSegments': arr(es), 'count': len(es)}
    ex = [{'name': n, 'kind': k, 'index': i} for n, k, i in exports]
    m['exports'] = {'exports': arr(ex), 'count': len(ex)}
    if start is not None:
        m['hasStartFunction'] = 1
        m['startFunctionIndex'] = start
    names = function_names or []
    m['functionNames'] = {'length': len(names), 'capacity': len(names), 'names': arr(names)}
    return m
