"""Concrete evaluation of the linear-memory access functions of w2c2_base.h.

The functions are partially evaluated (sa.pe) with a *concrete* memory - a Python list of bytes behind wasmMemory.data - concrete
addresses and operands, and leafs that give the libc / compiler primitives their byte-level meaning on the analysed target
(little-endian object representation of the *host* is a parameter: `host_endian`).  The result is compared with the
WebAssembly semantics of the access (little-endian linear memory, sign/zero extension, wrap to the access width, old value of
read-modify-write).  Used as an independent second decision next to the structural rules of C05 / C16 / C19 and as the fallback
that turns an unrecognised shape into a refutation (with its witness) or an honest "not decided".
"""
import struct

from . import astdb, pe, ctyperules as ct
from .pe import Ptr, is_sym

MEM_SIZE = 64


class Unsupported(Exception):
    pass


def _pointee(interp, expr_node):
    """C type of the object an address argument points to (through casts): from the AST of the argument expression"""
    n = expr_node
    tu = interp.cur_tu
    # the outermost cast decides how the bytes are interpreted by an atomic builtin; for memcpy the innermost object type counts
    t = astdb.qtype(astdb.strip(n, casts=True)) or ''
    t = tu.desugar(t) if tu is not None else t
    t = t.replace('const ', '').replace('volatile ', '').strip()
    if t.endswith('*'):
        return t[:-1].strip()
    return None


def _outer_pointee(interp, expr_node):
    tu = interp.cur_tu
    t = astdb.qtype(expr_node) or ''
    t = tu.desugar(t) if tu is not None else t
    t = t.replace('const ', '').replace('volatile ', '').strip()
    return t[:-1].strip() if t.endswith('*') else None


def _to_bytes(v, ctype, endian):
    ti = ct.tinfo(ctype)
    if ti[0] == 'int':
        if not isinstance(v, int):
            raise Unsupported('non-concrete integer %r' % (v,))
        return list((v & ((1 << ti[1]) - 1)).to_bytes(ti[1] // 8, endian))
    if ti[0] == 'float' and ti[1] in (32, 64):
        if isinstance(v, tuple) and v[0] == 'fbits':
            return list(v[1].to_bytes(ti[1] // 8, endian))
        if isinstance(v, (int, float)):
            return list(struct.pack(('<' if endian == 'little' else '>') + ('f' if ti[1] == 32 else 'd'), float(v)))
    raise Unsupported('object of type %s' % ctype)


def _from_bytes(bs, ctype, endian):
    ti = ct.tinfo(ctype)
    if ti[0] == 'int':
        v = int.from_bytes(bytes(bs[:ti[1] // 8]), endian)
        if ti[2] and v >> (ti[1] - 1):
            v -= 1 << ti[1]
        return v
    if ti[0] == 'float' and ti[1] in (32, 64):
        return struct.unpack(('<' if endian == 'little' else '>') + ('f' if ti[1] == 32 else 'd'), bytes(bs[:ti[1] // 8]))[0]
    raise Unsupported('object of type %s' % ctype)


def leafs(host_endian):
    def read_obj(interp, p, node_arg, n):
        """n bytes starting at pointer p"""
        if isinstance(p, Ptr) and isinstance(p.c, list):
            out = []
            for i in range(n):
                b = interp.load(p.c, p.k + i)
                if not isinstance(b, int):
                    raise Unsupported('non-concrete memory byte')
                out.append(b & 0xFF)
            return out
        if isinstance(p, Ptr):
            ty = _pointee(interp, node_arg)
            if ty is None:
                raise Unsupported('copy from an object of unknown type')
            bs = _to_bytes(interp.load(p.c, p.k), ty, host_endian)
            if n > len(bs):
                raise Unsupported('copy of %d bytes out of a %d-byte object' % (n, len(bs)))
            return bs[:n]
        raise Unsupported('copy from %r' % (p,))

    def write_obj(interp, p, node_arg, bs):
        if isinstance(p, Ptr) and isinstance(p.c, list):
            for i, b in enumerate(bs):
                if not 0 <= p.k + i < len(p.c):
                    raise pe.OutOfBounds('write of byte %d outside the %d-byte memory' % (p.k + i, len(p.c)))
                p.c[p.k + i] = b
            return
        if isinstance(p, Ptr):
            ty = _pointee(interp, node_arg)
            if ty is None:
                raise Unsupported('copy into an object of unknown type')
            size = ct.tinfo(ty)[1] // 8 if ct.tinfo(ty)[0] in ('int', 'float') else None
            if size is None or len(bs) != size:
                raise Unsupported('copy of %d bytes into an object of type %s' % (len(bs), ty))
            interp.store(p.c, p.k, _from_bytes(bs, ty, host_endian))
            return
        raise Unsupported('copy to %r' % (p,))

    def memcpy(interp, args, node):
        a = astdb.call_args(node)
        n = args[2]
        if not isinstance(n, int):
            raise Unsupported('copy of symbolic length')
        bs = read_obj(interp, args[1], a[1], n)
        write_obj(interp, args[0], a[0], bs)
        return args[0]

    def memset(interp, args, node):
        a = astdb.call_args(node)
        if not isinstance(args[2], int) or not isinstance(args[1], int):
            raise Unsupported('memset with symbolic operands')
        write_obj(interp, args[0], a[0], [args[1] & 0xFF] * args[2])
        return args[0]

    def bswap(w):
        def f(interp, args, node):
            if not isinstance(args[0], int):
                raise Unsupported('byte swap of %r' % (args[0],))
            return int.from_bytes((args[0] & ((1 << w) - 1)).to_bytes(w // 8, 'little'), 'big')
        return f

    def atomic(interp, name, args, node):
        cargs = astdb.kids(node)        # AtomicExpr: pointer, order, operands... (clang's sub-expression order)
        ty = _outer_pointee(interp, cargs[0])
        ti = ct.tinfo(ty or '')
        if ti[0] != 'int':
            raise Unsupported('atomic builtin on %r' % ty)
        n = ti[1] // 8
        p = args[0]
        if not (isinstance(p, Ptr) and isinstance(p.c, list)):
            raise Unsupported('atomic builtin on a non-memory object')
        if p.k % n:
            interp.event('misaligned-atomic', (p.k, n), node)
        old = int.from_bytes(bytes(read_obj(interp, p, cargs[0], n)), host_endian)
        M = (1 << ti[1]) - 1

        def put(v):
            write_obj(interp, p, cargs[0], list((v & M).to_bytes(n, host_endian)))
        interp.event('atomic', (name,), node)
        if name == '__atomic_load_n':
            return old
        if name == '__atomic_store_n':
            put(args[2])
            return None
        if name == '__atomic_exchange_n':
            put(args[2])
            return old
        ops = {'__atomic_fetch_add': lambda x, y: x + y, '__atomic_fetch_sub': lambda x, y: x - y, '__atomic_fetch_and': lambda x, y: x & y,
               '__atomic_fetch_or': lambda x, y: x | y, '__atomic_fetch_xor': lambda x, y: x ^ y}
        if name in ops:
            if not isinstance(args[2], int):
                raise Unsupported('atomic operand %r' % (args[2],))
            put(ops[name](old, args[2] & M))
            return old
        if name == '__atomic_compare_exchange_n':
            exp = args[2]
            if not isinstance(exp, Ptr):
                raise Unsupported('compare-exchange expected pointer')
            e = interp.load(exp.c, exp.k)
            if not isinstance(e, int):
                raise Unsupported('compare-exchange expected value')
            if (e & M) == old:
                put(args[4])
                return 1
            interp.store(exp.c, exp.k, old)
            return 0
        if name == '__atomic_thread_fence':
            return None
        raise Unsupported('atomic builtin %s' % name)

    def ev(name):
        def f(interp, args, node):
            interp.event(name, (), node)
            return 0
        return f
    return {'memcpy': memcpy, '__builtin_memcpy': memcpy, 'memmove': memcpy, '__builtin_memmove': memcpy,
            'memset': memset, '__builtin_memset': memset,
            '__builtin_bswap16': bswap(16), '__builtin_bswap32': bswap(32), '__builtin_bswap64': bswap(64),
            '@atomic': atomic, 'pthread_mutex_lock': ev('lock'), 'pthread_mutex_unlock': ev('unlock'),
            'abort': pe.leaf_abort('abort'), '__assert_fail': pe.leaf_abort('assert')}


def run(htu, fname, memory, args, host_endian='little', shared=1):
    """evaluate fname(mem, *args) on the byte list `memory` (modified in place); -> (return value, events)"""
    it = pe.Interp([htu], leafs(host_endian), max_paths=8)
    it.cur_tu = htu
    it.strict_bounds = True
    it.strict_store_bounds = True
    if host_endian == 'big':
        it.union_endian = 'big'
    it.byte_lists = {id(memory): host_endian}     # typed accesses to the memory assemble objects in the host's byte order

    def setup():
        rec = it.zero_init('struct wasmMemory')
        rec['data'] = Ptr(memory, 0)
        rec['size'] = len(memory)
        rec['pages'] = 1
        rec['maxPages'] = 1
        rec['shared'] = shared
        if 'mutex' in rec:
            rec['mutex'] = {'_opaque': 1}
        return (fname, [Ptr({'v': rec}, 'v')] + list(args), {})
    ps = [p for p in it.explore(setup) if not p.aborted]
    if len(ps) != 1:
        raise Unsupported('%d paths on concrete operands' % len(ps))
    return ps[0].ret, ps[0].events


# ---- reference semantics ---------------------------------------------------------------------------------

def _bits(t):
    return 32 if t.endswith('32') else 64


def reference(row, memory, addr, operands):
    """WebAssembly semantics on a little-endian byte list.  -> (result bits or None, new memory list)"""
    sem = row['sem']
    cls = sem['cls']
    n = sem['access'] // 8
    mem = list(memory)
    W = _bits(sem['type'])
    old = int.from_bytes(bytes(mem[addr:addr + n]), 'little')
    Ma = (1 << sem['access']) - 1

    def put(v):
        mem[addr:addr + n] = list((v & Ma).to_bytes(n, 'little'))
    if cls in ('load', 'atomic.load'):
        v = old
        if sem.get('ext') == 's' and v >> (sem['access'] - 1):
            v |= ((1 << W) - 1) & ~Ma
        return v & ((1 << W) - 1), mem
    if cls in ('store', 'atomic.store'):
        put(operands[0])
        return None, mem
    if cls == 'atomic.rmw':
        v = operands[0] & Ma
        new = {'add': old + v, 'sub': old - v, 'and': old & v, 'or': old | v, 'xor': old ^ v, 'xchg': v}[sem['op']]
        put(new)
        return old, mem
    if cls == 'atomic.cmpxchg':
        if old == (operands[0] & Ma):
            put(operands[1])
        return old, mem
    raise Unsupported('class %s' % cls)


def value_bits(v, ctype):
    """bit pattern of a concrete C value of type ctype"""
    ti = ct.tinfo(ctype)
    if ti[0] == 'int' and isinstance(v, int):
        return v & ((1 << ti[1]) - 1)
    if ti[0] == 'float' and isinstance(v, (int, float)):
        return int.from_bytes(struct.pack('<f' if ti[1] == 32 else '<d', float(v)), 'little')
    raise Unsupported('result %r of type %s' % (v, ctype))


PATTERN = [(37 * i + 11) & 0xFF for i in range(MEM_SIZE)]
for _i in (8, 9, 10, 11, 12, 13, 14, 15):
    PATTERN[_i] = (0x80 | (_i * 7)) & 0xFF         # high bits set: sign extension matters
OPERANDS = {32: [0, 1, 0x80, 0xFF, 0x8000, 0xFFFF, 0x00AB1234, 0x80000001, 0xFFFFFFFF, 0x7FFFFFFF],
            64: [0, 1, 0x80, 0xFFFF, 0x00AB1234, 0x80000001, 0xFFFFFFFF, 0x100000000, 0x0123456789ABCDEF, 0xFFFFFFFFFFFFFFFF, 0x8000000000000000]}
FLOATS = {32: [0.0, 1.5, -2.25, 3.4028234663852886e+38, 1e-40], 64: [0.0, 1.5, -2.25, 1.7976931348623157e+308, 5e-324]}


def refute(htu, fname, row, host_endian='little', small=False):
    """first disagreement between the function and the specification on the concrete family, or None.
    Raises Unsupported when the function uses something the concrete evaluator does not model."""
    sem = row['sem']
    cls = sem['cls']
    n = sem['access'] // 8
    W = _bits(sem['type'])
    isf = sem['type'][0] == 'f'
    atomic = cls.startswith('atomic')
    addrs = [a for a in ((0, 8, 9, 11, 13, 16, MEM_SIZE - n) if not small else (8, 9, MEM_SIZE - n)) if not atomic or a % n == 0]
    f = htu.functions[fname]
    rtype = htu.desugar(astdb.qtype(f)).split('(')[0].strip()
    ps = astdb.fn_params(f)
    ptypes = [htu.desugar(astdb.qtype(p)) for p in ps]
    if cls in ('load', 'atomic.load'):
        opsets = [()]
    elif cls == 'atomic.cmpxchg':
        vals = OPERANDS[W][:6] if small else OPERANDS[W]
        # 'old': an expectation equal to the cell; 'old|high': equal in the access width with bits set above it (the expectation is
        # wrapped to the access width before the comparison: it matches, too)
        opsets = [(e, r) for e in vals[:5] + ['old'] + (['old|high'] if n * 8 < W else []) for r in (vals[2], vals[-1])]
    elif isf:
        opsets = [(x,) for x in FLOATS[W]]
    else:
        opsets = [(x,) for x in (OPERANDS[W][:6] if small else OPERANDS[W])]
    for addr in addrs:
        for ops in opsets:
            mem = list(PATTERN)
            ops_c = list(ops)
            if cls == 'atomic.cmpxchg' and ops_c[0] in ('old', 'old|high'):
                hi = (((1 << W) - 1) & ~((1 << (8 * n)) - 1) & 0xA5A5A5A5A5A5A5A5) if ops_c[0] == 'old|high' else 0
                ops_c[0] = int.from_bytes(bytes(mem[addr:addr + n]), 'little') | hi      # a matching expectation
            if isf and cls in ('store',):
                want_ops = [value_bits(ops_c[0], 'float' if W == 32 else 'double')]
            else:
                want_ops = ops_c
            want_ret, want_mem = reference(row, mem, addr, want_ops)
            got_mem = list(PATTERN)
            img = got_mem
            if host_endian == 'big':
                pass        # linear memory is little-endian whatever the host: the same image
            ret, _ev = run(htu, fname, img, [addr] + ops_c, host_endian)
            desc = '%s(addr=%d%s)' % (fname, addr, ''.join(', 0x%X' % o if isinstance(o, int) else ', %r' % o for o in ops_c))
            if img != want_mem:
                k = [i for i in range(MEM_SIZE) if img[i] != want_mem[i]][0]
                return '%s leaves memory byte %d = 0x%02X, specification 0x%02X (bytes %s, expected %s)' % (
                    desc, k, img[k], want_mem[k], ' '.join('%02x' % b for b in img[addr:addr + n]), ' '.join('%02x' % b for b in want_mem[addr:addr + n]))
            if want_ret is not None:
                if isf:
                    got = value_bits(ret, rtype)
                else:
                    if not isinstance(ret, int):
                        raise Unsupported('non-concrete result %r' % (ret,))
                    got = ret & ((1 << W) - 1)
                if got != want_ret:
                    return '%s returns 0x%X, specification 0x%X (memory bytes %s)' % (
                        desc, got, want_ret, ' '.join('%02x' % b for b in PATTERN[addr:addr + n]))
    return None
