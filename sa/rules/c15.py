"""C15  WASI process services: args, environment, clocks, randomness, exit, thread spawn.

R15.1  args/environ: the size call and the copy call walk the same vector with the same per-element size
       (strlen + 1); pointer array stride 4; each pointer stored is the running buffer address before the copy
R15.2  clocks: each WASI clock id maps to the same-named host clock; unknown ids give EINVAL without a native
       call; nanoseconds = sec * 10^9 + nsec computed in a 64-bit type; result stored as u64
R15.3  random_get respects API limits: every getentropy() request is at most 256 bytes and the chunks cover the
       whole buffer; a read() used as entropy source must loop until the requested count is reached
R15.4  proc_exit reaches exit(code) unconditionally
R15.5  thread-spawn: identifiers come from an atomic fetch-add on a counter that starts at 1; a missing
       wasi_thread_start export yields a negative value before anything is allocated; the start record is fully
       read before it is freed and the start function is called exactly once with the child instance obtained from
       instance->newChild(instance)
"""
from .. import astdb, pe, wasi as W, wasi_oracle as O, runtime, ctyperules as ct
from ..astdb import kids, walk, AnalysisBroken
from ..pe import Sym, Ptr, unk, is_sym
from .c13 import std_table
from .c12 import lin, offset_from

INVAL = 28
GETENTROPY_MAX = 256     # getentropy(3): "The maximum permitted value for the length argument is 256"


def vec_paths(tu, fname, strings, is_env, args):
    strs = ['<string-%d>' % i for i in range(len(strings))]

    def mk(it, st):
        return args
    leafs = {'strlen': lambda i, a, n: Sym('strlen', (pe._hashable(a[0]),), 'unsigned long')}
    st2 = {}
    it = W.make_interp(tu, st2, leafs)

    def setup():
        st2.clear()
        # wasiInit(argc, argv, envp) is given a count for the arguments: the array may go on after argv[argc-1] (a host that hands the
        # guest only the words before a separator), so the entries behind the count are not part of the vector; envp ends at its NULL
        W.seed_globals(it, tu, st2, std_table(0), argv=([] if is_env else strs), envp=(strs if is_env else []),
                       argv_tail=('<host word behind argc>', '<another>', 0))
        return (fname, args, {})
    return strs, it.explore(setup)


def check_vectors(chk, tu):
    eps = W.entry_points(tu)
    for kind, sizes_imp, get_imp in (('args', 'args_sizes_get', 'args_get'), ('environ', 'environ_sizes_get', 'environ_get')):
        is_env = kind == 'environ'
        for gen in ('preview1', 'unstable'):
            for n in ((0, 1, 3) if chk.tier == 'quick' else (0, 1, 2, 3, 4, 6)):
                cnt, size = unk('countptr', 'unsigned int'), unk('sizeptr', 'unsigned int')
                strs, paths = vec_paths(tu, eps[sizes_imp][gen]['name'], range(n), is_env, [unk('instance'), cnt, size])
                inst = '%s/%s[n=%d]' % (gen, kind, n)
                site = sizes_imp
                chk.require(len(paths) == 1, '%s has %d paths' % (sizes_imp, len(paths)))
                p = paths[0]
                st = {offset_from(a[1], cnt) == 0 and 'count' or (offset_from(a[1], size) == 0 and 'size' or '?'): (a[0], a[2])
                      for nm, a, l in p.events if nm == 'gstore'}
                okc = st.get('count', (0, None)) == (32, n) or (st.get('count', (0, None))[0] == 32 and lin(st['count'][1]) == {1: n})
                want = {Sym('strlen', (s,), 'unsigned long'): 1 for s in strs}
                want[1] = n
                got = lin(st['size'][1]) if 'size' in st else None
                got = {k: c for k, c in (got or {}).items() if c != 0 or k == 1}
                if n == 0:
                    want = {1: 0}
                oks = 'size' in st and st['size'][0] == 32 and got == want
                chk.expect(p.ret == 0 and okc, 'R15.1', inst + ':count', '%s stores count %r, expected %d as u32' % (sizes_imp, st.get('count'), n), site + ':count')
                chk.expect(oks, 'R15.1', inst + ':total-size',
                           '%s reports buffer size %r; expected the sum over all %d strings of strlen + 1 (the terminating NULs)'
                           % (sizes_imp, st.get('size', (None, None))[1], n), site + ':size')
                ptrs, buf = unk('ptrs', 'unsigned int'), unk('buf', 'unsigned int')
                strs, paths = vec_paths(tu, eps[get_imp][gen]['name'], range(n), is_env, [unk('instance'), ptrs, buf])
                if len(paths) != 1:
                    # the copy forks on a property of the strings (their length, say): not the single-path idiom - decided on the bytes
                    # that reach guest memory for concrete vectors (empty strings included), in guest memory that is not zero beforehand
                    bad = concrete_vector(tu, eps[get_imp][gen]['name'], is_env, n)
                    if bad:
                        chk.fail('R15.1', inst + ':copy', '%s (%d paths, not the strlen+memcpy shape) on a concrete vector: %s' % (get_imp, len(paths), bad),
                                 get_imp + ':copy')
                    else:
                        chk.undecide('%s has %d paths for a vector of %d symbolic strings; on concrete vectors the guest bytes are right' % (get_imp, len(paths), n))
                    continue
                p = paths[0]
                copies = [a for nm, a, l in p.events if nm == 'extern:memcpy']
                stores = [a for nm, a, l in p.events if nm == 'gstore']
                site = get_imp
                ok = len(copies) == n and len(stores) == n and p.ret == 0
                run = {1: 0}
                for k in range(n):
                    if not ok:
                        break
                    dst, src, ln = copies[k]
                    w, addr, val = stores[k]
                    from .c14 import _strip_data
                    d = lin(_strip_data(dst))
                    expect_addr = dict(run)
                    expect_addr[buf] = 1
                    okk = src == strs[k] and lin(ln) == {Sym('strlen', (strs[k],), 'unsigned long'): 1, 1: 1} and \
                        _norm(d) == _norm(expect_addr) and w == 32 and offset_from(addr, ptrs) == 4 * k and _norm(lin(val)) == _norm(expect_addr)
                    ok = ok and okk
                    run = dict(run)
                    run[Sym('strlen', (strs[k],), 'unsigned long')] = 1
                    run[1] = run.get(1, 0) + 1
                if not ok:
                    # not the strlen+memcpy shape (e.g. a hand-written copy loop): decide the bytes that reach guest memory on concrete
                    # vectors (empty strings, bytes >= 0x80, a long string) instead of the copying idiom
                    bad = concrete_vector(tu, eps[get_imp][gen]['name'], is_env, n)
                    chk.expect(not bad, 'R15.1', inst + ':copy', '%s (not the strlen+memcpy shape) on a concrete vector: %s' % (get_imp, bad),
                               site + ':copy')
                    continue
                chk.expect(ok, 'R15.1', inst + ':copy',
                           '%s: string k must be copied with its NUL (strlen+1 bytes) to buffer + sum of the previous sizes and that address '
                           'stored as u32 at pointers + 4k; got copies %r, stores %r' % (get_imp, [(repr(c[0])[:50], c[1], repr(c[2])) for c in copies],
                                                                                      [(s[0], repr(s[1])[:40], repr(s[2])[:50]) for s in stores]),
                           site + ':copy')


CONCRETE_STRINGS = ['', 'a', 'caf\xc3\xa9.txt', '\x01\x7f\x80\xff tail', 'K=v', 'x' * 300]


def concrete_vector(tu, fname, is_env, n):
    """run the copy call on concrete strings with a concrete byte-array guest memory; -> first discrepancy or None"""
    strs = [CONCRETE_STRINGS[(i * 2 + 1) % len(CONCRETE_STRINGS)] if n <= 3 else CONCRETE_STRINGS[i % len(CONCRETE_STRINGS)] for i in range(n)]
    if n == 3:
        strs = [CONCRETE_STRINGS[3], CONCRETE_STRINGS[0], CONCRETE_STRINGS[2]]
    PTRS, BUF, SIZE = 0x40, 0x100, 0x1000
    data = [0xEE] * SIZE
    st2 = {}

    def cpy(interp, args, node):
        d, s_, k = args
        if not (isinstance(d, Ptr) and isinstance(k, int)):
            raise pe.PEError('copy with symbolic destination/length')
        for i in range(k):
            b_ = (ord(s_[i]) if i < len(s_) else 0) if isinstance(s_, str) else interp.load(s_.c, s_.k + i)
            interp.store(d.c, d.k + i, b_ & 0xFF)
        return d

    def i32_store(interp, args, node):
        m, addr, v = args
        if not (isinstance(addr, int) and isinstance(v, int)):
            raise pe.PEError('i32_store with symbolic operands')
        for i in range(4):
            data[addr + i] = (v >> (8 * i)) & 0xFF
        return None
    leafs = {'memcpy': cpy, '__builtin_memcpy': cpy, 'memmove': cpy, 'i32_store': i32_store,
             'strcpy': lambda i, a, nd: cpy(i, [a[0], a[1], (len(a[1]) if isinstance(a[1], str) else 0) + 1], nd),
             'strlen': lambda i, a, nd: len(a[0]) if isinstance(a[0], str) else (_ for _ in ()).throw(pe.PEError('strlen of non-string'))}
    it = W.make_interp(tu, st2, leafs)
    it.strict_store_bounds = True

    def setup():
        st2.clear()
        W.seed_globals(it, tu, st2, std_table(0), argv=([] if is_env else strs), envp=(strs if is_env else []),
                       argv_tail=('<host word behind argc>', 0))
        st2['memcell']['v']['data'] = Ptr(data, 0)
        return (fname, [unk('instance'), PTRS, BUF], {})
    try:
        paths = it.explore(setup)
    except pe.PEError as e:
        raise AnalysisBroken('%s on a concrete vector: %s' % (fname, e))
    if len(paths) != 1 or paths[0].ret != 0:
        return '%d paths / return %r' % (len(paths), paths[0].ret if paths else None)
    want = list([0xEE] * SIZE)
    off = BUF
    for k, s_ in enumerate(strs):
        for i in range(4):
            want[PTRS + 4 * k + i] = (off >> (8 * i)) & 0xFF
        for i, ch in enumerate(s_):
            want[off + i] = ord(ch)
        want[off + len(s_)] = 0
        off += len(s_) + 1
    if data != want:
        k = [i for i in range(SIZE) if data[i] != want[i]][0]
        where = 'pointer array' if k < BUF else 'string buffer offset %d' % (k - BUF)
        return 'guest byte 0x%X (%s) is 0x%02X, expected 0x%02X for the vector %r' % (k, where, data[k] if isinstance(data[k], int) else -1,
                                                                                    want[k], [x[:12] for x in strs])
    return None


def _norm(f):
    return {k: c for k, c in (f or {}).items() if c != 0}


def check_clocks(chk, tu):
    eps = W.entry_points(tu)
    macros = W.host_macros(('CLOCK_',))
    res = unk('result')
    for gen in ('preview1', 'unstable'):
        f = eps['clock_time_get'][gen]
        # the clock id is any u32: unknown ids include those whose low 8 / 16 bits are a known id (an id narrowed on its way to the switch)
        for cid in (0, 1, 2, 3, 4, 77, 0x100, 0x101, 0x10002, 0x80000003, 0xFFFFFF00, 0xFFFFFFFF):
            paths = W.explore_entry(tu, f['name'], lambda it, st: [unk('instance'), cid, unk('precision', 'unsigned long long'),
                                                                 unk('result', 'unsigned int')], lambda: std_table(0), errno_value=5)
            inst = '%s/clock_time_get[id=%d]' % (gen, cid)
            site = 'clock_time_get'
            want = macros.get(O.CLOCKS.get(cid, ''), None)
            for p in paths:
                calls = [a for nm, a, l in p.events if nm == 'extern:clock_gettime']
                if want is None:
                    chk.expect(p.ret == INVAL and not calls, 'R15.2', inst + ':invalid-id',
                               'clock id %d is not rejected with EINVAL (returns %r, native calls %r)' % (cid, p.ret, calls), site + ':invalid-id')
                    continue
                chk.expect(len(calls) == 1 and calls[0][0] == want, 'R15.2', inst + ':host-clock',
                           'WASI clock %d is read with clock_gettime(%r); expected %s (= %d)' % (cid, calls[0][0] if calls else None, O.CLOCKS[cid], want),
                           site + ':clock-map')
                if p.ret == 0:
                    gst = [(a[0], offset_from(a[1], res), a[2]) for nm, a, l in p.events if nm == 'gstore']
                    ok = len(gst) == 1 and gst[0][0] == 64 and gst[0][1] == 0
                    val = gst[0][2] if gst else None
                    f2 = lin(val) if val is not None else None
                    secs = [k for k in (f2 or {}) if is_sym(k) and 'tv_sec' in repr(k)]
                    nsecs = [k for k in (f2 or {}) if is_sym(k) and 'tv_nsec' in repr(k)]
                    ok = ok and len(secs) == 1 and len(nsecs) == 1 and f2[secs[0]] == 1000000000 and f2[nsecs[0]] == 1
                    wide = all(ct.tinfo(s.ctype)[1] == 64 for s in pe.sym_walk(val) if is_sym(s) and s.op == '*') if val is not None else False
                    chk.expect(ok and wide, 'R15.2', inst + ':nanoseconds',
                               'time is stored as %r (linear form %r); expected tv_sec * 10^9 + tv_nsec computed in 64 bits and stored as u64'
                               % (val, f2), site + ':nanoseconds')


def check_random(chk, tu):
    eps = W.entry_points(tu)
    buf, ln = unk('buf', 'unsigned int'), unk('len', 'unsigned int')
    for gen in ('preview1', 'unstable'):
        f = eps['random_get'][gen]
        def getentropy(interp, args, node):
            interp.event('extern:getentropy', tuple(pe._hashable(a) for a in args), node)
            interp._ncall += 1
            # getentropy(3) returns 0 or -1 (errno set)
            return 0 if interp.decide(unk('getentropy-ok-%d' % interp._ncall), node) else -1
        paths = W.explore_entry(tu, f['name'], lambda it, st: [unk('instance'), buf, ln], lambda: std_table(0), errno_value=5, max_paths=4000,
                                extra_leafs={'getentropy': getentropy})
        paths = [p for p in paths if not _infeasible(p)]
        site = 'random_get'
        n_calls = 0
        over = []
        for p in paths:
            known_le = {}
            for c, t, _ in p.decisions:
                c0 = pe.norm_cond(c)
                if len(c0.args) == 2 and isinstance(c0.args[1], int):
                    a = pe.strip_casts(c0.args[0])
                    if (c0.op == '>' and not t) or (c0.op == '<=' and t):
                        known_le[a] = min(known_le.get(a, 1 << 62), c0.args[1])
                    if (c0.op == '<' and t) or (c0.op == '>=' and not t):
                        known_le[a] = min(known_le.get(a, 1 << 62), c0.args[1] - 1)
            for nm, a, l in p.events:
                if nm == 'extern:getentropy':
                    n_calls += 1
                    size = a[1]
                    s0 = pe.strip_casts(size) if is_sym(size) else size
                    bound = size if isinstance(size, int) else known_le.get(s0)
                    if bound is None and is_sym(s0) and s0.op == '%' and len(s0.args) == 2 and isinstance(s0.args[1], int) and s0.args[1] > 0:
                        bound = s0.args[1] - 1          # x % C < C for the unsigned lengths used here
                    if bound is None or bound > GETENTROPY_MAX:
                        over.append((size, l, p.cond_text()[:100]))
        chk.require(n_calls >= 1, 'random_get never calls getentropy (HAS_GETENTROPY build)')
        chk.expect(not over, 'R15.3', '%s/random_get:getentropy-limit' % gen,
                   'getentropy() is called with length %r, which no guard bounds by %d: requests above 256 bytes fail with EIO although '
                   'random_get must succeed for any length' % (over[0][0] if over else None, GETENTROPY_MAX), site + ':getentropy-limit',
                   over[0][1] if over else None)
        # coverage: a SUCCESS return must follow a failed continuation test (offset < len is false) or a single full-length request
        for p in paths:
            if p.ret != 0 or p.aborted:
                continue
            ge = [a for nm, a, l in p.events if nm == 'extern:getentropy']
            if not ge:
                continue
            total = {1: 0}
            for a in ge:
                f2 = lin(a[1])
                for k, c in (f2 or {}).items():
                    total[k] = total.get(k, 0) + c
            full = _norm(total) == {ln: 1}
            ended = any(pe.norm_cond(c).op == '<' and not t and pe.strip_casts(pe.norm_cond(c).args[1]) == ln for c, t, _ in p.decisions)
            chk.expect(full or ended, 'R15.3', '%s/random_get:covers-request[%s]' % (gen, p.cond_text()[:50]),
                       'random_get returns SUCCESS after requesting %r bytes in total without having established that the whole buffer '
                       '(len) is filled' % (total,), site + ':coverage')


def _infeasible(p):
    """a path that takes (a < b) although a and b are the same linear form (the simplifier-free PE cannot see it)"""
    for c, t, _ in p.decisions:
        c0 = pe.norm_cond(c)
        if c0.op in ('<', '>') and t and len(c0.args) == 2:
            la, lb = lin(c0.args[0]), lin(c0.args[1])
            if la is not None and lb is not None and _norm(la) == _norm(lb):
                return True
    return False


def check_exit(chk, tu):
    eps = W.entry_points(tu)
    for gen in ('preview1', 'unstable'):
        f = eps['proc_exit'][gen]
        paths = W.explore_entry(tu, f['name'], lambda it, st: [unk('instance'), unk('code', 'unsigned int')], lambda: std_table(0))
        ok = len(paths) == 1 and paths[0].aborted == 'exit' and any(nm == 'exit' and pe.strip_casts(a[0]) == unk('code') for nm, a, l in paths[0].events)
        chk.expect(ok, 'R15.4', '%s/proc_exit' % gen, 'proc_exit does not unconditionally call exit(code): %r'
                   % ([(p.aborted, p.ret) for p in paths],), 'proc_exit')


def check_spawn(chk, tu):
    site = 'thread-spawn'
    chk.fn('wasi__threadX2Dspawn')
    entry_name = [None]      # the thread start routine: whatever function pthread_create receives (found on the spawn paths below)
    # static counter starts at 1
    f = tu.fn('wasi__threadX2Dspawn')
    init = None
    for n in walk(astdb.fn_body(f)):
        if n.get('kind') == 'VarDecl' and n.get('storageClass') == 'static':
            ini = [c for c in kids(n) if c.get('kind')]
            init = (n.get('name'), astdb.const_int(ini[-1], tu) if ini else None)
    chk.expect(init is not None and init[1] == 1, 'R15.5', 'counter-starts-at-1', 'thread id counter initial value is %r, identifiers must be positive'
               % (init,), site + ':counter')
    for has_export in (True, False):
        st2 = {}
        created = []
        leafs = {}

        def calloc(interp, args, node):
            interp.event('calloc', tuple(pe._hashable(a) for a in args), node)
            if not interp.decide(unk('alloc-ok'), node):
                return 0
            rec = {'instance': 0, 'startArg': 0, 'threadID': 0, 'startFunc': 0}
            st2['rec'] = rec
            interp.path.state['rec'] = rec
            return Ptr({'v': rec}, 'v')

        def atomic(interp, name, args, node):
            interp.event('atomic', (name,) + tuple(pe._hashable(a) for a in args), node)
            return Sym('atomic-old', (name,), 'unsigned int')

        def pcreate(interp, args, node):
            interp.event('pthread_create', tuple(pe._hashable(a) for a in args), node)
            return unk('pthread_create-result', 'int')

        def strcmp(interp, args, node):
            a, b = args[0], args[1]
            if isinstance(a, str) and isinstance(b, str):
                return (a > b) - (a < b)
            return Sym('call', ('strcmp',))

        def strncmp(interp, args, node):
            a, b, n_ = args[0], args[1], args[2]
            if isinstance(a, str) and isinstance(b, str) and isinstance(n_, int):
                a2, b2 = (a + '\0')[:n_], (b + '\0')[:n_]
                return (a2 > b2) - (a2 < b2)
            return Sym('call', ('strncmp',))
        leafs.update({'calloc': calloc, '@atomic': atomic, 'pthread_create': pcreate, 'strcmp': strcmp, 'strncmp': strncmp,
                      'memcmp': strncmp})
        it = W.make_interp(tu, st2, leafs)
        start = pe.FuncRef('mod_wasi_thread_start')

        def setup():
            st2.clear()
            W.seed_globals(it, tu, st2, std_table(0))
            exports = [{'func': pe.FuncRef('mod_other'), 'name': 'other'},
                       {'func': pe.FuncRef('mod_lookalike1'), 'name': 'wasi_thread_start_hook'},
                       {'func': pe.FuncRef('mod_lookalike2'), 'name': 'wasi_thread_star'},
                       {'func': pe.FuncRef('mod_lookalike3'), 'name': '_wasi_thread_start'}]
            if has_export:
                exports.append({'func': start, 'name': 'wasi_thread_start'})
            exports.append({'func': 0, 'name': 0})
            inst = {'funcExports': Ptr(exports, 0), 'resolveImports': 0, 'newChild': pe.FuncRef('modNewChild')}
            return ('wasi__threadX2Dspawn', [Ptr({'v': inst}, 'v'), unk('startArg', 'unsigned int')], {'inst': inst})
        paths = it.explore(setup)
        for p in paths:
            names = [e[0] for e in p.events]
            if not has_export:
                neg = isinstance(p.ret, int) and (p.ret & 0x80000000) != 0
                chk.expect(neg and 'calloc' not in names and 'pthread_create' not in names, 'R15.5', 'missing-export-is-negative',
                           'without a wasi_thread_start export (only look-alikes wasi_thread_start_hook, wasi_thread_star, _wasi_thread_start) '
                           'thread-spawn returns %r after %r' % (p.ret, names), site + ':missing-export')
                continue
            if 'pthread_create' not in names:
                chk.expect(isinstance(p.ret, int) and p.ret & 0x80000000, 'R15.5', 'no-thread-negative[%s]' % p.cond_text()[:40],
                           'returns %r although no thread was started' % (p.ret,), site + ':failure')
                continue
            at = [a for nm, a, l in p.events if nm == 'atomic']
            ok_id = len(at) == 1 and at[0][0] == '__atomic_fetch_add' and at[0][3] == 1
            chk.expect(ok_id, 'R15.5', 'atomic-identifier', 'thread identifier is produced by %r; expected one atomic fetch-add of 1' % (at,), site + ':identifier')
            rec = p.state.get('rec') or {}
            child = [nm for nm in names if nm == 'extern:modNewChild']
            okrec = rec.get('startFunc') == start and is_sym(rec.get('threadID')) and rec['threadID'].op == 'atomic-old' and \
                pe.strip_casts(rec.get('startArg')) == unk('startArg') and is_sym(rec.get('instance')) and rec['instance'].op == 'call' \
                and rec['instance'].args[0] == 'modNewChild'
            chk.expect(okrec and len(child) == 1, 'R15.5', 'start-record',
                       'start record is %r; expected {instance: newChild(instance), startArg, threadID: fetched id, startFunc: the export}'
                       % ({k: repr(v)[:40] for k, v in rec.items()},), site + ':record')
            pc = [a for nm, a, l in p.events if nm == 'pthread_create']
            is_fn = len(pc) == 1 and isinstance(pc[0][2], pe.FuncRef) and pc[0][2].name in tu.functions and \
                (astdb.file_of(tu.functions[pc[0][2].name]) or '').endswith('wasi.c')
            chk.expect(is_fn, 'R15.5', 'thread-entry', 'pthread_create%r: the start routine is not a function of wasi.c' % (pc,), site + ':entry')
            if is_fn:
                if entry_name[0] not in (None, pc[0][2].name):
                    raise AnalysisBroken('thread-spawn starts threads with two different routines: %s and %s' % (entry_name[0], pc[0][2].name))
                entry_name[0] = pc[0][2].name
            created_ok = any(pe.norm_cond(c).op in ('==', '!=') and any(s.op == 'unk' and s.args[0] == 'pthread_create-result' for s in pe.sym_walk(c))
                             for c, t, _ in p.decisions)
            if isinstance(p.ret, int):
                continue
            chk.expect(is_sym(p.ret) and pe.strip_casts(p.ret).op == 'atomic-old', 'R15.5', 'returns-identifier',
                       'thread-spawn returns %r, expected the fetched identifier' % (p.ret,), site + ':return')
    # thread body: read everything, free, then call start exactly once with (instance, id, arg)
    st3 = {}
    it = W.make_interp(tu, st3, {})

    def setup2():
        st3.clear()
        W.seed_globals(it, tu, st3, std_table(0))
        rec = runtime.Traced(it, 'arg', {'instance': unk('child'), 'startArg': unk('sarg'), 'threadID': unk('tid'),
                                         'startFunc': pe.FuncRef('mod_wasi_thread_start')})
        cell = {'v': rec}
        st3['argptr'] = Ptr(cell, 'v')
        return (entry_name[0], [st3['argptr']], {})
    chk.require(entry_name[0] is not None, 'no spawn path reaches pthread_create with a start routine')
    chk.fn(entry_name[0])
    paths = it.explore(setup2)
    chk.require(len(paths) == 1, '%s has %d paths' % (entry_name[0], len(paths)))
    ev = paths[0].events
    names = [e[0] for e in ev]
    fr = [i for i, e in enumerate(ev) if e[0] == 'extern:free']
    reads_after = [e for i, e in enumerate(ev) if fr and i > fr[0] and e[0] in ('read', 'write') and e[1][0] == 'arg']
    calls = [e for e in ev if e[0] == 'extern:mod_wasi_thread_start']
    ok = len(fr) == 1 and not reads_after and len(calls) == 1 and calls[0][1] == (unk('child'), unk('tid'), unk('sarg'))
    chk.expect(ok, 'R15.5', 'thread-body',
                'thread body: frees %d times, %d accesses to the start record after free, start calls %r; expected one free after all four '
                'fields are read and exactly one start(instance, id, arg)' % (len(fr), len(reads_after), [c[1] for c in calls]), site + ':body')


def run(chk):
    chk.explanation = (
        'Path summaries of the process-service imports by partial evaluation: symbolic argument/environment strings give the size and copy '
        'calls as linear forms over strlen(s_k) that must agree; clock ids are evaluated against the host CLOCK_* macros read on this run and the '
        'nanosecond expression is checked as a linear form computed in 64 bits; every getentropy() length must be bounded by 256 through a guard of '
        'its path and the chunks must add up to the request; proc_exit must reach exit(code); thread-spawn is summarised with and without the '
        'required export and the thread body is checked for read-before-free and exactly-one start call. Clock monotonicity, randomness quality '
        'and scheduling are not decided.')
    chk.assumptions = ['getentropy(3) accepts at most 256 bytes per call (glibc, BSDs)', 'exit() does not return',
                       'atomic fetch-add yields distinct values across threads']
    tu = W.wasi_tu()
    chk.unit(tu)
    check_vectors(chk, tu)
    check_clocks(chk, tu)
    check_random(chk, tu)
    check_exit(chk, tu)
    check_spawn(chk, tu)
    # thread-spawn obtains its instance from instance->newChild(instance) and the spawned thread may spawn again: the generated
    # NewChild must hand every member of the common record on to the child (rule shared with C06)
    from . import c06
    from .. import emit
    c06.check_common_record(chk, emit.translator_tus(('c.c', 'opcode.c', 'instruction.c'), chk=chk), 'R15.5')
    # R15.6: the instance wasi_thread_start runs on shares the parent's shared memories - every module-defined shared memory of the
    # child is the parent's descriptor, whatever its position in the memory index space (rule shared with C18 R18.4 / C16 R16.6)
    c06.check_shared_descriptor(chk, emit.translator_tus(('c.c', 'opcode.c', 'instruction.c'), chk=chk), 'R15.6')
    chk.floor('R15.6', 8)
    chk.floor('R15.1', 30)
    chk.floor('R15.2', 12)
    chk.floor('R15.3', 2)
    chk.floor('R15.4', 2)
    chk.floor('R15.5', 6)
