"""C05  Linear-memory instructions read and write the specified bytes.

R05.1  load/store rows: the runtime function reached from each template copies exactly the access width
       (alignment-tolerant byte copy), extends with the row's signedness, stores the wrapped low bits
R05.2  effective address: 64-bit unsigned base+offset; the decoded offset reaches the text (memarg use)
R05.3  memory.grow: guard structure (wrap test, maximum test), failed grows store nothing, new tail zeroed
R05.4  bulk: memory.copy -> overlap-safe copy, memory.fill -> memset, memory.init -> LOAD_DATA, operand roles;
       memory.size reads the page count
"""
from .. import astdb, pe, emit, oracle, templates, runtime, ctyperules as ct, semrules as sr, memrules as mr
from ..astdb import AnalysisBroken
from ..pe import Sym, Ptr, unk, is_sym
from . import c01, c06

PAGE = 65536


def mem_rows():
    return [r for r in oracle.ROWS if r['sem'].get('cls') in ('load', 'store')]


def check_access_rows(chk, it, tabs, rows, configs, rule_rt, rule_ea, rt_check, header_cfg='le'):
    """shared by C05 (plain) and C16 (atomic): templates + runtime summaries"""
    htu = runtime.header(header_cfg)
    chk.unit(htu)
    harness = templates.Harness(base_flags=['-DWASM_THREADS_PTHREADS'])
    plan = []
    base = len(mr.FILLER)
    for row in rows:
        nm = row['name']
        site = 'emitter/' + nm
        try:
            mt = mr.extract_mem(it, row, tabs, configs)
        except emit.ScriptMismatch as e:
            # the alignment/offset immediates are u32 LEB128 values; a decoder of another kind is decided on bytes (emit.decide_mismatch)
            emit.decide_mismatch(chk, rule_ea, nm + ':memarg-decoders', e, site, '%s: ' % nm)
            continue
        if not mt.variants:
            chk.fail(rule_ea, nm + ':emits', 'no successful emission path for %s' % nm, site)
            continue
        if not mr.check_memarg_use(chk, rule_ea, row, mt, site):
            pass
        per_key = {}
        for key, t in sorted(mt.all, key=lambda kt: kt[0]):
            text = t.text()
            if t.has_unknown_parts():
                # e.g. the offset printed through another formatter: not comparable symbolically; the boundary offsets below decide
                chk.undecide('template of %s has parts the symbolic comparison cannot resolve: %r' % (nm, text.strip()))
                continue
            k_ = per_key.get(key, 0)        # an emitter may choose among several runtime functions on the alignment hint: each is checked
            per_key[key] = k_ + 1
            fname = 'M_%s_p%d_m%d_%s%s' % (nm.replace('.', '_'), key[0], key[1], key[2].replace('-', '_'), '_%d' % k_ if k_ else '')
            harness.add(fname, text)
            plan.append((row, key, fname, t, text))
            want_after = mr.FILLER + row['results']
            chk.expect(t.stack_after == want_after, rule_ea, '%s%r:stack' % (nm, key),
                       'type stack after %s is %r, specification: %r' % (nm, t.stack_after, want_after), site)
            if row['results']:
                chk.expect(row['results'][0] in t.decls.get(base, set()), rule_ea, '%s%r:decl' % (nm, key),
                           'result slot of %s is not declared (%r)' % (nm, t.decls), site)
            if key[0] == 0 and key[1] == 0:
                chk.sample(dict(op=nm, variant=key[2], template=text.strip()))
    check_boundary_offsets(chk, it, tabs, rows, rule_ea)
    tu = harness.parse('mem-' + header_cfg)
    chk.unit(tu)
    callees = {}
    for row, key, fname, t, text in plan:
        nm = row['name']
        site = 'emitter/' + nm
        dst, call, casts = mr.parse_call_template(tu, fname)
        inst = '%s%r' % (nm, key)
        ops = [mr.slot(tabs, ty, base + k) for k, ty in enumerate(row['params'])]
        if row['results']:
            rs = mr.slot(tabs, row['results'][0], base)
            chk.expect(dst is not None and dst.k == 'var' and dst.x == rs, rule_ea, inst + ':dest',
                       'result of %s is written to %r, the new top of the stack is %s' % (nm, dst, rs), site)
        else:
            chk.expect(dst is None, rule_ea, inst + ':dest', '%s assigns a result' % nm, site)
        args = list(call.a)
        chk.expect(len(args) == 1 + len(ops) and mr.mem_ref_ok(args[0]), rule_ea, inst + ':memory',
                   '%s: first argument %r is not the instance memory i->m0 / argument count %d' % (nm, args[0] if args else None, len(args)),
                   site)
        if len(args) >= 2:
            probs = mr.ea_problems(args[1], ops[0], key[2] in ('off', 'always-off'))
            for p in probs:
                chk.fail(rule_ea, inst + ':address', '%s: %s   [template: %s]' % (nm, p, text.strip()), site, call.loc())
            if not probs:
                chk.ok(rule_ea, inst + ':address', repr(args[1]))
        for k, a in enumerate(args[2:]):
            want = ops[1 + k]
            a0 = a
            while a0.k == 'cast' and ct.tinfo(a0.ty) == ct.tinfo(a0.a[0].ty):
                a0 = a0.a[0]
            chk.expect(a0.k == 'var' and a0.x == want, rule_ea, inst + ':operand%d' % (k + 1),
                       '%s: operand %d is %r, expected %s (operands are passed deeper-first)' % (nm, k + 1, a, want), site, call.loc())
        callees.setdefault(call.x, []).append(row)
    for fn, rws in sorted(callees.items()):
        summ = mr.summarize_access(htu, fn)
        row = rws[0]
        site = 'runtime/' + fn
        if summ is None:
            chk.fail(rule_rt, row['name'] + ':callee', 'template calls %s, which w2c2_base.h does not define' % fn, site)
            continue
        chk.fn(fn)
        for row in {r['name']: r for r in rws}.values():
            rt_check(chk, rule_rt, row, summ, site, htu)
            # independent second decision: the function evaluated on concrete memory bytes, addresses (aligned and not) and operands
            # against the byte-level specification of the access
            from .. import concrete_mem as cm
            try:
                bad = cm.refute(htu, fn, row, 'little' if header_cfg == 'le' else 'big', small=chk.tier != 'thorough')
            except cm.Unsupported as e:
                chk.note('%s: concrete evaluation not applicable (%s)' % (fn, e))
                continue
            except pe.PEError as e:
                bad = 'cannot be evaluated on concrete operands: %s' % e
            chk.expect(not bad, rule_rt, '%s@concrete' % row['name'], '%s: %s' % (row['name'], bad), site + ':bytes',
                       detail_ok='agrees with the byte-level specification on the concrete family')
    return tu


BOUNDARY_OFFSETS = (1, 0x7FFFFFFF, 0x80000000, 0x80000010, 0xFFFFFFFF)


def check_boundary_offsets(chk, it, tabs, rows, rule):
    """the static offset is any u32: every access is emitted with the concrete offsets 1, 2^31-1, 2^31, 2^31+16 and 2^32-1 and the address
    argument of the emitted call is evaluated (C semantics of the target, 64-bit) for the base addresses 0x10 and 0xFFFFFFFF: it must be
    base + offset without wrap-around - however the translator prints the number (an offset printed through a signed formatter, or
    without the unsigned suffix, is a negative or int-typed literal from 2^31 on)"""
    harness = templates.Harness(base_flags=['-DWASM_THREADS_PTHREADS'])
    base = len(mr.FILLER)
    plan = []
    for row in rows:
        nm = row['name']
        acc = row['sem'].get('access')
        for off in BOUNDARY_OFFSETS:
            stack = mr.FILLER + row['params']
            try:
                tpls = [t for t in templates.extract(it, row, stack, 0, 0, imm={'align': oracle.natural_align(acc) if acc else 0, 'offset': off})
                        if t.ok and t.parts]
            except (emit.ScriptMismatch, pe.PEError):
                continue        # reported by the symbolic comparison
            for k_, t in enumerate(tpls):
                if t.has_unknown_parts():
                    continue
                fname = 'B_%s_%x_%d' % (nm.replace('.', '_'), off, k_)
                harness.add(fname, t.text())
                plan.append((row, off, fname, t.text()))
    if not plan:
        return
    tu = harness.parse('mem-boundary')
    chk.unit(tu)
    for row, off, fname, text in plan:
        nm = row['name']
        try:
            dst, call, casts = mr.parse_call_template(tu, fname)
        except AnalysisBroken:
            continue
        if len(call.a) < 2:
            continue
        aslot = mr.slot(tabs, row['params'][0], base)
        for b_ in (0x10, 0xFFFFFFFF):
            try:
                got = ct.ieval(call.a[1], {aslot: b_})
            except (ct.EvalTrap, ct.EvalUB, ct.EvalUnknown) as e:
                got = 'not evaluable (%s)' % e
            chk.expect(got == b_ + off, rule, '%s:offset-%#x:base-%#x' % (nm, off, b_),
                       '%s with static offset %#x: the emitted address argument %r evaluates to %s for the address operand %#x; the '
                       'specification\'s effective address is %#x (base + offset, no wrap-around)   [template: %s]'
                       % (nm, off, call.a[1], ('%#x' % got) if isinstance(got, int) else got, b_, b_ + off, text.strip()),
                       'emitter/' + nm + ':offset-literal')


def plain_rt_check(chk, rule, row, summ, site, htu):
    if row['sem']['cls'] == 'load':
        mr.check_plain_load(chk, rule, row, summ, site, 'le')
    else:
        mr.check_plain_store(chk, rule, row, summ, site, 'le')


def check_grow(chk):
    htu = runtime.header('le')
    delta = unk('delta', 'unsigned int')

    def mk(it):
        mem = {'v': runtime.memory_record(it)}
        return [Ptr(mem, 'v'), delta], {'mem': mem['v']}
    paths = runtime.summarize(htu, 'wasmMemoryGrow', mk)
    chk.fn('wasmMemoryGrow')
    site = 'wasmMemoryGrow'
    pages, maxp = unk('pages'), unk('maxPages')
    FAIL = 0xFFFFFFFF
    n_ok = n_fail = 0
    for p in paths:
        if p.aborted:
            continue
        writes = [e for e in p.events if e[0] == 'write' and e[1][1] in ('pages', 'size', 'data')]
        cond = p.cond_text()
        if p.ret == FAIL:
            n_fail += 1
            chk.expect(not writes, 'R05.3', 'failed-grow-stores-nothing[%s]' % cond[:80],
                       'a path of wasmMemoryGrow returning -1 has already stored %r - a failed grow must change nothing'
                       % ([e[1][1] for e in writes],), site)
            continue
        def is_sum(v, min_bits=0):
            """v is pages + delta (through casts); with min_bits: the addition itself is at least that wide"""
            v0 = pe.strip_casts(v)
            if not (is_sym(v0) and v0.op == '+' and {pe.strip_casts(a) for a in v0.args} == {pages, delta}):
                return False
            if min_bits:
                ti = ct.tinfo(v0.ctype)
                return ti[0] == 'int' and ti[1] >= min_bits
            return True
        rels = pe.relations(p)
        is_pages = lambda v: pe.strip_casts(v) == pages
        is_max = lambda v: pe.strip_casts(v) == maxp
        is_zero = lambda v: v == 0
        tests = {'wrap': pe.has_relation(rels, '>=', is_sum, is_pages),          # not (new < old)
                 'max': pe.has_relation(rels, '<=', is_sum, is_max)}             # not (new > max)
        if pe.has_relation(rels, '<=', lambda v: is_sum(v, 64), is_max):
            tests['wrap'] = True            # 64-bit page arithmetic cannot wrap for 32-bit operands
        # delta <= 0xFFFFFFFF - old is the no-wrap condition itself
        def is_headroom(v):
            v0 = pe.strip_casts(v)
            return is_sym(v0) and v0.op == '-' and v0.args[0] == 0xFFFFFFFF and pe.strip_casts(v0.args[1]) == pages
        if pe.has_relation(rels, '<=', lambda v: pe.strip_casts(v) == delta, is_headroom):
            tests['wrap'] = True
        if isinstance(p.ret, int) and not writes:
            # a constant result (the "nothing to do" case) is only right when the old size is provably that constant:
            # new == 0 together with the wrap test gives old == 0
            zero_new = pe.has_relation(rels, '==', is_sum, is_zero)
            chk.expect(p.ret == 0 and zero_new and tests['wrap'], 'R05.3', 'constant-result[%s]' % cond[:60],
                       'memory.grow returns the constant %r on path %s without having excluded 32-bit wrap-around of old + delta: with '
                       'old = 3 and delta = 2^32 - 3 the page count wraps to 0 and the call reports old size 0 instead of failing with -1'
                       % (p.ret, cond), site + ':constant-result')
            continue
        n_ok += 1
        chk.expect(tests['wrap'], 'R05.3', 'wrap-test[%s]' % cond[:60],
                   'a successful grow path is not guarded against 32-bit wrap-around of old + delta (neither new < old nor a 64-bit sum): %s' % cond, site)
        chk.expect(tests['max'], 'R05.3', 'max-test[%s]' % cond[:60],
                   'a successful grow path is not guarded by the declared maximum (new > maxPages): %s' % cond, site)
        chk.expect(p.ret == pages, 'R05.3', 'returns-old[%s]' % cond[:60],
                   'successful grow returns %r, specification: the old size in pages' % (p.ret,), site)
        wp = [e[1][2] for e in writes if e[1][1] == 'pages']
        sum_ok = len(wp) == 1 and is_sum(wp[0])
        chk.expect(sum_ok, 'R05.3', 'new-pages[%s]' % cond[:60],
                   'pages is set to %r, specification: old + delta' % (wp,), site)
        ws = [e[1][2] for e in writes if e[1][1] == 'size']
        size_ok = len(ws) == 1 and is_sym(pe.strip_casts(ws[0])) and pe.strip_casts(ws[0]).op == '*' and PAGE in pe.strip_casts(ws[0]).args
        chk.expect(size_ok, 'R05.3', 'new-size[%s]' % cond[:60], 'size is set to %r, expected pages * 65536' % (ws,), site)
        re_ev = [e for e in p.events if e[0] == 'realloc']
        if re_ev:
            names = [e[0] for e in p.events]
            ms = [e for e in p.events if e[0] == 'memset']
            wd = [i for i, e in enumerate(p.events) if e[0] == 'write' and e[1][1] == 'data']
            good = False
            if len(ms) == 1 and wd:
                ptr, val, n = ms[0][1]
                n = pe.strip_casts(n)
                rr = unk('realloc-result')
                def times_page(a, what):
                    a = pe.strip_casts(a)
                    return is_sym(a) and a.op == '*' and what in [pe.strip_casts(x) for x in a.args] and PAGE in a.args
                tail_ok = is_sym(ptr) and ptr.op == '+' and rr in ptr.args and any(times_page(a, pages) for a in ptr.args)
                n_ok2 = times_page(n, delta)
                good = tail_ok and val == 0 and n_ok2 and names.index('realloc') < names.index('memset')
            chk.expect(good, 'R05.3', 'zero-new-tail[%s]' % cond[:60],
                       'after realloc the new pages [old*64K, +delta*64K) are not cleared by one memset (events: %r)'
                       % ([(e[0], e[1]) for e in p.events if e[0] in ('realloc', 'memset')],), site)
            chk.expect(p.events[wd[0]][1][2] == unk('realloc-result') if wd else False, 'R05.3', 'data-updated[%s]' % cond[:60],
                       'memory->data is not updated with the reallocated block', site)
            # byte counts must not wrap: growing to 65536 pages (4 GiB, the largest memory of the format) needs 2^32 bytes
            try:
                env = {pages: 65535, delta: 1, maxp: 65536}
                asked = pe.sym_eval(re_ev[0][1][1], env)
                cleared = pe.sym_eval(ms[0][1][2], {pages: 0, delta: 65536, maxp: 65536}) if len(ms) == 1 else None
            except (KeyError, IndexError):
                asked = cleared = None
            chk.expect(asked == 1 << 32 and cleared == 1 << 32, 'R05.3', 'byte-size-no-wrap[%s]' % cond[:60],
                       'growing a memory from 65535 to 65536 pages (within a declared maximum of 65536) asks realloc for %s bytes and a grow by 65536 '
                       'pages clears %s bytes: the byte counts are computed in 32 bits and wrap to 0 - realloc(data, 0) releases the memory, the '
                       'existing contents are lost and later accesses use freed storage' % (asked, cleared), site + ':byte-size')
    chk.expect(n_ok >= 1 and n_fail >= 1, 'R05.3', 'paths', 'wasmMemoryGrow has %d success and %d failure paths' % (n_ok, n_fail), site)
    # second decision: wasmMemoryGrow evaluated on concrete (pages, maximum, delta) triples around every boundary of the page arithmetic
    # (0, 1, the 16-bit and 32-bit limits, the declared maximum) against the specification
    bad, ncase = concrete_grow_family(htu, chk.tier)
    chk.expect(not bad, 'R05.3', 'grow:concrete-family', 'memory.grow: %s' % bad, site + ':concrete',
               detail_ok='%d (pages, maximum, delta, shared) cases agree with the specification: result, page count, byte size, bytes requested and cleared' % ncase)
    chk.sample(dict(rule='R05.3', paths=[dict(cond=p.cond_text(), ret=repr(p.ret),
                                             events=[e[0] + (':' + str(e[1][1]) if e[0] in ('read', 'write') else '') for e in p.events])
                                        for p in paths]))


def concrete_grow_family(htu, tier):
    from .c12 import lin
    """-> (first discrepancy or None, number of cases)"""
    FAIL = 0xFFFFFFFF
    P = [0, 1, 2, 3, 65534, 65535, 65536]
    D = [0, 1, 2, 65533, 65534, 65535, 65536, 65537, 0x7FFFFFFF, 0x80000000, 0xFFFF0000, 0xFFFF0001, 0xFFFFFFFE, 0xFFFFFFFF]
    M = [0, 1, 2, 3, 65535, 65536]
    if tier != 'thorough':
        P, M = [0, 1, 3, 65535, 65536], [0, 3, 65535, 65536]
        D = [0, 1, 2, 65535, 65536, 0x80000000, 0xFFFF0001, 0xFFFFFFFF]
    n = 0
    rr = unk('realloc-result')
    for shared in (0, 1):
        for pg in P:
            for mx in M:
                if pg > mx:
                    continue
                for dl in D:
                    cell = {}

                    def mk(it, pg=pg, mx=mx, shared=shared):
                        rec = runtime.Traced(it, 'mem', {'data': unk('data', 'unsigned char *'), 'size': pg * 65536, 'pages': pg, 'maxPages': mx,
                                                         'shared': shared, 'futex': unk('futex'), 'futexFree': unk('futexFree'), 'mutex': {'_opaque': 1}})
                        cell['mem'] = rec
                        return [Ptr({'v': rec}, 'v'), dl], {}
                    try:
                        paths = [p for p in runtime.summarize(htu, 'wasmMemoryGrow', mk) if not p.aborted]
                    except pe.PEError as e:
                        raise AnalysisBroken('wasmMemoryGrow(pages=%d, max=%d, delta=%d): %s' % (pg, mx, dl, e))
                    # realloc may fail: the path on which it succeeds is the one to compare (a failing one must return -1 unchanged)
                    succ = [p for p in paths if p.ret != FAIL]
                    want_ok = pg + dl <= mx and pg + dl <= 65536
                    n += 1
                    what = 'grow of a%s memory of %d pages (maximum %d) by %d' % (' shared' if shared else '', pg, mx, dl)
                    if not want_ok:
                        if succ:
                            return '%s returns %r; the specification requires -1 (the new size %d exceeds %s)' % (
                                what, succ[0].ret, pg + dl, 'the maximum' if pg + dl > mx else 'the 65536-page limit'), n
                        for p in paths:
                            w = [e for e in p.events if e[0] == 'write' and e[1][1] in ('pages', 'size', 'data')]
                            if w:
                                return '%s fails but has stored %r' % (what, [e[1][1:] for e in w]), n
                        continue
                    if not succ:
                        return '%s has no successful path; the specification requires success (old size %d)' % (what, pg), n
                    # several successful paths (a branch on the unknown storage pointer, say): each must meet the specification
                    for p in succ:
                        st = {e[1][1]: e[1][2] for e in p.events if e[0] == 'write' and e[1][1] in ('pages', 'size', 'data')}
                        if p.ret != pg:
                            return '%s returns %r, specification: the old size %d' % (what, p.ret, pg), n
                        if dl == 0 and not st:
                            continue        # nothing to do
                        if st.get('pages', pg) != pg + dl or (('size' in st) and st['size'] != (pg + dl) * 65536):
                            return '%s leaves pages = %r, size = %r; specification: %d pages, %d bytes' % (what, st.get('pages'), st.get('size'), pg + dl, (pg + dl) * 65536), n
                        re_ev = [e for e in p.events if e[0] == 'realloc']
                        ms = [e for e in p.events if e[0] == 'memset']
                        if shared:
                            if re_ev or 'data' in st:
                                return '%s reallocates / moves the storage other threads are using' % what, n
                            continue
                        if dl == 0 and not re_ev and 'data' not in st:
                            continue        # nothing to allocate: the descriptor may be rewritten with the same values
                        if len(re_ev) != 1 or re_ev[0][1][1] != (pg + dl) * 65536:
                            return '%s requests %r bytes from realloc; %d pages need %d bytes' % (what, [e[1][1] for e in re_ev], pg + dl, (pg + dl) * 65536), n
                        if dl:
                            okm = False
                            if len(ms) == 1:
                                f = lin(ms[0][1][0])
                                okm = f is not None and {k: c for k, c in f.items() if k != 1} == {rr: 1} and f.get(1, 0) == pg * 65536 and \
                                    ms[0][1][1] == 0 and ms[0][1][2] == dl * 65536
                            if not okm:
                                return '%s clears %r; the new pages are the %d bytes from offset %d of the reallocated block' % (
                                    what, [e[1] for e in ms], dl * 65536, pg * 65536), n
    return None, n


def check_bulk(chk, it, tabs, configs, rule='R05.4', only=None):
    htu = runtime.header('le')
    harness = templates.Harness(base_flags=['-DWASM_THREADS_PTHREADS'])
    base = len(mr.FILLER)
    plan = []
    for name, imm in (('memory.copy', {'memidx1': 0, 'memidx2': 0}), ('memory.fill', {'imm0': 0}),
                      ('memory.init', {'dataidx': 7, 'memidx': 0}), ('memory.size', {'imm0': 0}), ('memory.grow', {'imm0': 0})):
        if only is not None and name not in only:
            continue
        row = oracle.BY_NAME[name]
        stack = mr.FILLER + row['params']
        for pretty, multiple in configs:
            tpls = [t for t in templates.extract(it, row, stack, pretty, multiple, imm=imm) if t.ok and t.parts]
            site = 'emitter/' + name
            if not chk.expect(len(tpls) == 1, rule, '%s[p%d]:emits' % (name, pretty),
                              '%s: %d successful emitting paths' % (name, len(tpls)), site):
                continue
            t = tpls[0]
            chk.expect(t.stack_after == mr.FILLER + row['results'], rule, '%s[p%d]:stack' % (name, pretty),
                       'type stack after %s is %r' % (name, t.stack_after), site)
            fn = 'B_%s_p%d_m%d' % (name.replace('.', '_'), pretty, multiple)
            harness.add(fn, t.text())
            plan.append((row, fn, t, pretty))
            if pretty == 0:
                chk.sample(dict(op=name, template=t.text().strip()))
    tu = harness.parse('bulk')
    for row, fn, t, pretty in plan:
        name = row['name']
        site = 'emitter/' + name
        ops = [mr.slot(tabs, ty, base + k) for k, ty in enumerate(row['params'])]
        inst = '%s[p%d]' % (name, pretty)
        stmts = [s for s in ct.statements(tu.fn(fn)) if s.get('kind') != 'NullStmt']
        e = ct.simplify(stmts[0], tu)
        if name == 'memory.size':
            ok = e.k == 'assign' and e.a[0].k == 'var' and e.a[0].x == mr.slot(tabs, 'i32', base)
            r = e.a[1] if e.k == 'assign' else e
            while r.k == 'cast':
                r = r.a[0]
            if r.k == 'member':
                ok = ok and r.x[0] == 'pages'
            elif r.k == 'call' and r.x in htu.functions and len(r.a) == 1 and mr.mem_ref_ok(r.a[0]):
                # accessor function: every path must return the page count field
                def mk(it2):
                    mem = {'v': runtime.memory_record(it2)}
                    return [Ptr(mem, 'v')], {}
                ps = runtime.summarize(htu, r.x, mk)
                ok = ok and ps and all(p.ret == unk('pages') for p in ps if not p.aborted)
                chk.fn(r.x)
            else:
                ok = False
            chk.expect(ok, rule, inst + ':pages', 'memory.size template is %r, expected <new top> = the current page count of i->m0' % (e,), site)
            continue
        dst, call, casts = mr.parse_call_template(tu, fn)
        args = list(call.a)
        if name == 'memory.grow':
            ok = dst is not None and dst.x == mr.slot(tabs, 'i32', base) and call.x == 'wasmMemoryGrow' and \
                mr.mem_ref_ok(args[0]) and args[1].k == 'var' and args[1].x == ops[0]
            chk.expect(ok, rule, inst + ':call', 'memory.grow template is %r' % (call,), site)
            continue
        if name == 'memory.copy':
            roles = [a for a in args[2:]]
            ok = call.x == 'wasmMemoryCopy' and mr.mem_ref_ok(args[0]) and mr.mem_ref_ok(args[1]) and \
                [a.x if a.k == 'var' else None for a in roles] == ops
            chk.expect(ok, rule, inst + ':roles',
                       'memory.copy passes %r; specification: (dest = third from top, src = second, n = top) = %r' % (roles, ops), site)
        elif name == 'memory.fill':
            roles = [a for a in args[1:]]
            ok = call.x == 'wasmMemoryFill' and mr.mem_ref_ok(args[0]) and [a.x if a.k == 'var' else None for a in roles] == ops
            chk.expect(ok, rule, inst + ':roles', 'memory.fill passes %r; specification order (dest, value, n) = %r' % (roles, ops), site)
        elif name == 'memory.init':
            # LOAD_DATA(m, o, i, s) -> load_data(&((m).data[o]), i, s)
            # ... or directly a byte copy: (void)memcpy(&((m).data[o]), i, s)
            ok = call.x in ('load_data', 'memcpy', '__builtin_memcpy', 'memmove') and len(args) == 3
            if ok:
                d = args[0]
                while d.k == 'cast':
                    d = d.a[0]
                def is_data(x):
                    while x.k == 'cast':
                        x = x.a[0]
                    return x.k == 'member' and x.x[0] == 'data'

                def is_op0(x):
                    while x.k == 'cast' and ct.tinfo(x.ty)[0] == 'int' and ct.tinfo(x.ty)[1] >= 32 and not (ct.tinfo(x.ty)[2] and ct.tinfo(x.ty)[1] == 32):
                        x = x.a[0]
                    return x.k == 'var' and x.x == ops[0]
                # &mem.data[dest]  or  mem.data + dest
                ok = (d.k == 'addr' and d.a[0].k == 'index' and is_data(d.a[0].a[0]) and is_op0(d.a[0].a[1])) or \
                    (d.k == 'bin' and d.x == '+' and ((is_data(d.a[0]) and is_op0(d.a[1])) or (is_data(d.a[1]) and is_op0(d.a[0]))))
                src = args[1]
                while src.k == 'cast':
                    src = src.a[0]
                ok = ok and src.k == 'bin' and src.x == '+' and any(x.k == 'var' and x.x == 'd7' for x in src.a) \
                    and any(ct.iabs(x)[0] == 'slice' and ct.iabs(x)[1] == ops[1] for x in src.a)
                n = args[2]
                v = ct.iabs(n)
                ok = ok and v[0] == 'slice' and v[1] == ops[2]
            chk.expect(ok, rule, inst + ':roles',
                       'memory.init template %r; expected load_data(&mem.data[%s], d<seg> + %s, %s)' % (call, ops[0], ops[1], ops[2]), site)
    # runtime bodies
    def params(fn):
        return [p['name'] for p in astdb.fn_params(htu.fn(fn))]

    def run_fn(fn):
        ps = astdb.fn_params(htu.fn(fn))

        def mk(it):
            args = []
            for p in ps:
                t = htu.desugar(astdb.qtype(p))
                if 'wasmMemory' in t:
                    rec = dict(runtime.memory_record(it, shared=0))
                    rec['data'] = unk('data:' + p['name'])
                    m = {'v': runtime.Traced(it, p['name'], rec)}
                    args.append(Ptr(m, 'v'))
                else:
                    args.append(unk(p['name'], t))
            return args, {}
        return runtime.summarize(htu, fn, mk)
    for fn, libfn, what in (('wasmMemoryCopy', 'memmove', 'overlap-safe copy'), ('wasmMemoryFill', 'memset', 'fill'),
                            ('load_data', 'memcpy', 'copy')):
        if fn == 'load_data' and fn not in htu.functions:
            continue        # LOAD_DATA copies directly (checked on the template above)
        if only is not None and not ({'memory.copy', 'memory.fill', 'memory.init'} & set(only)):
            continue        # a caller interested in other templates only (C18: memory.grow / memory.size)
        chk.fn(fn)
        site = 'runtime/' + fn
        pn = params(fn)
        try:
            paths = [p for p in run_fn(fn) if not p.aborted]
            shape = None
        except pe.PEError as e:
            paths, shape = [], 'not summarised symbolically (%s)' % e

        def args_ok(a):
            if fn == 'wasmMemoryCopy':
                def loc(v, mem, addr):
                    # data + address, or &data[address]
                    if is_sym(v) and v.op == 'addr' and is_sym(v.args[0]) and v.args[0].op == 'index':
                        return set(v.args[0].args) == {unk('data:' + mem), unk(addr)}
                    return is_sym(v) and v.op == '+' and unk('data:' + mem) in v.args and unk(addr) in v.args
                return loc(a[0], pn[0], pn[2]) and loc(a[1] if not isinstance(a[1], tuple) else a[1][1], pn[1], pn[3]) and \
                    pe.strip_casts(a[2]) == unk(pn[4])
            if fn == 'wasmMemoryFill':
                v = a[1]
                sl = runtime.sym_slice(v) if is_sym(v) else ('top',)
                d0 = a[0]
                if is_sym(d0) and d0.op == 'addr' and is_sym(d0.args[0]) and d0.args[0].op == 'index':
                    d0 = pe.Sym('+', tuple(d0.args[0].args))          # &data[address]
                return is_sym(d0) and d0.op == '+' and unk(pn[1]) in d0.args and sl[0] == 'slice' and sl[1] == unk(pn[2]) and \
                    pe.strip_casts(a[2]) == unk(pn[3])
            return True
        cnt = unk(pn[-1])
        for p in paths:
            ev = [e for e in p.events if e[0] in ('memcpy', 'memmove', 'memset')]
            touches = [e for e in p.events if e[0] in ('store-sym',)]
            if len(ev) == 1 and not touches and ev[0][0] == libfn and args_ok(ev[0][1]):
                continue
            if not ev and not touches and pe.has_relation(pe.relations(p), '==', lambda x: pe.strip_casts(x) == cnt, lambda y: y == 0):
                continue        # nothing to move
            if len(ev) == 1 and not touches and fn == 'wasmMemoryCopy' and ev[0][0] in ('memcpy', '__builtin_memcpy') and len(paths) == 1:
                shape = 'memcpy'      # definite: undefined for overlapping ranges
                break
            shape = "path %s performs %r" % (p.cond_text()[:80], [e[:2] for e in ev] + [e[0] for e in touches])
            break
        if not paths and shape is None:
            shape = 'no path'
        if shape is None:
            chk.ok(rule, fn + ':libc', 'every path: one %s with the specified operands (or nothing for count 0)' % libfn)
            chk.ok(rule, fn + ':args')
            continue
        if shape == 'memcpy':
            chk.fail(rule, fn + ':libc', '%s performs memcpy; the specification needs an overlap-safe copy (memmove) - memcpy is undefined for '
                     'overlapping ranges' % fn, site)
            continue
        # unrecognised shape: evaluate the function on a concrete family of small operands (overlapping both ways, counts 0..17) against
        # the specification's byte-wise model.  A disagreement is a definite violation; agreement on the family decides nothing more.
        bad = concrete_bulk_family(htu, fn, pn)
        if bad:
            chk.fail(rule, fn + ':bytes', '%s (%s) moves the wrong bytes: %s' % (fn, shape, bad), site)
            continue
        raise AnalysisBroken('%s: %s - shape not recognised; it agrees with the specification on the concrete family, which does not decide '
                             'all operands' % (fn, shape))


def concrete_bulk_family(htu, fn, pn):
    """first disagreement between fn (partially evaluated on concrete bytes) and the byte-wise specification, or None"""
    def mm(interp, args, node):
        d, s_, n = args
        if isinstance(s_, Ptr) and isinstance(s_.c, dict) and isinstance(s_.c.get(s_.k), int):
            # bytes of an integer object (little-endian host configuration), e.g. memcpy(dst, &pattern, count)
            src = list((s_.c[s_.k] & ((1 << 64) - 1)).to_bytes(8, 'little'))[:n]
            if n > 8:
                raise pe.PEError('copy of %d bytes out of an integer object' % n)
        else:
            src = [interp.load(s_.c, s_.k + i) for i in range(n)]
        for i in range(n):
            interp.store(d.c, d.k + i, src[i])
        return d

    def mset(interp, args, node):
        d, v, n = args
        for i in range(n):
            interp.store(d.c, d.k + i, v & 0xFF)
        return d
    leafs = {'memmove': mm, '__builtin_memmove': mm, 'memcpy': mm, '__builtin_memcpy': mm, 'memset': mset, '__builtin_memset': mset}
    N = 40
    for same in (True, False):
        for n in range(0, 18):
            for d0 in range(0, 12):
                for s0 in (range(0, 12) if fn != 'wasmMemoryFill' else (0,)):
                    a = [(7 * i + 3) & 0xFF for i in range(N)]
                    b = a if same or fn == 'wasmMemoryFill' else [(11 * i + 5) & 0xFF for i in range(N)]
                    it2 = pe.Interp([htu], leafs, max_paths=64)
                    it2.cur_tu = htu
                    it2.strict_bounds = True
                    it2.strict_store_bounds = True

                    def rec(bytes_):
                        r = it2.zero_init('struct wasmMemory')
                        r['data'] = Ptr(bytes_, 0)
                        r['size'] = N
                        return Ptr({'v': r}, 'v')
                    if fn == 'wasmMemoryCopy':
                        src_before = list(b)
                        want = list(a)
                        want[d0:d0 + n] = src_before[s0:s0 + n]
                        args = [rec(a), rec(b), d0, s0, n]
                        desc = 'copy of %d bytes from %d to %d in %s' % (n, s0, d0, 'the same memory' if same else 'another memory')
                    elif fn == 'wasmMemoryFill':
                        want = list(a)
                        want[d0:d0 + n] = [0x1A5 & 0xFF] * n
                        args = [rec(a), d0, 0x1A5, n]
                        desc = 'fill of %d bytes at %d with 0x1A5' % (n, d0)
                    else:
                        want = list(a)
                        want[d0:d0 + n] = b[s0:s0 + n] if not same else a[s0:s0 + n]
                        args = [Ptr(a, d0), Ptr(b, s0), n]
                        desc = 'load_data of %d bytes' % n
                        if same:
                            continue
                    try:
                        ps = it2.explore(lambda: (fn, args, {}))
                    except pe.PEError as e:
                        return '%s: %s' % (desc, e)
                    if len(ps) != 1 or ps[0].aborted:
                        return '%s: %d paths' % (desc, len(ps))
                    if a != want:
                        k = [i for i in range(N) if a[i] != want[i]][0]
                        return '%s leaves byte %d = 0x%02X, specification 0x%02X' % (desc, k, a[k], want[k])
                    if fn == 'wasmMemoryFill':
                        break
    return None


def run(chk):
    chk.explanation = (
        'Each load/store template is extracted by partial evaluation (both offset variants), parsed against w2c2_base.h, and its '
        'address argument must be a 64-bit unsigned base+offset of the zero-extended address slot with the decoded offset; the '
        'runtime function it calls is summarised by partial evaluation with a symbolic memory (ordered trace of memory touches) and '
        'must perform exactly one byte copy of the access width and the row\'s extension. memory.grow is summarised path by path '
        '(guards, stores, realloc/memset order); bulk operations are checked for operand roles and the libc primitive reached. '
        'Bounds are not checked (the property is stated for in-bounds accesses; w2c2 emits no bounds checks).')
    chk.assumptions = ['host memcpy/memmove/memset semantics', 'little-endian configuration here; the big-endian one is C19',
                       'page arithmetic: the guards are decided structurally for all operands, the arithmetic itself (result, page count, byte counts requested and cleared) on a grid of (pages, maximum, delta) triples around every 16-bit/32-bit boundary']
    tus = emit.translator_tus(('c.c', 'opcode.c', 'instruction.c'), chk=chk)
    it = emit.make_interp(tus)
    vts = c01.value_types(it)
    tabs = c01.read_type_tables(chk, tus[0], it, vts, 'R05.1')
    configs = [(0, 0), (1, 0)] if chk.tier == 'quick' else [(0, 0), (1, 0), (0, 1), (1, 1)]
    rows = mem_rows()
    chk.require(len(rows) == 23, 'oracle lists %d load/store rows, expected 23' % len(rows))
    check_access_rows(chk, it, tabs, rows, configs, 'R05.1', 'R05.2', plain_rt_check)
    check_grow(chk)
    check_bulk(chk, it, tabs, configs)
    # memory.init reads d<k>: in the blob modes that pointer must address segment k inside the concatenated blob
    c06.check_data_modes(chk, tus, 'R05.4')
    # R05.5: "-1 when the declared maximum would be exceeded" needs the declared maximum: the memory-section reader records the limits
    # of the binary exactly - no maximum, a maximum above, equal to and (for an empty memory) of zero pages (grammar rule shared with C08)
    from . import c08
    rtu = astdb.dump_ast(astdb.src('w2c2/reader.c'))
    chk.unit(rtu)
    c08.check_section_grammar(chk, rtu, rule='R05.5', only=('wasmReadMemorySection', 'wasmReadMemorySection#2'))
    chk.floor('R05.5', 6)
    # R05.6: "new pages zeroed" for a shared memory: memory.grow does not touch its storage, so the allocator must reserve the declared
    # maximum and hand it out zero-filled in full (allocator rule shared with C06 R06.7)
    from . import c06 as _c06
    _c06.check_allocators(chk, rule='R05.6')
    chk.floor('R05.6', 8)
    chk.floor('R05.1', 23 + 5)
    chk.floor('R05.2', 23 * 6)
    chk.floor('R05.3', 8)
    chk.floor('R05.4', 12)
    chk.exhaustive = True
