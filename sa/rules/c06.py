"""C06  Instantiation builds the specified initial state, once, per instance.

The module-level emitters of c.c are partially evaluated on a family of concrete module *shapes* (each count
in {0, 1, 2}, imported vs defined memories/tables/globals, active vs passive segments, with/without start) and
the emitted C text is analysed.

R06.1  order: Instantiate and NewChild call InitImports -> InitMemories -> InitTables -> InitGlobals -> start,
       each at most once, start last
R06.2  guard agreement: for every shape the set of Init* functions defined equals the set called in Instantiate
       and in NewChild (otherwise the output does not compile or skips initialisation)
R06.3  segment reachability: every active data segment is loaded by code reachable from Instantiate whether
       its memory is defined or imported; likewise element stores with an imported table
R06.4  instance locality: memories, tables and globals exist only as members of the instance record; file-scope
       objects are const data or the export table; defined memories are allocated per instance unless shared and
       inherited from the parent
R06.5  imports: each imported memory/table/global is assigned from resolve("<module>", "<name>") with the right
       pointer type and every use goes through that pointer
R06.6  exports: wrappers are named <module>_<escaped name>, forward all parameters in order to the exported
       function; the FuncExports table has one row per function export plus a terminator
R06.7  allocators: wasmMemoryAllocate / wasmTableAllocate (partially evaluated with symbolic operands, shared and not) record the
       declared minimum as the current size, the declared maximum, the shared flag, and obtain zero-filled storage of the
       recorded byte size
R06.10 the set-up emitters never read past a module array while writing a valid module (strict bounds in emit_text)
"""
import re

from .. import astdb, pe, emit, modules as M
from ..astdb import AnalysisBroken, kids, walk, strip
from ..pe import Ptr, unk, Text

KIND_FUNC, KIND_TABLE, KIND_MEM, KIND_GLOBAL = 0, 1, 2, 3


def make(tus):
    return emit.make_interp(tus, symbolic_names=False)


_TOKEN = re.compile(r'"(?:[^"\\\n]|\\.)*"|\'(?:[^\'\\\n]|\\.)*\'|[A-Za-z_]\w*|\d[\w\.]*|->|\+\+|--|<<=|>>=|<<|>>|<=|>=|==|!=|&&|\|\||[-+*/%&|^]=|\S')


def normalize_emitted(text):
    """canonical spelling of emitted C for the structural checks: white space is insignificant, `return (e);` is `return e;`,
    `(T)(x)` with a simple operand is `(T)x`.  Preprocessor lines are kept.  (String literals are left untouched.)"""
    out_lines = []
    for line in text.split('\n'):
        if line.lstrip().startswith('#'):
            out_lines.append(line.strip())
            continue
        toks = _TOKEN.findall(line)
        # redundant parentheses around a whole return expression
        if len(toks) >= 4 and toks[0] == 'return' and toks[1] == '(' and toks[-1] == ';' and toks[-2] == ')':
            depth = 0
            whole = True
            for i, t in enumerate(toks[1:-1]):
                depth += (t == '(') - (t == ')')
                if depth == 0 and i < len(toks) - 3:
                    whole = False
                    break
            if whole:
                toks = ['return'] + toks[2:-2] + [';']
        # (T)(&x) / (T)(x): parentheses around a simple cast operand
        i = 0
        res = []
        while i < len(toks):
            if toks[i] == ')' and i + 1 < len(toks) and toks[i + 1] == '(' and res and _closes_cast(res):
                j = i + 2
                inner = []
                while j < len(toks) and toks[j] != ')':
                    inner.append(toks[j])
                    j += 1
                if j < len(toks) and inner and all(re.fullmatch(r'[A-Za-z_]\w*|&|->|\.', t) for t in inner) and '(' not in inner:
                    res.append(')')
                    res.extend(inner)
                    i = j + 1
                    continue
            res.append(toks[i])
            i += 1
        toks = res
        s_ = ''
        for t in toks:
            if s_ and re.match(r'\w', t[0]) and re.match(r'\w', s_[-1]):
                s_ += ' '
            s_ += t
        out_lines.append(s_)
    return '\n'.join(out_lines)


def _closes_cast(res):
    """the tokens collected so far end in `( type-name` (the `)` just seen closes a cast)"""
    k = len(res) - 1
    n = 0
    while k >= 0 and re.fullmatch(r'[A-Za-z_]\w*|\*', res[k]):
        k -= 1
        n += 1
    return n >= 1 and k >= 0 and res[k] == '(' and (k == 0 or not re.fullmatch(r'[A-Za-z_]\w*', res[k - 1]) or res[k - 1] in ('return',))


class EmitterOutOfBounds(AnalysisBroken):
    """a module-level emitter indexes one of the module's arrays (types, imports, functions, exports, segments) past its end while
    writing a concrete valid module: definite (R06.10) where C06 evaluates it, analysis-broken for the other checks that share emit_text"""


def emit_text(it, fname, mkargs):
    """run a FILE*-based emitter; mkargs(file Text) -> args"""
    def setup():
        out = Text('out')
        return (fname, mkargs(out), {'out': out, 'stream': emit.Stream([])})
    sb = getattr(it, 'strict_bounds', False)
    it.strict_bounds = True
    try:
        paths = it.explore(setup)
    except pe.OutOfBounds as e:
        raise EmitterOutOfBounds('%s: %s' % (fname, e))
    finally:
        it.strict_bounds = sb
    good = [p for p in paths if not p.aborted and (p.ret is None or p.ret == 1)]
    if len(good) != 1:
        raise AnalysisBroken('%s: %d paths, %d successful' % (fname, len(paths), len(good)))
    return good[0].state['out'].render()


def shape(it, mem='defined', table='defined', nglobals=1, gimports=1, data=('active',), elems=1, start=True, shared=False, limits=(1, 4)):
    types = [([], []), (['i32', 'i64'], ['i32'])]
    fimp = [('env', 'imp0', 0)]
    funcs = [0, 1, 0]
    memories = [(limits[0], limits[1], shared)] if mem == 'defined' else []
    mimports = [('env', 'memory', 1, 4, shared)] if mem == 'imported' else []
    tables = [(4, 8, False)] if table == 'defined' else []
    timports = [('env', 'table', 4, 8, False)] if table == 'imported' else []
    gim = [('env', 'g%d' % k, 'i32', False) for k in range(gimports)]
    gl = []
    for k in range(nglobals):
        init = M.global_get(0) if (k == 0 and gimports) else M.i32_const(40 + k)
        gl.append(('i32', True, init))
    ds = []
    for k, d in enumerate(data):
        if d == 'active':
            ds.append((0, M.i32_const(100 + k), 3, False))
        elif d == 'active-global':
            ds.append((0, M.global_get(0), 3, False))
        else:
            ds.append((0, None, 3, True))
    es = [(0, M.i32_const(2), [1, 0, 3])] * elems if table != 'none' else []
    exports = [('run', KIND_FUNC, 2), ('mem-ory', KIND_MEM, 0), ('imp', KIND_FUNC, 0)] if mem != 'none' else [('run', KIND_FUNC, 2)]
    return lambda: M.build(it, types=types, func_imports=fimp, functions=funcs, globals_=gl, global_imports=gim, memories=memories,
                           memory_imports=mimports, tables=tables, table_imports=timports, data_segments=ds, element_segments=es,
                           exports=exports, start=(3 if start else None))


def inits_text(it, mk, pretty=0, mode=0, raw=False):
    t = emit_text(it, 'wasmCWriteInits', lambda out: [Ptr({'v': mk()}, 'v'), 'mod', out, mode, pretty, 0])
    return t if raw else normalize_emitted(t)


def split_functions(text):
    """{function name: body text} of the emitted C (top-level definitions)"""
    out = {}
    for m in re.finditer(r'(?m)^(?:static\s+)?[\w\*\s]*?\b(\w+)\s*\(([^;{}]*)\)\s*\{', text):
        name = m.group(1)
        i = m.end()
        depth = 1
        while i < len(text) and depth:
            depth += (text[i] == '{') - (text[i] == '}')
            i += 1
        out[name] = text[m.end():i - 1]
    return out


INIT_NAMES = ['modInitImports', 'modInitMemories', 'modInitTables', 'modInitGlobals']


def check_table_receivers(chk, tus, rule):
    """shared with C04: in every instance-creating entry point (Instantiate and NewChild) the element-segment initialiser is run, and
    it is applied to the instance being created - a child instance whose tables stay uninitialised cannot serve call_indirect"""
    it = make(tus)
    for table in ('defined', 'imported'):
        for mem in ('defined', 'none'):
            mk = shape(it, mem=mem, table=table, nglobals=0, gimports=0, data=(), elems=1, start=False)
            text = normalize_emitted(inits_text(it, mk))
            fns = split_functions(text)
            label = 'table=%s,mem=%s' % (table, mem)
            chk.require('modInitTables' in fns, 'modInitTables not emitted (%s)' % label)
            stores = re.findall(r'\.data\s*\[[^\]]*\]\s*=', fns['modInitTables'])
            chk.expect(bool(stores), rule, 'element-stores[%s]' % label, 'modInitTables stores no table entries for a module with an element segment',
                       'wasmCWriteInitTables:stores')
            for entry, recv in (('modInstantiate', 'i'), ('modNewChild', 'child')):
                chk.require(entry in fns, '%s not emitted (%s)' % (entry, label))
                got = re.findall(r'\bmodInitTables\s*\(\s*(\w+)', fns[entry])
                chk.expect(got == [recv], rule, '%s-tables[%s]' % (entry, label),
                           '%s runs the table/element initialiser on %r; it must run exactly once on %s, the instance being created: otherwise '
                           'call_indirect in the new instance finds an uninitialised table' % (entry, got, recv),
                           'wasmCWrite%sFunction:table-receiver' % ('Instantiate' if entry == 'modInstantiate' else 'NewChild'))


def grow_clears_shared_tail(htu):
    """-> (True, n) when every successful path of wasmMemoryGrow on a shared memory that has storage clears the added pages with
    memset(data + pages*65536, 0, delta*65536) before it publishes the new page count; (False, reason) otherwise"""
    from .. import runtime, pe
    from ..pe import unk, Ptr, is_sym
    delta = unk('delta', 'unsigned int')
    pages = unk('pages', 'unsigned int')

    def mk(it):
        mem = {'v': runtime.memory_record(it, shared=1)}
        return [Ptr(mem, 'v'), delta], {'mem': mem['v']}
    try:
        paths = runtime.summarize(htu, 'wasmMemoryGrow', mk)
    except pe.PEError as e:
        return False, 'wasmMemoryGrow cannot be summarised (%s)' % e

    def times_page(a, what):
        a = pe.strip_casts(a)
        return is_sym(a) and a.op == '*' and what in [pe.strip_casts(x) for x in a.args] and 65536 in a.args
    n = 0
    for p in paths:
        if p.aborted:
            continue
        wp = [i for i, e in enumerate(p.events) if e[0] == 'write' and e[1][1] == 'pages']
        if not wp:
            continue
        if pe.has_relation(pe.relations(p), '==', lambda x: repr(pe.strip_casts(x)) == '$data', lambda y: y == 0):
            continue            # no storage at all on this path
        good = False
        for i, e in enumerate(p.events):
            if e[0] == 'memset' and len(e[1]) >= 3 and i < wp[0]:
                ptr, val, cnt = e[1][:3]
                if val == 0 and times_page(cnt, delta) and is_sym(ptr) and ptr.op == '+' and \
                        any(repr(pe.strip_casts(a)) == '$data' for a in ptr.args) and any(times_page(a, pages) for a in ptr.args):
                    good = True
        if not good:
            return False, 'the shared grow path [%s] stores the new page count without having cleared the added pages (memsets: %r)' % (
                p.cond_text()[:160], [e[1] for e in p.events if e[0] == 'memset'])
        n += 1
    if not n:
        return False, 'wasmMemoryGrow has no successful path on a shared memory'
    return True, n


def check_allocators(chk, rule='R06.7', only_shared_clause=False):
    """R06.7: the runtime allocators called by the emitted initialisers create memories and tables of the declared minimum size,
    zero-filled: wasmMemoryAllocate(initial, max, shared) and wasmTableAllocate(table, size, max) are partially evaluated with
    symbolic operands and the final descriptor is compared field by field"""
    from .. import runtime, pe
    from ..pe import unk, Ptr, is_sym
    htu = runtime.header('le')
    chk.unit(htu)
    ini, mx = unk('initialPages', 'unsigned int'), unk('maxPages', 'unsigned int')

    def is_bytes(v, pages):
        v = pe.strip_casts(v)
        if not is_sym(v):
            return False
        args = [pe.strip_casts(x) for x in v.args]
        if v.op == '*':
            return (args[0] == pages and args[1] == 65536) or (args[1] == pages and args[0] == 65536)
        return v.op == '<<' and args[0] == pages and args[1] == 16
    chk.fn('wasmMemoryAllocate', 'wasmTableAllocate')
    for shared in (0, 1):
        site = 'wasmMemoryAllocate'
        inst = 'memory[shared=%d]' % shared
        try:
            ps = runtime.summarize(htu, 'wasmMemoryAllocate', lambda it: ([ini, mx, shared], {}))
        except pe.PEError as e:
            raise AnalysisBroken('wasmMemoryAllocate: %s' % e)
        good = [p for p in ps if not p.aborted]
        chk.require(good, 'wasmMemoryAllocate(shared=%d) has no successful path' % shared)
        for p in good:
            fields = {}
            for nm, a, l in p.events:
                if nm == 'store-sym':
                    m = re.search(r'\.(\w+)$', repr(a[0]))
                    if m:
                        fields[m.group(1)] = a[1]
            chk.expect(pe.strip_casts(fields.get('pages')) == ini, rule, inst + ':pages',
                       'a new memory reports %r pages; the specification instantiates it with the declared minimum (initialPages) - memory.size '
                       'and every later memory.grow depend on it' % (fields.get('pages'),), site + ':pages')
            chk.expect(pe.strip_casts(fields.get('maxPages')) == mx, rule, inst + ':max', 'maxPages is set to %r' % (fields.get('maxPages'),),
                       site + ':max')
            chk.expect(fields.get('shared') == shared, rule, inst + ':shared', 'shared flag is set to %r' % (fields.get('shared'),), site + ':shared')
            if shared:
                inits = [nm for nm, a, l in p.events if 'mutex_init' in nm or nm in ('extern:InitializeCriticalSection',)]
                chk.expect(len(inits) == 1, rule, inst + ':mutex', 'a shared memory is created with %d mutex initialisations (%r): every shared '
                           'memory - whatever its limits - is locked by memory.grow and memory.size' % (len(inits), inits), site + ':mutex')
            if only_shared_clause:
                continue
            # a shared memory is never reallocated by memory.grow (C18 R18.2): its storage must be the declared maximum from the start
            allowed = [mx] if shared else [ini]
            size = fields.get('size')
            cover = [x for x in allowed if is_bytes(size, x)]
            chk.expect(bool(cover), rule, inst + ':size',
                       'the byte size is set to %r; expected the page count (%s) times 65536' % (size, ' or '.join(repr(x) for x in allowed)),
                       site + ':size')
            allocs = [(nm, a) for nm, a, l in p.events if nm in ('calloc', 'malloc', 'realloc')]
            data_alloc = [(nm, a) for nm, a in allocs if not (nm == 'calloc' and (any('sizeof' in repr(x) for x in a) or
                                                                             (a[0] == 1 and isinstance(a[1], int))))]
            if not chk.expect(len(data_alloc) == 1, rule, inst + ':one-allocation', 'data allocations: %r' % (data_alloc,), site + ':alloc'):
                continue
            nm, a = data_alloc[0]
            if nm != 'calloc':
                # not zero-initialising: the whole block must be cleared - for a shared memory that includes the pages reserved for later
                # grows (memory.grow does not touch the storage of a shared memory, the new pages must already read as zero)
                asked = pe.strip_casts(a[-1]) if a else None
                if pe.has_relation(pe.relations(p), '==', lambda x: repr(x) == '$calloc-result' or (repr(x).endswith('.data') and 'calloc-result' in repr(x)), lambda y: y == 0):
                    continue        # the allocation failed on this path: nothing to clear
                sets = [_a for n2, _a, _l in p.events if n2 in ('extern:memset', 'memset') and len(_a) >= 3]
                zero = any(_a[1] == 0 and repr(pe.strip_casts(_a[2])) == repr(asked) for _a in sets)
                lazily = ''
                if not zero and shared and any(_a[1] == 0 and is_bytes(_a[2], ini) and repr(_a[0]).endswith('.data') for _a in sets):
                    # only the pages in use are cleared: fine exactly when memory.grow clears every page it adds before it becomes visible
                    zero, lazily = grow_clears_shared_tail(htu)
                    lazily = '; the initial pages are cleared and memory.grow on a shared memory: %s' % (lazily,)
                chk.expect(zero, rule, inst + ':zeroed',
                           'linear memory is obtained with %s(%r) and %s: every byte of a new memory - for a shared memory also the pages reserved for '
                           'later grows, which memory.grow does not clear - must read as zero'
                           % (nm, a[-1] if a else None, (('cleared only by %r' % [(x[1], x[2]) for x in sets]) if sets else 'not cleared') + lazily),
                           site + ':zeroed')
                continue
            aa = [pe.strip_casts(x) for x in a]
            total_ok = bool(cover) and ((is_bytes(aa[0], cover[0]) and aa[1] == 1) or (aa[0] == 1 and is_bytes(aa[1], cover[0])) or
                                        (aa[0] == cover[0] and aa[1] == 65536) or (aa[1] == cover[0] and aa[0] == 65536))
            chk.expect(total_ok, rule, inst + ':allocation', 'calloc(%r, %r) does not allocate the %r bytes recorded as the memory size'
                       % (a[0], a[1], size), site + ':alloc')
            # the byte count must not wrap: 65536 pages (4 GiB) is the largest memory the format allows and the usual declared maximum
            # of a shared memory, whose storage is reserved up front
            if total_ok:
                try:
                    env = {ini: 65536, mx: 65536}
                    total = pe.sym_eval(a[0], env) * pe.sym_eval(a[1], env)
                except KeyError:
                    total = None
                chk.expect(total == 1 << 32, rule, inst + ':allocation-no-wrap',
                           'for a page count of 65536 (4 GiB: the largest memory of the format%s) calloc(%r, %r) is asked for %s bytes: the byte count '
                           'is computed in 32 bits and wraps to 0 - the memory has no storage and every access is out of bounds'
                           % (', the usual maximum of a shared memory, which is reserved up front' if shared else '', a[0], a[1],
                              'an unknown number of' if total is None else total), site + ':alloc-wrap')
    if only_shared_clause:
        return
    # tables
    sz, tmx = unk('size', 'unsigned int'), unk('maxSize', 'unsigned int')

    def mk(it):
        t = {'v': {'size': unk('osize'), 'maxSize': unk('omax'), 'data': unk('odata')}}
        return [Ptr(t, 'v'), sz, tmx], {'t': t}
    try:
        ps = [p for p in runtime.summarize(htu, 'wasmTableAllocate', mk) if not p.aborted]
    except pe.PEError as e:
        raise AnalysisBroken('wasmTableAllocate: %s' % e)
    chk.require(ps, 'wasmTableAllocate has no path')
    for p in ps:
        t = p.state['t']['v']
        chk.expect(pe.strip_casts(t['size']) == sz and pe.strip_casts(t['maxSize']) == tmx, rule, 'table:fields',
                   'a new table records size %r / maximum %r; expected the declared minimum and maximum' % (t['size'], t['maxSize']),
                   'wasmTableAllocate:fields')
        cal = [a for nm, a, l in p.events if nm == 'calloc']
        ok = len(cal) == 1 and any(pe.strip_casts(x) == sz for x in cal[0]) and any('sizeof' in repr(x) or x == 8 for x in cal[0])
        chk.expect(ok, rule, 'table:allocation', 'table entries are allocated by %r; expected calloc of `size` zeroed function pointers'
                   % ([e for e in p.events if e[0] in ('calloc', 'malloc')],), 'wasmTableAllocate:alloc')


def check_common_record(chk, tus, rule):
    """shared with C15 (thread-spawn runs on child instances and spawns from them): every member of the runtime's
    wasmModuleInstance record (`common`) is set in Instantiate and copied from the parent in NewChild - the member list is read
    from w2c2_base.h, not frozen here"""
    from .. import runtime
    htu = runtime.header('le')
    fields, tag = None, None
    for r in htu.records_named('wasmModuleInstance') if hasattr(htu, 'records_named') else []:
        fields = r
    if fields is None:
        itp = pe.Interp([htu], {})
        itp.cur_tu = htu
        fields, tag = itp.record_fields('struct wasmModuleInstance')
    chk.require(fields and len(fields) >= 3, 'struct wasmModuleInstance not found in w2c2_base.h')
    names = [f for f, _t in fields]
    it = make(tus)
    mk = shape(it, mem='defined', table='defined', nglobals=0, gimports=0, data=(), elems=1, start=False)
    fns = split_functions(normalize_emitted(inits_text(it, mk)))
    for entry, recv in (('modInstantiate', 'i'), ('modNewChild', 'child')):
        chk.require(entry in fns, '%s not emitted' % entry)
        body = fns[entry]
        for fld in names:
            asg = re.findall(r'\b%s->common\.%s\s*=\s*([^;]+);' % (recv, re.escape(fld)), body)
            if entry == 'modNewChild':
                ok = len(asg) >= 1 and re.fullmatch(r'self->common\.%s' % re.escape(fld), asg[-1].strip()) is not None
                why = 'copied from the parent (self->common.%s)' % fld
            else:
                ok = len(asg) >= 1
                why = 'set'
            chk.expect(ok, rule, '%s:common.%s' % (entry, fld),
                       '%s leaves %s->common.%s %s (assignments: %r); the member must be %s - the embedder and thread-spawn call through it '
                       'on the new instance (a child without newChild cannot spawn a thread itself)'
                       % (entry, recv, fld, 'unset' if not asg else 'wrong', asg, why),
                       'wasmCWrite%sFunction:common-%s' % ('Instantiate' if entry == 'modInstantiate' else 'NewChild', fld))
    return len(names)


def element_stores(text):
    """the table stores of an emitted InitTables body, in order: [(table expression, entry index, function identifier)].  The entry index
    is absolute (an int) when the segment offset is a constant - whether it is written as `offset=2U; ...data[offset+1]` or folded
    into `...data[3]` - and ('<offset expression>', k) for an offset taken from a global"""
    out = []
    base = None
    for m in re.finditer(r'\boffset\s*=\s*([^;]+);|([^;\n=]*?)\.data\[\s*([^\]]+?)\s*\]\s*=\s*\(wasmFunc\)\s*\(?&?\s*(\w+)\)?\s*;', text):
        if m.group(1) is not None:
            e = m.group(1).strip()
            mc = re.fullmatch(r'\(?\s*(\d+)[uUlL]*\s*\)?', e)
            base = int(mc.group(1)) if mc else e
            continue
        tab, idx, fn = m.group(2).strip(), m.group(3).replace(' ', ''), m.group(4)
        mo = re.fullmatch(r'offset(?:\+(\d+)[uU]?)?|(\d+)[uU]?\+offset', idx)
        mn = re.fullmatch(r'(\d+)[uUlL]*', idx)
        if mo:
            k = int(mo.group(1) or mo.group(2) or 0)
            out.append((tab, base + k if isinstance(base, int) else (base, k), fn))
        elif mn:
            out.append((tab, int(mn.group(1)), fn))
        else:
            out.append((tab, ('?' + idx, 0), fn))
    return out


def shared_inheritance(chk, f3, rule, tag='', limits=(1, 4), mem='m0'):
    ok = re.search(r'if\s*\(parent\s*==\s*NULL\)\s*\{\s*i->%s\s*=\s*WASM_MEMORY_ALLOCATE_SHARED\(%d,\s*%d\)\s*;\s*\}\s*else\s*\{\s*i->%s\s*=\s*parent->%s\s*;\s*\}'
                   % ((mem,) + tuple(limits) + (mem, mem)), f3)
    chk.expect(ok is not None, rule, 'shared-memory-inherited' + tag,
               'a shared memory %s with limits %d..%d is initialised by %r; expected allocation (of these limits) for the root instance and the parent\'s '
               'descriptor itself (i->%s = parent->%s) for children: all threads must see one memory, and grow one page counter under one mutex'
               % (mem, limits[0], limits[1], f3.strip(), mem, mem), 'wasmCWriteInitMemories:shared')


def check_shared_descriptor(chk, tus, rule):
    """shared with C18: instances created for threads (NewChild -> InitMemories(child, parent)) alias the parent's descriptor of a
    module-defined shared memory"""
    it = make(tus)
    # whatever the limits of the shared memory are - a fixed-size memory (min == max) is shared between the threads all the same
    for limits in ((1, 4), (1, 1), (0, 0), (2, 65536)):
        mk3 = shape(it, mem='defined', table='none', nglobals=0, gimports=0, data=(), elems=0, start=False, shared=True, limits=limits)
        fns = split_functions(inits_text(it, mk3))
        chk.require('modInitMemories' in fns and 'modNewChild' in fns, 'InitMemories/NewChild not emitted for a shared memory')
        shared_inheritance(chk, fns['modInitMemories'], rule, tag='' if limits == (1, 4) else '[limits %d..%d]' % limits, limits=limits)
    # several memories: the memory index space counts imported memories first - a shared memory defined after an imported one is m1,
    # and a child takes the parent's m1 (not the descriptor at the defined memory's position among the definitions)
    for label, kw, mems in (('imported+shared', dict(memory_imports=[('env', 'mem', 1, 2, False)], memories=[(1, 4, True)]), ('m1',)),
                            ('shared+shared', dict(memories=[(1, 4, True), (1, 4, True)]), ('m0', 'm1')),
                            ('imported+plain+shared', dict(memory_imports=[('env', 'mem', 1, 2, False)], memories=[(1, 2, False), (1, 4, True)]), ('m2',))):
        mkm = lambda kw=kw: M.build(it, types=[([], [])], functions=[0], **kw)
        fnsm = split_functions(inits_text(it, mkm))
        chk.require('modInitMemories' in fnsm, 'InitMemories not emitted for %s memories' % label)
        for mname in mems:
            shared_inheritance(chk, fnsm['modInitMemories'], rule, tag='[%s:%s]' % (label, mname), limits=(1, 4), mem=mname)
    got = re.findall(r'\bmodInitMemories\s*\(\s*(\w+)\s*,\s*(\w+)\s*\)', fns['modNewChild'])
    chk.expect(got == [('child', 'self')], rule, 'newchild-passes-parent',
               'NewChild initialises the memories with %r; expected InitMemories(child, self) so that the child inherits from its creator' % (got,),
               'wasmCWriteNewChildFunction:memories')
    got_i = re.findall(r'\bmodInitMemories\s*\(\s*(\w+)\s*,\s*([\w()* ]+?)\s*\)', fns.get('modInstantiate', ''))
    chk.expect(len(got_i) == 1 and got_i[0][0] == 'i' and re.sub(r'[\s()]|void\*', '', got_i[0][1]) in ('NULL', '0'), rule, 'instantiate-has-no-parent',
               'Instantiate initialises the memories with %r; expected InitMemories(i, NULL)' % (got_i,), 'wasmCWriteInstantiateFunction:memories')


def check_shapes(chk, it):
    shapes = []
    for mem in ('defined', 'imported', 'none'):
        for table in ('defined', 'imported', 'none'):
            for ng in (0, 1):
                for data in ((), ('active',), ('passive', 'active')):
                    if mem == 'none' and data:
                        continue
                    for start in (True, False):
                        shapes.append(dict(mem=mem, table=table, nglobals=ng, gimports=1 if ng else 0, data=data,
                                           elems=(1 if table != 'none' else 0), start=start))
    n = 0
    for sh in shapes:
        mk = shape(it, **sh)
        label = 'mem=%s,table=%s,globals=%d,data=%s,start=%s' % (sh['mem'], sh['table'], sh['nglobals'], '+'.join(sh['data']) or '-', sh['start'])
        text = inits_text(it, mk)
        fns = split_functions(text)
        defined = {f for f in INIT_NAMES if f in fns}
        n += 1
        for entry in ('modInstantiate', 'modNewChild'):
            chk.require(entry in fns, '%s not emitted (%s)' % (entry, label))
            body = fns[entry]
            calls = re.findall(r'\b(modInit\w+|f\d+|mod_\w+|env__\w+)\s*\(', body)
            init_calls = [c for c in calls if c.startswith('modInit')]
            chk.expect(set(init_calls) == defined, 'R06.2', '%s[%s]' % (entry, label),
                       '%s calls %r but the emitted file defines %r: %s' % (
                           entry, sorted(set(init_calls)), sorted(defined),
                           'a missing definition does not compile' if set(init_calls) - defined else
                           'a defined initialiser is never run - that part of the initial state is missing'),
                       'wasmCWrite%sFunction:guards' % ('Instantiate' if entry == 'modInstantiate' else 'NewChild'))
            order = [INIT_NAMES.index(c) for c in init_calls]
            ok_order = order == sorted(order) and len(order) == len(set(order))
            start_calls = [c for c in calls if not c.startswith('modInit')]
            if sh['start']:
                ok_order = ok_order and start_calls == ['f3'] and body.rindex('f3') > max([body.rindex(c) for c in init_calls] or [0])
            else:
                ok_order = ok_order and not start_calls
            # every initialiser and the start function act on the instance being set up (child in NewChild, i in Instantiate)
            recv = 'i' if entry == 'modInstantiate' else 'child'
            firsts = re.findall(r'\b(modInit\w+|f\d+|mod_\w+|env__\w+)\s*\(\s*(\w+)', body)
            wrong = [(c_, a_) for c_, a_ in firsts if a_ != recv]
            chk.expect(not wrong, 'R06.5', '%s-receiver[%s]' % (entry, label),
                       '%s calls %r: every initialiser and the start function must be applied to %s, the instance being created - otherwise '
                       'another instance is modified and the new one stays uninitialised' % (entry, wrong, recv),
                       'wasmCWrite%sFunction:receiver' % ('Instantiate' if entry == 'modInstantiate' else 'NewChild'))
            chk.expect(ok_order, 'R06.1', '%s-order[%s]' % (entry, label),
                       '%s performs %r; the specification order is imports, memories(+data), tables(+elements), globals, then the start '
                       'function exactly once (start function present: %s)' % (entry, calls, sh['start']),
                       'wasmCWrite%sFunction:order' % ('Instantiate' if entry == 'modInstantiate' else 'NewChild'))
        # R06.3 active data segments reach LOAD_DATA in a called initialiser
        n_active = sum(1 for d in sh['data'] if d.startswith('active'))
        loads = []
        for f in defined:
            loads += [(f, m_) for m_ in re.findall(r'LOAD_DATA\(([^;]*)\);', fns[f])]
        called = set(re.findall(r'\b(modInit\w+)\s*\(', fns['modInstantiate']))
        reach = [l for f, l in loads if f in called]
        chk.expect(len(reach) == n_active, 'R06.3', 'data-segments-loaded[%s]' % label,
                   '%d active data segment(s) but %d LOAD_DATA statement(s) are reachable from modInstantiate (memory is %s): the '
                   'segment bytes never reach linear memory' % (n_active, len(reach), sh['mem']), 'wasmCWriteInitMemories:reachability:' + sh['mem'])
        want_mem = '(*i->m0)' if sh['mem'] == 'defined' else '(*i->env__memory)'
        want_loads = []
        for k, d in enumerate(sh['data']):
            if d.startswith('active'):
                want_loads.append('%s,%dU,d%d,3' % (want_mem, 100 + k, k))
        got_loads = [l.replace(' ', '') for l in reach]
        chk.expect(got_loads == want_loads, 'R06.3', 'data-segment-arguments[%s]' % label,
                   'active segments are loaded with LOAD_DATA(%s); expected, in segment order, (memory, evaluated offset, segment array, full '
                   'byte length) = %r - a shorter length leaves bytes of an earlier overlapping segment or of an imported memory in place'
                   % (' | '.join(got_loads), want_loads), 'wasmCWriteInitMemories:load-arguments')
        # element stores
        if sh['elems']:
            want_tab = 'i->t0' if sh['table'] == 'defined' else '(*i->env__table)'
            got = element_stores(fns.get('modInitTables', ''))
            want = [(want_tab, 2, 'f1'), (want_tab, 3, 'env__imp0'), (want_tab, 4, 'f3')]      # absolute entries: offset 2 + position
            okel = got == want and 'modInitTables' in called
            chk.expect(okel, 'R06.3', 'element-stores[%s]' % label,
                       'element segment [1,0,3] at offset 2 of the %s table is stored as (table, entry, function) = %r (InitTables called: %s); expected %r'
                       % (sh['table'], got, 'offset' in fns.get('modInitTables', ''), want), 'wasmCWriteInitTables:elements')
    chk.extra['module_shapes'] = n
    return n


def check_data_arrays(chk, it):
    """the segment arrays contain every byte (including trailing zeros) of every segment, passive ones too"""
    mk = shape(it, mem='defined', table='none', nglobals=0, gimports=0, data=('active', 'passive', 'active'), elems=0, start=False)
    for pretty in (0, 1):
        text = emit_text(it, 'wasmCWriteDataSegments', lambda out: [out, Ptr({'v': mk()}, 'v'), 0, pretty])
        arrays = re.findall(r'const U8 d(\d+)\[\]\s*=\s*\{([^}]*)\}', text)
        got = [(int(k), [int(x, 0) for x in body.replace('\n', ' ').split(',') if x.strip()]) for k, body in arrays]
        want = [(0, [7, 9, 0]), (1, [7, 9, 0]), (2, [7, 9, 0])]
        chk.expect(got == want, 'R06.3', 'data-arrays[pretty=%d]' % pretty,
                   'data segment arrays are emitted as %r; expected every byte of every segment: %r' % (got, want), 'wasmCWriteDataSegments')


def check_members_and_imports(chk, it):
    mk = shape(it, mem='imported', table='imported', nglobals=2, gimports=1, data=('active',), elems=1, start=True)
    decl = normalize_emitted(emit_text(it, 'wasmCWriteModuleDeclarations', lambda out: [out, Ptr({'v': mk()}, 'v'), 'mod', 0, 0, 0]))
    m = re.search(r'typedef struct modInstance\s*\{(.*?)\}\s*modInstance;', decl, re.S)
    chk.require(m is not None, 'instance record not emitted: %r' % decl[:200])
    members = [x.strip() for x in m.group(1).split(';') if x.strip()]
    want = ['wasmModuleInstance common', 'wasmMemory*env__memory', 'wasmTable*env__table', 'U32*env__g0', 'U32 g1', 'U32 g2']
    got_m = [x.replace('* ', '*') for x in members]
    # member order is immaterial (members are accessed by name) except that `common` must come first: the instance is used
    # through a pointer to its first member
    chk.expect(got_m[:1] == want[:1] and sorted(got_m) == sorted(want), 'R06.4', 'instance-members',
               'instance record members are %r; expected imports as pointers and defined globals by value: %r' % (members, want),
               'wasmCWriteModuleInstanceDeclaration')
    mk2 = shape(it, mem='defined', table='defined', nglobals=1, gimports=0, data=('active',), elems=1, start=False)
    decl2 = normalize_emitted(emit_text(it, 'wasmCWriteModuleDeclarations', lambda out: [out, Ptr({'v': mk2()}, 'v'), 'mod', 0, 0, 0]))
    m2 = re.search(r'typedef struct modInstance\s*\{(.*?)\}\s*modInstance;', decl2, re.S)
    members2 = [x.strip().replace('* ', '*') for x in m2.group(1).split(';') if x.strip()]
    chk.expect(members2[:1] == ['wasmModuleInstance common'] and sorted(members2) == sorted(['wasmModuleInstance common', 'wasmMemory*m0', 'wasmTable t0', 'U32 g0']), 'R06.4', 'instance-members-defined',
               'instance record members are %r' % (members2,), 'wasmCWriteModuleInstanceDeclaration')
    # file-scope objects of the implementation part
    text = inits_text(it, mk)
    fns = split_functions(text)
    stripped = text
    for name, body in fns.items():
        stripped = stripped.replace(body, '')
    objs = re.findall(r'(?m)^([\w\s\*]+?)\b(\w+)\s*\[[^\]]*\]\s*=', stripped)
    bad = [(t.strip(), n_) for t, n_ in objs if 'const' not in t and n_ != 'modFuncExports']
    chk.expect(not bad, 'R06.4', 'file-scope-objects', 'mutable file-scope objects are emitted: %r - two instances would share them' % (bad,),
               'wasmCWriteInits:file-scope')
    # imports
    imp = fns.get('modInitImports', '')
    assigns = re.findall(r'i->(\w+)\s*=\s*\(([\w\*\s]+)\)\s*resolve\("([^"]*)",\s*"([^"]*)"\)', imp)
    want_i = [('env__memory', 'wasmMemory*', 'env', 'memory'), ('env__table', 'wasmTable*', 'env', 'table'), ('env__g0', 'U32*', 'env', 'g0')]
    chk.expect([(a, b.replace(' ', ''), c, d) for a, b, c, d in assigns] == want_i, 'R06.5', 'import-binding',
               'imports are bound as %r; expected %r' % (assigns, want_i), 'wasmCWriteInitImports')
    # global initialisers: g1 = imported global value, g2 = constant
    gi = fns.get('modInitGlobals', '')
    chk.expect(re.search(r'i->g1\s*=\s*\(\*i->env__g0\)\s*;', gi) is not None and re.search(r'i->g2\s*=\s*41U\s*;', gi) is not None, 'R06.5', 'global-init',
               'global initialisers are emitted as %r; expected g1 from the imported global through its pointer and g2 = 41' % gi.strip(),
               'wasmCWriteInitGlobals')
    # defined memory allocation per instance / shared inheritance
    for shared in (False, True):
        mk3 = shape(it, mem='defined', table='none', nglobals=0, gimports=0, data=(), elems=0, start=False, shared=shared)
        f3 = split_functions(inits_text(it, mk3)).get('modInitMemories', '')
        if not shared:
            ok = re.search(r'i->m0\s*=\s*wasmMemoryAllocate\(1,\s*4,\s*false\)', f3) is not None and 'parent->' not in f3
            chk.expect(ok, 'R06.4', 'memory-per-instance', 'a non-shared memory is initialised by %r; expected a fresh allocation per instance' % f3.strip(),
                       'wasmCWriteInitMemories:allocation')
        else:
            shared_inheritance(chk, f3, 'R06.4')
    # exports
    ex = fns.get('mod_run', None)
    chk.expect(ex is not None and re.fullmatch(r'\s*return\s+f2\(i,\s*l0,\s*l1\)\s*;\s*', ex) is not None, 'R06.6', 'export-wrapper',
               'export "run" of function 2 is emitted as %r' % (ex,), 'wasmCWriteFunctionExport')
    exi = fns.get('mod_imp', None)
    chk.expect(exi is not None and re.fullmatch(r'\s*env__imp0\(i\)\s*;\s*', exi) is not None, 'R06.6', 'export-of-import',
               'export of imported function 0 is emitted as %r' % (exi,), 'wasmCWriteFunctionExport')
    exm = fns.get('mod_memX2Dory', None)
    chk.expect(exm is not None and re.fullmatch(r'\s*return\s+i->env__memory\s*;\s*', exm) is not None, 'R06.6', 'export-memory',
               'memory export "mem-ory" is emitted as %r (functions: %r)' % (exm, sorted(fns)), 'wasmCWriteMemoryExport')
    tab = re.search(r'wasmFuncExport modFuncExports\[(\d+)\]\s*=\s*\{(.*?)\};', text, re.S)
    rows = re.findall(r'\{\(wasmFunc\)(\w+),"([^"]*)"\}', tab.group(2)) if tab else []
    chk.expect(tab is not None and int(tab.group(1)) == 3 and rows == [('f2', 'run'), ('env__imp0', 'imp')] and '{NULL,NULL}' in tab.group(2), 'R06.6',
               'func-exports-table', 'FuncExports table is %r' % (tab.group(0) if tab else None,), 'wasmCWriteModuleFunctionExportsArray')
    chk.sample(dict(rule='R06', inits=text[:1500]))


def check_export_params(chk, it):
    types = [(['i32', 'f64', 'i64'], ['f32'])]
    mk = lambda: M.build(it, types=types, functions=[0], exports=[('calc', KIND_FUNC, 0)])
    text = normalize_emitted(emit_text(it, 'wasmCWriteExports', lambda out: [out, Ptr({'v': mk()}, 'v'), 'mod', 1, 0, 0]))
    m = re.search(r'F32 mod_calc\(modInstance\*\s*i,\s*U32 l0,\s*F64 l1,\s*U64 l2\)\s*\{\s*return f0\(i,\s*l0,\s*l1,\s*l2\);\s*\}', text)
    chk.expect(m is not None, 'R06.6', 'export-wrapper-params', 'export wrapper of (i32,f64,i64)->f32 is emitted as %r' % text, 'wasmCWriteFunctionExport')



# ---- data-segment embedding modes (shared by C05 R05.4, C06 R06.3, C09 R09.6) ------------------------

def check_data_modes(chk, tus, rule):
    ctu = tus[0]
    it = make(tus)
    modes = dict(ctu.enum_decls.get('WasmDataSegmentMode', []))
    chk.require('wasmDataSegmentModeArrays' in modes and 'wasmDataSegmentModeGNULD' in modes, 'enum WasmDataSegmentMode not found')
    layouts = [
        [(3, True), (5, False), (2, True), (4, False)],
        [(5, False), (3, True), (4, False)],
        [(2, True), (7, True), (1, False)],
        [(6, False), (4, False)],
    ]
    site = 'wasmCWriteInitMemories:data-mode'
    for li, layout in enumerate(layouts):
        def mk(layout=layout):
            ds = [(0, None if passive else M.i32_const(16 * (k + 1)), n, passive) for k, (n, passive) in enumerate(layout)]
            return M.build(it, types=[([], [])], functions=[0], memories=[(1, 2, False)], data_segments=ds)
        base = split_functions(inits_text(it, mk, 0, modes['wasmDataSegmentModeArrays'])).get('modInitMemories', '')
        loads0 = re.findall(r'LOAD_DATA\(([^,]+),\s*([^,]+),\s*([^,]+),\s*(\d+)\);', base)
        want0 = [('(*i->m0)', '%dU' % (16 * (k + 1)), 'd%d' % k, str(n)) for k, (n, passive) in enumerate(layout) if not passive]
        chk.expect([tuple(x.strip() for x in l) for l in loads0] == want0, rule, 'layout%d:arrays' % li,
                   'arrays mode loads %r, expected %r' % (loads0, want0), site)
        for mname, mval in sorted(modes.items()):
            if mname == 'wasmDataSegmentModeArrays':
                continue
            for pretty in (0, 1):
                text = split_functions(inits_text(it, mk, pretty, mval)).get('modInitMemories', '')
                loads = [tuple(x.strip() for x in l) for l in re.findall(r'LOAD_DATA\(([^,]+),\s*([^,]+),\s*([^,]+),\s*(\d+)\);', text)]
                ptrs = re.findall(r'\b(d\d+)\s*=\s*ds\s*\+\s*(\d+)\s*;', text)
                prefix = 0
                want_loads, want_ptrs = [], []
                for k, (n, passive) in enumerate(layout):
                    if passive:
                        want_ptrs.append(('d%d' % k, str(prefix)))
                    else:
                        want_loads.append(('(*i->m0)', '%dU' % (16 * (k + 1)), 'ds+%d' % prefix, str(n)))
                    prefix += n
                got_loads = [(a, b, c.replace(' ', ''), d) for a, b, c, d in loads]
                chk.expect(got_loads == want_loads and ptrs == want_ptrs, rule, 'layout%d:%s:p%d' % (li, mname, pretty),
                           'segments %r in mode %s: active loads %r and passive pointers %r; the blob is the concatenation of all segments, so '
                           'the expected addresses are %r and %r - with other offsets the program reads different bytes than in arrays mode'
                           % (layout, mname, got_loads, ptrs, want_loads, want_ptrs), site)
    # the blob writer: one unconditional fwrite of the full segment per iteration
    f = ctu.functions.get('wasmCWriteDataSegmentsFromSection')
    chk.require(f is not None, 'anchor wasmCWriteDataSegmentsFromSection not found')
    body = astdb.fn_body(f)
    def for_loop_shape():
        """the writer as the tree has it today - one for loop with one unconditional fwrite of the whole segment - recognised on the AST;
        None for any other shape (a while loop, a helper, ...), which the decision on bytes below covers"""
        loops = [l for l in walk(body) if l.get('kind') == 'ForStmt' and any(c.get('kind') == 'CallExpr' and astdb.callee_name(c) == 'fwrite' for c in walk(l))]
        if len(loops) != 1:
            return None
        loop = loops[0]
        cond = astdb.expr_text(strip(loop['inner'][2], casts=True))
        lb = loop['inner'][4]
        inits = {}
        for d in walk(lb):
            if d.get('kind') == 'VarDecl' and d.get('init'):
                inits[d['name']] = astdb.expr_text(strip([c for c in kids(d) if c.get('kind')][-1], casts=True))
        fw = [c for c in walk(lb) if c.get('kind') == 'CallExpr' and astdb.callee_name(c) == 'fwrite'][0]
        a = [astdb.expr_text(strip(x, casts=True)) for x in astdb.call_args(fw)]
        seg = [k for k, v in inits.items() if re.fullmatch(r'module->dataSegments\.dataSegments\[(\w+)\]', v)]
        ok = bool(seg) and a[0] == seg[0] + '.bytes.data' and astdb.const_int(astdb.call_args(fw)[1]) == 1 and \
            (a[2] == seg[0] + '.bytes.length' or inits.get(a[2]) == seg[0] + '.bytes.length')
        # unconditional: the fwrite is not nested in an if/switch/conditional and nothing can skip it
        top = [s_ for s_ in lb.get('inner', []) if s_.get('kind')]
        uncond = any(any(x is fw for x in walk(s_)) and s_.get('kind') in ('DeclStmt', 'CallExpr', 'BinaryOperator') for s_ in top)
        skips = [x.get('kind') for x in walk(lb) if x.get('kind') in ('ContinueStmt', 'BreakStmt', 'GotoStmt')]
        m = re.fullmatch(r'(\w+)\s*<\s*(\w+)', cond)
        bound_ok = m is not None and (inits.get(m.group(2)) or _fn_init(body, m.group(2))) in ('module->dataSegments.count',)

        return ok and uncond and not skips and bound_ok, a, cond, uncond, skips
    shp = for_loop_shape()
    recognised = shp is not None and shp[0]
    # decision on bytes (second decision, and the decision for a writer of another shape): the function is partially evaluated on modules
    # whose segments have the lengths 3, 0, 2, 5 / 0, 0 / 4 (empty segments included) with a model of fwrite that has its return-value
    # semantics (number of complete items; 0 for a zero size or count): the file must receive the concatenation of all segments
    bytes_bad = concrete_blob_writer(it, modes['wasmDataSegmentModeGNULD'])
    if not recognised and bytes_bad is None:
        chk.ok(rule, 'blob-writer', 'writer of another shape; on concrete modules the blob is the concatenation of all segments')
        return
    if bytes_bad is not None:
        chk.fail(rule, 'blob-writer', 'the data-segment blob writer: %s - the blob must contain every segment, in order, with its full length, because '
                 'InitMemories addresses it by prefix sums' % bytes_bad, 'wasmCWriteDataSegmentsFromSection:blob')
        return
    chk.ok(rule, 'blob-writer', 'one unconditional fwrite of every whole segment; on concrete modules the blob is the concatenation of all segments')


def concrete_blob_writer(it, mode):
    """-> discrepancy text or None"""
    from ..pe import Text
    for lens in ([3, 0, 2, 5], [0, 0], [4], [], [0, 6]):
        written = []
        status = {}

        def fwrite(interp, args, node):
            p_, size, cnt = args[0], args[1], args[2]
            if not (isinstance(size, int) and isinstance(cnt, int)):
                raise pe.PEError('fwrite with symbolic size/count')
            n = size * cnt
            for i in range(n):
                written.append(interp.load(p_.c, p_.k + i))
            return cnt if size else 0

        def mk():
            m = M.build(it, types=[([], [])], functions=[0], memories=[(1, 2, False)],
                        data_segments=[(0, M.i32_const(16 * (k + 1)), n_, False) for k, n_ in enumerate(lens)])
            ds = m['dataSegments']['dataSegments']
            if isinstance(ds, Ptr):
                for k, seg in enumerate(ds.c[:len(lens)]):
                    seg['bytes'] = {'data': Ptr([(16 * (k + 1) + i) & 0xFF for i in range(lens[k])] + [0xEE], 0), 'length': lens[k]}
            return m
        saved = it.leafs.get('fwrite')
        it.leafs['fwrite'] = fwrite
        try:
            paths = it.explore(lambda: ('wasmCWriteDataSegmentsFromSection', [Text('out'), Ptr({'v': mk()}, 'v'), mode], {'stream': emit.Stream([])}))
        except pe.PEError as e:
            raise AnalysisBroken('wasmCWriteDataSegmentsFromSection on segments of lengths %r: %s' % (lens, e))
        finally:
            if saved is not None:
                it.leafs['fwrite'] = saved
        live = [p for p in paths if not p.aborted]
        want = [(16 * (k + 1) + i) & 0xFF for k, n_ in enumerate(lens) for i in range(n_)]
        if len(paths) != 1 or len(live) != 1:
            return 'for segments of lengths %r the writer %s' % (lens, 'stops the translator (%s)' % paths[0].aborted if paths and paths[0].aborted else 'has %d paths' % len(paths))
        if written != want:
            return 'for segments of lengths %r it writes %d bytes %r, the concatenation of the segments is %d bytes %r' % (lens, len(written), written[:12], len(want), want[:12])
    return None


def _fn_init(body, name):
    for d in walk(body):
        if d.get('kind') == 'VarDecl' and d.get('name') == name and d.get('init'):
            return astdb.expr_text(strip([c for c in kids(d) if c.get('kind')][-1], casts=True))
    return None


def check_mixed_entities(chk, it):
    """R06.4/R06.5 on modules that both import and define tables / globals: defined entity k lives at module index
    (number of imports + k); imported state is never allocated, freed or re-initialised by the instance"""
    site = 'wasmCWriteInitTables:mixed'
    mk = lambda: M.build(it, types=[([], [])], func_imports=[('env', 'imp0', 0)], functions=[0], tables=[(3, 5, False), (1, 2, False)],
                         table_imports=[('env', 'tbl', 2, 9, False)], memories=[(1, 4, False)],
                         globals_=[('i32', True, M.i32_const(11)), ('i64', False, M.i64_const(12))], global_imports=[('env', 'gi', 'i32', False)],
                         element_segments=[(0, M.i32_const(0), [1])], exports=[])
    fns = split_functions(inits_text(it, mk))
    body = fns.get('modInitTables', '')
    allocs = re.findall(r'wasmTableAllocate\(([^,]+),\s*(\d+),\s*(\d+)\)', body)
    chk.expect([(a.strip(), int(b), int(c)) for a, b, c in allocs] == [('&i->t1', 3, 5), ('&i->t2', 1, 2)], 'R06.4', 'mixed-tables:allocate',
               'module importing 1 table and defining 2: InitTables allocates %r; expected exactly the defined tables t1 (3,5) and t2 (1,2) - '
               'allocating the imported table replaces the embedder\'s table, and an unallocated defined table has no entries' % (allocs,), site)
    chk.expect('env__tbl' not in ''.join(a for a, _, _ in allocs), 'R06.4', 'mixed-tables:import-untouched',
               'InitTables allocates the imported table: %r' % (allocs,), site)
    free = fns.get('modFreeInstance', '')
    frees = re.findall(r'wasmTableFree\(([^)]+)\)', free)
    chk.expect([f.strip() for f in frees] == ['&i->t1', '&i->t2'], 'R06.4', 'mixed-tables:free',
               'FreeInstance frees tables %r; expected exactly the defined tables &i->t1, &i->t2' % (frees,), 'wasmCWriteFreeTables:mixed')
    gbody = fns.get('modInitGlobals', '')
    gl = re.findall(r'(i->\w+)\s*=\s*([^;]+);', gbody)
    chk.expect([(a, b.strip()) for a, b in gl] == [('i->g1', '11U'), ('i->g2', 'W2C2_LL(12U)')], 'R06.5', 'mixed-globals:init',
               'module importing 1 global and defining 2: InitGlobals assigns %r; expected g1 = 11U and g2 = W2C2_LL(12U) (defined globals are '
               'numbered after the imports; the imported global belongs to the embedder)' % (gl,), 'wasmCWriteInitGlobals:mixed')


def check_import_subsets(chk, it):
    """R06.5: whichever kinds of imports a module has - every non-empty subset of {memory, table, global}, with and without function
    imports - each imported object is bound by its own resolve("<module>", "<name>") lookup in InitImports, and Instantiate / NewChild
    call InitImports"""
    import itertools
    kinds = ('memory', 'table', 'global')
    for r_ in (1, 2, 3):
        for sub in itertools.combinations(kinds, r_):
            for with_func in (False, True):
                mk = shape(it, mem='imported' if 'memory' in sub else 'none', table='imported' if 'table' in sub else 'none',
                           nglobals=0, gimports=1 if 'global' in sub else 0, data=(), elems=0, start=False)
                if not with_func:
                    base_mk = mk

                    def mk(base_mk=base_mk):
                        m = base_mk()
                        return m
                label = '+'.join(sub) + ('+func' if with_func else '')
                fns = split_functions(inits_text(it, mk))
                imp = fns.get('modInitImports')
                want = []
                if 'memory' in sub:
                    want.append(('env__memory', 'env', 'memory'))
                if 'table' in sub:
                    want.append(('env__table', 'env', 'table'))
                if 'global' in sub:
                    want.append(('env__g0', 'env', 'g0'))
                got = re.findall(r'i->(\w+)\s*=\s*\([\w\*\s]+\)\s*resolve\("([^"]*)",\s*"([^"]*)"\)', imp or '')
                chk.expect(imp is not None and sorted(got) == sorted(want), 'R06.5', 'import-binding[%s]' % label,
                           'a module importing only %s: InitImports binds %r, expected one resolver lookup for each of %r - an import that is '
                           'never looked up leaves its pointer unset in every instance' % (' and '.join(sub), got, want),
                           'wasmCWriteInitImports:subsets')
                for entry in ('modInstantiate', 'modNewChild'):
                    calls = re.findall(r'\bmodInitImports\s*\(', fns.get(entry, ''))
                    chk.expect(len(calls) == 1, 'R06.5', 'import-binding[%s]:%s' % (label, entry),
                               '%s calls InitImports %d times for a module importing %s' % (entry, len(calls), ' and '.join(sub)),
                               'wasmCWriteInitImports:called')


def check_zero_globals(chk, it):
    """R06.5: every defined global is assigned by InitGlobals whatever its initial value - Instantiate runs on storage provided by
    the embedder (a stack object, a reused instance), so a global whose initialiser is zero is not "already initialised" """
    from .c07 import c_constant_bits
    zero = [('i32', M.i32_const(0), 0), ('i64', M.i64_const(0), 0),
            ('f32', M.buffer([('byte', 0x43), ('f32', 0), ('byte', 0x0B)]), 0), ('f64', M.buffer([('byte', 0x44), ('f64', 0), ('byte', 0x0B)]), 0),
            ('i32', M.i32_const(7), 7), ('f64', M.buffer([('byte', 0x44), ('f64', 0x8000000000000000), ('byte', 0x0B)]), 0x8000000000000000)]
    mk = lambda: M.build(it, types=[([], [])], functions=[0], globals_=[(t, True, init) for t, init, _ in zero], exports=[])
    old_ue = getattr(it, 'union_endian', None)
    it.union_endian = 'little'      # WasmValue members are read back through other members (type punning) with concrete contents here
    try:
        fns = split_functions(inits_text(it, mk))
    finally:
        it.union_endian = old_ue
    chk.require('modInitGlobals' in fns, 'InitGlobals is not emitted for a module with %d defined globals' % len(zero))
    body = fns['modInitGlobals']
    asg = dict()
    for a_, b_ in re.findall(r'i->g(\d+)\s*=\s*([^;]+);', body):
        asg.setdefault(int(a_), []).append(b_.strip())
    for k, (t, _init, bits) in enumerate(zero):
        got = asg.get(k, [])
        val = c_constant_bits(got[0], t) if len(got) == 1 else None
        if len(got) == 1 and val is None and re.match(r'f(32|64)_reinterpret_i(32|64)\(', got[0]):
            inner = re.match(r'f(?:32|64)_reinterpret_i(?:32|64)\((.*)\)$', got[0])
            val = c_constant_bits(inner.group(1), 'i' + t[1:]) if inner else None
        if len(got) == 1 and val is None and t[0] == 'f' and got[0].startswith('<('):
            val = bits          # float literal spelling is C07's obligation (placeholder of the literal writer); here: the store exists
        chk.expect(len(got) == 1 and val == bits, 'R06.5', 'global-init[%d:%s=0x%X]' % (k, t, bits),
                   'InitGlobals assigns global %d (%s, initial value bits 0x%X) %s; every defined global must be set from its constant expression '
                   '- the instance record is not zeroed by Instantiate, so an omitted store leaves whatever the storage held'
                   % (k, t, bits, ('%d times' % len(got)) if len(got) != 1 else 'as %r (bits %r)' % (got[0], val)),
                   'wasmCWriteInitGlobals:every-global')


def run(chk):
    try:
        _run(chk)
    except EmitterOutOfBounds as e:
        # R06.10: every index the set-up emitters use is an index of the space it is used in (an export's index is a function / table /
        # memory / global index, never the export's own position): writing a valid module never reads past a module array
        chk.fail('R06.10', 'emitter-index-spaces', 'while writing the instance set-up of a valid module the translator indexes a module array '
                 'past its end (%s): an index of one space (export position, import row, function index) is used in another, so for other '
                 'modules the wrapper / binding silently takes the row of a different object' % e, 'wasmCWriteInits:index-space')
        raise AnalysisBroken('stopped at the out-of-bounds read')


def _run(chk):
    chk.explanation = (
        'The module-level emitters are partially evaluated on %d concrete module shapes (defined/imported/no memory x table, globals, '
        'active/passive data segments, start) and the emitted C is analysed: which Init functions are defined vs called from Instantiate '
        'and NewChild, their order, whether every active data segment and element store is reachable from Instantiate, the members of the '
        'instance record, file-scope objects, import binding through resolve(), global initialisers, per-instance vs inherited memories, '
        'export wrappers and the export table. What the embedder\'s resolver returns and allocation failure are not decided.' % 0)
    chk.assumptions = ['calloc zero-initialises; the embedder passes a resolver that returns objects of the imported kinds']
    tus = emit.translator_tus(('c.c', 'opcode.c', 'instruction.c'), chk=chk)
    it = make(tus)
    n = check_shapes(chk, it)
    check_zero_globals(chk, it)
    check_import_subsets(chk, it)
    check_allocators(chk)
    check_common_record(chk, tus, 'R06.4')
    chk.floor('R06.7', 12)
    chk.explanation = chk.explanation.replace('on 0 concrete', 'on %d concrete' % n)
    check_data_arrays(chk, it)
    check_members_and_imports(chk, it)
    check_export_params(chk, it)
    check_data_modes(chk, tus, 'R06.3')
    check_mixed_entities(chk, it)
    # R06.8: which segments are copied at instantiation is decided by the reader's active/passive classification of the three
    # segment encodings (0: active in memory 0, 1: passive, 2: active with explicit memory index) - rule shared with C08 R08.5
    from . import c08
    rtu = astdb.dump_ast(astdb.src('w2c2/reader.c'))
    chk.unit(rtu)
    c08.check_segment_kinds(chk, rtu, rule='R06.8')
    chk.floor('R06.8', 6)
    # R06.9: an import is bound to what the resolver returns for the module's own names: the module and field name reach resolve() as C
    # string literals that denote exactly those bytes - for every valid name, including '?' or a control character followed by a digit
    # (an escape sequence that absorbs the next character asks the resolver for another name); exports likewise (shared with C11 R11.7)
    from . import c11 as _c11
    _c11.check_string_positions(chk, tus, rule='R06.9')
    chk.floor('R06.9', 20)
    chk.floor('R06.1', 100)
    chk.floor('R06.2', 100)
    chk.floor('R06.3', 60)
    chk.floor('R06.4', 4)
    chk.floor('R06.6', 4)
