"""C12  WASI file I/O returns the bytes, counts and offsets a POSIX file would.

R12.1  ABI signatures: the C parameter list of each import equals the witx core signature (i32 -> 32-bit, i64 ->
       64-bit unsigned); a 64-bit file offset reaches the native call un-narrowed
R12.2  guest layouts: every store/load on a result or argument pointer uses the offset and width of the witx
       field (iovec stride 8 with buf@0,len@4; nread/nwritten u32; newoffset u64; filestat of both generations;
       fdstat); zero-fills have the struct size
R12.3  tables: whence conversion of both generations, errno mapping, oflags/fdflags -> host open flags, access
       mode from the read/write rights
R12.4  positional emulation: seek to offset, transfer, seek back to the saved position on every path; the
       transfer's errno survives the restoring seek
R12.5  scatter/gather order: entry k is taken from guest address ptr + 8k, ascending, and the native call gets
       the array and the same count
R12.6  error discipline: a failed native call never yields SUCCESS; success paths store the result first
R12.7  fd_close in a sequence: the closed table slot no longer holds the native descriptor, and read/write/seek/tell/filestat/close on
       the closed number are EBADF without any native call (rules shared with C13)
R12.8  call sequences: every sequence of up to 3 (thorough 4) write/read/pwrite/pread/seek/tell calls on one descriptor, evaluated on a
       concrete guest memory and a model of a regular file, agrees call by call with an independent POSIX reference (return code,
       stored count/offset, data, file contents, file position)
"""
import re
from .. import astdb, pe, wasi as W, wasi_oracle as O, runtime, ctyperules as ct
from ..astdb import kids, walk, AnalysisBroken
from ..pe import Sym, Ptr, unk, is_sym
from .c13 import std_table

SUCCESS = 0
CT = {'i32': ('int', 32), 'i64': ('int', 64)}


def lin(v):
    """linear form {base: coefficient, 1: constant} of an address expression (casts ignored), or None"""
    if isinstance(v, int) and not isinstance(v, bool):
        return {1: v}
    if isinstance(v, Ptr):
        return {('ptr', id(v.c)): 1, 1: v.k if isinstance(v.k, int) else 0}
    if not is_sym(v):
        return None
    if v.op == 'cast':
        return lin(v.args[0])
    if v.op in ('+', '-') and len(v.args) == 2:
        a, b = lin(v.args[0]), lin(v.args[1])
        if a is None or b is None:
            return None
        out = dict(a)
        for k, c in b.items():
            out[k] = out.get(k, 0) + (c if v.op == '+' else -c)
        return {k: c for k, c in out.items() if c != 0 or k == 1}
    if v.op == '*' and len(v.args) == 2:
        for x, y in ((v.args[0], v.args[1]), (v.args[1], v.args[0])):
            if isinstance(y, int):
                a = lin(x)
                if a is not None:
                    return {k: c * y for k, c in a.items()}
        return None
    return {v: 1}


def offset_from(v, base):
    f = lin(v)
    if f is None:
        return None
    rest = {k: c for k, c in f.items() if k != 1 and c != 0}
    if rest == {base: 1}:
        return f.get(1, 0)
    return None


def check_signatures(chk, tu):
    eps = W.entry_points(tu)
    n = 0
    for imp, gens in sorted(eps.items()):
        want = O.SIG.get(imp)
        for gen, f in sorted(gens.items()):
            if want is None:
                chk.note('import %s/%s is not part of the witx oracle' % (gen, imp))
                continue
            pts = W.param_types(tu, f)[1:]
            got = []
            for t in pts:
                ti = ct.tinfo(t)
                got.append('i%d' % ti[1] if ti[0] == 'int' and ti[1] in (32, 64) else t)
            n += 1
            ok = got == want
            if imp in O.C12_IMPORTS:
                chk.expect(ok, 'R12.1', '%s/%s:signature' % (gen, imp),
                           '%s is declared with parameters (%s) but its witx signature lowers to (%s): the generated call passes '
                           'a 64-bit value that this definition truncates / the argument registers do not line up'
                           % (f['name'], ', '.join(got), ', '.join(want)), '%s:signature' % imp, astdb.loc_str(f))
            elif not ok:
                chk.note('signature of %s/%s is (%s), witx says (%s) - outside the imports named by C12' % (gen, imp, ', '.join(got), ', '.join(want)))
    chk.require(n >= 80, 'only %d imports with an oracle signature' % n)


def io_paths(tu, fname, count, extra=None, fd_slot=4, offset=None, errno_value=5):
    def mk(it, st):
        args = [unk('instance'), fd_slot, unk('iovs', 'unsigned int'), count]
        if offset is not None:
            args.append(offset)
        args.append(unk('result', 'unsigned int'))
        return args
    return W.explore_entry(tu, fname, mk, lambda: std_table(2), errno_value=errno_value)


# ---- concrete POSIX file model (second decision / fallback of the scatter-gather rules) ----------------------

class ModelFile:
    """a regular file: size, sparse content, position"""
    def __init__(self, size, pos):
        self.size = size
        self.bytes = {i: (0xA0 + i) & 0xFF for i in range(size)}
        self.pos = pos

    def snapshot(self):
        return (self.size, self.pos, tuple(sorted((k, v) for k, v in self.bytes.items() if v != 0 or k < self.size)))


IO_IOVS, IO_RES, IO_BUF, IO_SIZE = 0x40, 0x20, 0x100, 0x400


def io_guest_memory(lens):
    data = [0xEE] * IO_SIZE
    for k, ln in enumerate(lens):
        buf = IO_BUF + 0x40 * k
        for i, v in enumerate((buf, ln)):
            for b in range(4):
                data[IO_IOVS + 8 * k + 4 * i + b] = (v >> (8 * b)) & 0xFF
        for i in range(ln):
            data[buf + i] = (0x10 * (k + 1) + i) & 0xFF
    return data


def io_reference(kind, positional, lens, fsize, offset, pos):
    """what readv/writev (preadv/pwritev) do on a regular file: -> (guest memory, file snapshot)"""
    data = io_guest_memory(lens)
    f = ModelFile(fsize, pos)
    at = offset if positional else pos
    total = 0
    for k, ln in enumerate(lens):
        buf = IO_BUF + 0x40 * k
        for i in range(ln):
            if kind == 'read':
                if at + total >= f.size:
                    break
                data[buf + i] = f.bytes.get(at + total, 0)
            else:
                f.bytes[at + total] = data[buf + i]
            total += 1
        else:
            continue
        break
    if kind == 'write' and total:
        f.size = max(f.size, at + total)
    if not positional:
        f.pos = pos + total
    for b in range(4):
        data[IO_RES + b] = (total >> (8 * b)) & 0xFF
    return data, f.snapshot()


class IOModel:
    """the I/O imports evaluated on a concrete guest memory and a model of one regular file behind native descriptor 10 (table slot 4);
    the file and the guest memory persist across calls, so call sequences can be evaluated"""
    def __init__(self, tu, macros, fsize, pos):
        self.tu = tu
        self.data = [0xEE] * IO_SIZE
        self.f = ModelFile(fsize, pos)
        self.st = {}
        data, f, st2 = self.data, self.f, self.st
        EBADF, EINVAL = macros.get('EBADF', 9), macros.get('EINVAL', 22)
        SEEK = {macros.get('SEEK_SET', 0): 'set', macros.get('SEEK_CUR', 1): 'cur', macros.get('SEEK_END', 2): 'end'}

        def fail(code):
            st2['errno']['v'] = code
            return -1

        def s64(v):
            if not isinstance(v, int):
                raise pe.PEError('symbolic file offset/length %r' % (v,))
            v &= (1 << 64) - 1
            return v - (1 << 64) if v >> 63 else v

        def segs(iov, count):
            out = []
            for k in range(count):
                e = iov.c[iov.k + k]
                b, ln = e['iov_base'], e['iov_len']
                if not (isinstance(b, Ptr) and b.c is data and isinstance(ln, int)):
                    raise pe.PEError('native segment %d is (%r, %r)' % (k, b, ln))
                out.append((b.k, ln))
            return out

        def transfer(rd, fd, sg, at, move):
            if fd != 10:
                return fail(EBADF)
            if at < 0:
                return fail(EINVAL)
            total = 0
            for off, ln in sg:
                if off < 0 or off + ln > IO_SIZE:
                    raise pe.PEError('native segment outside the guest memory')
                stop = False
                for i in range(ln):
                    if rd:
                        if at + total >= f.size:
                            stop = True
                            break
                        data[off + i] = f.bytes.get(at + total, 0)
                    else:
                        f.bytes[at + total] = data[off + i]
                    total += 1
                if stop:
                    break
            if not rd and total:
                f.size = max(f.size, at + total)
            if move:
                f.pos = at + total
            return total

        def lseek(interp, args, node):
            fd, off, wh = args[0], s64(args[1]), SEEK.get(args[2])
            if fd != 10:
                return fail(EBADF)
            base = {'set': 0, 'cur': f.pos, 'end': f.size}.get(wh)
            if base is None or base + off < 0:
                return fail(EINVAL)
            f.pos = base + off
            return f.pos

        def one_buf(a):
            if not (isinstance(a[1], Ptr) and a[1].c is data and isinstance(a[2], int)):
                raise pe.PEError('native buffer is (%r, %r)' % (a[1], a[2]))
            return [(a[1].k, a[2])]

        def malloc(interp, args, node):
            n = args[-1] if len(args) == 1 else args[0] * args[1]
            if not isinstance(n, int) or n % 16:
                raise pe.PEError('allocation of %r bytes (not an iovec array)' % (n,))
            return Ptr([{'iov_base': 0, 'iov_len': 0} for _ in range(max(n // 16, 1))], 0)

        def gload(width):
            def fn(interp, args, node):
                a = args[1]
                if not isinstance(a, int):
                    raise pe.PEError('symbolic guest address')
                return sum(data[a + b] << (8 * b) for b in range(width // 8))
            return fn

        def gstore(width):
            def fn(interp, args, node):
                a, v = args[1], args[2]
                if not (isinstance(a, int) and isinstance(v, int)):
                    raise pe.PEError('symbolic guest store')
                for b in range(width // 8):
                    data[a + b] = (v >> (8 * b)) & 0xFF
                return None
            return fn
        leafs = {
            'readv': lambda i, a, n: transfer(True, a[0], segs(a[1], a[2]), f.pos, True),
            'writev': lambda i, a, n: transfer(False, a[0], segs(a[1], a[2]), f.pos, True),
            'preadv': lambda i, a, n: transfer(True, a[0], segs(a[1], a[2]), s64(a[3]), False),
            'pwritev': lambda i, a, n: transfer(False, a[0], segs(a[1], a[2]), s64(a[3]), False),
            'read': lambda i, a, n: transfer(True, a[0], one_buf(a), f.pos, True),
            'write': lambda i, a, n: transfer(False, a[0], one_buf(a), f.pos, True),
            'pread': lambda i, a, n: transfer(True, a[0], one_buf(a), s64(a[3]), False),
            'pwrite': lambda i, a, n: transfer(False, a[0], one_buf(a), s64(a[3]), False),
            'lseek': lseek, 'malloc': malloc, 'calloc': malloc, 'free': lambda i, a, n: None,
            'i32_load': gload(32), 'i32_store': gstore(32), 'i64_store': gstore(64), 'i64_load': gload(64),
        }
        for k in list(leafs):
            if k in ('pread', 'pwrite', 'preadv', 'pwritev', 'lseek'):
                leafs[k + '64'] = leafs[k]
        self.it = W.make_interp(tu, st2, leafs)

    def reset(self, fsize, pos):
        self.data[:] = [0xEE] * IO_SIZE
        self.f.size, self.f.pos = fsize, pos
        self.f.bytes.clear()
        self.f.bytes.update({i: (0xA0 + i) & 0xFF for i in range(fsize)})

    def call(self, fname, args):
        """-> (return value, abort reason)"""
        it, st2, data = self.it, self.st, self.data

        def setup():
            st2.clear()
            W.seed_globals(it, self.tu, st2, std_table(2), errno_value=0)
            st2['memcell']['v']['data'] = Ptr(data, 0)
            return (fname, [unk('instance')] + list(args), {})
        # a fork would evaluate the leafs twice on the shared model: concrete inputs must give one path
        snap = (list(self.data), self.f.size, dict(self.f.bytes), self.f.pos)
        paths = it.explore(setup)
        if len(paths) != 1:
            self.data[:] = snap[0]
            self.f.size, self.f.bytes, self.f.pos = snap[1], snap[2], snap[3]
            raise pe.PEError('%d paths on concrete input' % len(paths))
        return paths[0].ret, paths[0].aborted

    def put_iovecs(self, lens, seed=0):
        fresh = io_guest_memory(lens)
        for k, ln in enumerate(lens):
            buf = IO_BUF + 0x40 * k
            self.data[IO_IOVS + 8 * k:IO_IOVS + 8 * k + 8] = fresh[IO_IOVS + 8 * k:IO_IOVS + 8 * k + 8]
            for i in range(ln):
                self.data[buf + i] = (fresh[buf + i] + seed) & 0xFF


def concrete_io(tu, fname, kind, positional, lens, fsize, offset, pos, macros):
    """the import evaluated on a concrete guest memory, iovec array and model file; -> discrepancy text or None"""
    m = IOModel(tu, macros, fsize, pos)
    m.data[:] = io_guest_memory(lens)
    data, f = m.data, m.f
    before = (list(m.data), m.f.snapshot())
    ret, aborted = m.call(fname, [4, IO_IOVS, len(lens)] + ([offset] if positional else []) + [IO_RES])
    what = '%s of segments %r at %s on a %d-byte file positioned at %d' % (kind, lens, ('offset 0x%X' % offset) if positional else 'the file position', fsize, pos)
    if positional and offset >> 63:
        # a file offset beyond the range of off_t (negative as off_t): POSIX pread/pwrite fail with EINVAL and transfer nothing
        if aborted or ret != O.ERRNO_NUM['inval']:
            return '%s: returns %r%s; POSIX p%sv fails with EINVAL (28) for an offset that is negative as off_t' % (
                what, ret, ' (%s)' % aborted if aborted else '', kind)
        if (list(m.data), m.f.snapshot()) != before:
            return '%s: fails with EINVAL but has changed %s' % (what, 'guest memory' if list(m.data) != before[0] else 'the file or its position')
        return None
    wdata, wfile = io_reference(kind, positional, lens, fsize, offset, pos)
    if aborted or ret != SUCCESS:
        return '%s: returns %r (%s); POSIX %sv succeeds' % (what, ret, aborted or 'errno %r' % m.st['errno']['v'], kind)
    if data != wdata:
        k = [i for i in range(IO_SIZE) if data[i] != wdata[i]][0]
        if IO_RES <= k < IO_RES + 4:
            return '%s: stores the count %d, POSIX transfers %d bytes' % (what, sum((data[IO_RES + b] if isinstance(data[IO_RES + b], int) else 0) << (8 * b) for b in range(4)),
                                                                         sum(wdata[IO_RES + b] << (8 * b) for b in range(4)))
        return '%s: guest byte 0x%X is %r, POSIX leaves 0x%02X there' % (what, k, data[k], wdata[k])
    if f.snapshot() != wfile:
        return '%s: the file ends up as (size, position) = (%d, %d), POSIX: (%d, %d)%s' % (
            what, f.size, f.pos, wfile[0], wfile[1], '' if (f.size, f.pos) != wfile[:2] else ' - contents differ')
    return None


class RefFile:
    """independent reference: POSIX semantics of read/write/pread/pwrite/lseek on one regular file, guest memory alongside"""
    def __init__(self, fsize, pos):
        self.size, self.pos = fsize, pos
        self.bytes = {i: (0xA0 + i) & 0xFF for i in range(fsize)}
        self.data = [0xEE] * IO_SIZE

    def put_iovecs(self, lens, seed=0):
        fresh = io_guest_memory(lens)
        for k, ln in enumerate(lens):
            buf = IO_BUF + 0x40 * k
            self.data[IO_IOVS + 8 * k:IO_IOVS + 8 * k + 8] = fresh[IO_IOVS + 8 * k:IO_IOVS + 8 * k + 8]
            for i in range(ln):
                self.data[buf + i] = (fresh[buf + i] + seed) & 0xFF

    def store(self, addr, v, nbytes):
        for b in range(nbytes):
            self.data[addr + b] = (v >> (8 * b)) & 0xFF

    def transfer(self, rd, lens, at, move):
        total = 0
        for k, ln in enumerate(lens):
            buf = IO_BUF + 0x40 * k
            stop = False
            for i in range(ln):
                if rd:
                    if at + total >= self.size:
                        stop = True
                        break
                    self.data[buf + i] = self.bytes.get(at + total, 0)
                else:
                    self.bytes[at + total] = self.data[buf + i]
                total += 1
            if stop:
                break
        if not rd and total:
            self.size = max(self.size, at + total)
        if move:
            self.pos = at + total
        self.store(IO_RES, total, 4)
        return 0

    def seek(self, delta, wh):
        base = {'SEEK_SET': 0, 'SEEK_CUR': self.pos, 'SEEK_END': self.size}[wh]
        if base + delta < 0:
            return O.ERRNO_NUM['inval']
        self.pos = base + delta
        self.store(IO_RES, self.pos, 8)
        return 0

    def snapshot(self):
        return (self.size, self.pos, tuple(sorted((k, v) for k, v in self.bytes.items() if v != 0 or k < self.size)))


SEQ_OPS = [('write', (3,), 1), ('write', (0, 2), 2), ('read', (2,), 0), ('read', (4, 1), 0), ('pwrite', (2,), 1, 3), ('pwrite', (1, 1), 9, 4),
           ('pread', (3,), 0, 0), ('pread', (2, 2), 5, 0), ('seek', 1, 'SEEK_SET'), ('seek', -2, 'SEEK_CUR'), ('seek', 0, 'SEEK_END'),
           ('seek', 2, 'SEEK_END'), ('tell',)]


def check_sequences(chk, tu, macros):
    """R12.8: call sequences on one descriptor - every sequence of up to 3 (thorough: 4) calls drawn from writes, reads, positional
    writes and reads, seeks (all three origins, backwards, beyond the end, before the start) and tell is evaluated on the concrete
    file model and compared, call by call, with an independent POSIX reference: error codes, counts and offsets stored in guest
    memory, data transferred, resulting file contents and file position"""
    import itertools
    eps = W.entry_points(tu)
    maxlen = 4 if chk.tier == 'thorough' else 3
    ops = SEQ_OPS if chk.tier == 'thorough' else [o for o in SEQ_OPS if o not in (('pwrite', (1, 1), 9, 4), ('pread', (2, 2), 5, 0), ('seek', 2, 'SEEK_END'),
                                                                                   ('read', (2,), 0), ('seek', 1, 'SEEK_SET'))]
    for gen in ('preview1', 'unstable'):
        names = {k: eps[k][gen]['name'] for k in ('fd_write', 'fd_read', 'fd_pwrite', 'fd_pread', 'fd_seek', 'fd_tell')}
        wh_code = {v: k for k, v in O.WHENCE[gen].items()}
        n = 0
        bad = None
        m = IOModel(tu, macros, 4, 1)
        for ln in range(1, maxlen + 1):
            if ln == 4:
                pool = [o for o in ops if o[0] != 'tell']
            else:
                pool = ops
            for seq in itertools.product(pool, repeat=ln):
                if ln >= 3 and all(o[0] in ('seek', 'tell') for o in seq):
                    continue
                m.reset(4, 1)
                r = RefFile(4, 1)
                n += 1
                for step, op in enumerate(seq):
                    k = op[0]
                    if k in ('write', 'read', 'pwrite', 'pread'):
                        lens = list(op[1])
                        seed = op[-1]
                        m.put_iovecs(lens, seed)
                        r.put_iovecs(lens, seed)
                        args = [4, IO_IOVS, len(lens)] + ([op[2]] if k[0] == 'p' else []) + [IO_RES]
                        want = r.transfer(k.endswith('read'), lens, op[2] if k[0] == 'p' else r.pos, k[0] != 'p')
                        fname = names['fd_' + k]
                    elif k == 'seek':
                        args = [4, op[1] & ((1 << 64) - 1), wh_code[op[2]], IO_RES]
                        want = r.seek(op[1], op[2])
                        fname = names['fd_seek']
                    else:
                        args = [4, IO_RES]
                        want = r.seek(0, 'SEEK_CUR')
                        fname = names['fd_tell']
                    try:
                        got, aborted = m.call(fname, args)
                    except (pe.PEError, IndexError, KeyError, TypeError) as e:
                        raise AnalysisBroken('%s in sequence %r on the concrete file model: %s' % (fname, seq, e))
                    what = None
                    if aborted or got != want:
                        what = 'returns %r%s, POSIX: errno %r' % (got, ' (%s)' % aborted if aborted else '', want)
                    elif m.data != r.data:
                        a = [i for i in range(IO_SIZE) if m.data[i] != r.data[i]][0]
                        what = 'leaves guest byte 0x%X = %r (POSIX: 0x%02X)%s' % (a, m.data[a], r.data[a], ' - the stored count/offset' if IO_RES <= a < IO_RES + 8 else '')
                    elif m.f.snapshot() != r.snapshot():
                        what = 'leaves the file with (size, position) = (%d, %d), POSIX: (%d, %d)%s' % (
                            m.f.size, m.f.pos, r.size, r.pos, '' if (m.f.size, m.f.pos) != (r.size, r.pos) else ' - contents differ')
                    if what:
                        bad = 'in the call sequence %s on a 4-byte file positioned at 1, call %d (%s) %s' % (
                            ' ; '.join('%s%r' % (o[0], o[1:]) for o in seq), step + 1, fname.split('__')[-1], what)
                        break
                if bad:
                    break
            if bad:
                break
        chk.expect(not bad, 'R12.8', '%s/call-sequences' % gen, '%s: %s' % (gen, bad), 'call-sequence/%s' % gen,
                   detail_ok='%d call sequences of up to %d calls over %d operations agree with the POSIX reference' % (n, maxlen, len(ops)))



def io_cases(kind, positional, tier, full):
    """(lens, file size, offset, position) family: 0..3 segments including zero-length ones, short transfers, offsets beyond 32 bits"""
    import itertools
    lens_set = (0, 2, 5) if not full else (0, 1, 3, 5)
    shapes = [()]
    for n in (1, 2, 3):
        shapes += list(itertools.product(lens_set, repeat=n))
    if not full:
        shapes = [sh for sh in shapes if len(sh) < 3 or sh in ((0, 2, 5), (2, 0, 5), (5, 2, 0), (2, 5, 2), (0, 0, 2))]
    out = []
    for sh in shapes:
        for fsize in ((0, 6) if not full else (0, 4, 9)):
            for off in ((0, 3, (1 << 32) + 2, (1 << 64) - 1, 1 << 63) if positional else (0,)):
                for pos in ((1,) if not full else (0, 3)):
                    if off >> 63 and not sum(sh):
                        continue        # nothing to transfer: whether the host is asked at all (and fails) is not decided here
                    out.append((list(sh), fsize, off, pos))
    return out


def refute_io(tu, fname, imp, positional, macros, tier, full):
    kind = 'write' if 'write' in imp else 'read'
    n = 0
    for lens, fsize, off, pos in io_cases(kind, positional, tier, full):
        try:
            bad = concrete_io(tu, fname, kind, positional, lens, fsize, off, pos, macros)
        except (pe.PEError, IndexError, KeyError, TypeError) as e:
            raise AnalysisBroken('%s on the concrete file model (%r): %s' % (imp, (lens, fsize, off, pos), e))
        n += 1
        if bad:
            return bad, n
    return None, n


def check_rw(chk, tu, macros):
    eps = W.entry_points(tu)
    iovs, result = unk('iovs'), unk('result')
    undecided = []
    for imp, native, positional in (('fd_write', 'writev', False), ('fd_read', 'readv', False),
                                    ('fd_pwrite', 'writev', True), ('fd_pread', 'readv', True)):
        for gen, f in sorted(eps[imp].items()):
            pts = W.param_types(tu, f)[1:]
            off = None
            shape_probs = []

            def shape(ok, rule, inst_, msg, site_):
                # the recognised implementation shape (one vectored native call on an array filled in order); another shape is not a
                # violation by itself - it is decided on the concrete file model below
                if ok:
                    chk.ok(rule, inst_)
                else:
                    shape_probs.append((rule, inst_, msg, site_))
            if positional:
                off = unk('offset', pts[3])
            for count in ((0, 1, 3) if chk.tier == 'quick' else (0, 1, 2, 3, 4, 6)):
                paths = io_paths(tu, f['name'], count, offset=off)
                inst = '%s/%s[n=%d]' % (gen, imp, count)
                site = imp
                succ = [p for p in paths if p.ret == SUCCESS]
                chk.require(succ, '%s has no success path' % inst)
                for p in succ:
                    loads = [(a[0], offset_from(a[1], iovs)) for n, a, l in p.events if n == 'gload']
                    want = []
                    for k in range(count):
                        want += [(32, 8 * k), (32, 8 * k + 4)]
                    shape(loads == want, 'R12.5', inst + ':iovec-walk',
                               '%s reads the scatter/gather vector at (width, offset) %r; the witx layout is stride 8 with buf@0, '
                               'len@4, visited in ascending order: %r' % (imp, loads, want), site + ':iovec-layout')
                    # native call: same descriptor, same count
                    calls = [(n[7:], a) for n, a, l in p.events if n.startswith('extern:') and n[7:] in ('writev', 'readv', 'pwritev', 'preadv', 'pwrite', 'pread')]
                    if count == 0 and not calls:
                        # an empty vector may be answered without a native call (readv/writev with 0 segments transfer 0 bytes):
                        # the stored count must then be the constant 0
                        gst = [(a[0], offset_from(a[1], result), a[2]) for n, a, l in p.events if n == 'gstore']
                        shape(len(gst) == 1 and gst[0][0] == 32 and gst[0][1] == 0 and gst[0][2] == 0, 'R12.2', inst + ':result-count',
                                   '%s answers an empty vector without a native call and stores %r; expected the count 0 as one u32 at '
                                   'the result pointer' % (imp, gst), site + ':result')
                        continue
                    okcall = len(calls) == 1 and calls[0][0].lstrip('p').startswith(native[:-1]) and calls[0][1][0] == 10 and calls[0][1][2] == count
                    shape(okcall, 'R12.5', inst + ':native-call',
                               '%s performs %r; expected one %s on the descriptor\'s native fd with all %d segments'
                               % (imp, [(c, a[0], a[2]) for c, a in calls], native, count), site + ':native-call')
                    # iovec array filled in order from the loaded (buf, len) pairs
                    stores = [(a[0], a[1]) for n, a, l in p.events if n == 'store-sym']
                    vals = [v for t, v in stores]
                    # native entry k, field iov_base / iov_len, identified by the store target (the order of the two field stores is free)
                    entries = {}
                    seq_ok = len(vals) == 2 * count
                    for t, v in stores:
                        rt = repr(t)
                        m_ = re.search(r'\[(\d+)\]\.(iov_base|iov_len)$', rt) or re.search(r'\+ (\d+)\)?\)?->(iov_base|iov_len)$', rt)
                        if m_ is None:
                            m2 = re.search(r'(iov_base|iov_len)$', rt)
                            if m2 is None:
                                seq_ok = False
                                continue
                            # target spelled through a pointer to the entry: recover the entry index from the pointer arithmetic
                            idx = re.findall(r'(?:\[|\+ )(\d+)(?:\]|\))', rt)
                            k_ = int(idx[-1]) if idx else 0
                            entries.setdefault(k_, {})[m2.group(1)] = v
                        else:
                            entries.setdefault(int(m_.group(1)), {})[m_.group(2)] = v
                    seq_ok = seq_ok and sorted(entries) == list(range(count))
                    for k in range(count):
                        if not seq_ok:
                            break
                        b, ln = entries[k].get('iov_base'), entries[k].get('iov_len')
                        if b is None or ln is None:
                            seq_ok = False
                            break
                        bl = [s for s in pe.sym_walk(b) if s.op == 'gload']
                        ll = [s for s in pe.sym_walk(ln) if s.op == 'gload']
                        seq_ok = len(bl) == 1 and len(ll) == 1 and offset_from(bl[0].args[1], iovs) == 8 * k and \
                            offset_from(ll[0].args[1], iovs) == 8 * k + 4 and any(s.op == 'unk' and s.args[0] == 'gdata' for s in pe.sym_walk(b))
                    shape(seq_ok, 'R12.5', inst + ':segments-in-order',
                               '%s does not build native segment k from guest (data + buf, len) of entry k: %r' % (imp, vals), site + ':segments')
                    gst = [(a[0], offset_from(a[1], result), a[2]) for n, a, l in p.events if n == 'gstore']
                    okres = len(gst) == 1 and gst[0][0] == 32 and gst[0][1] == 0 and \
                        any(s.op == 'call' and s.args[0] in ('writev', 'readv') for s in pe.sym_walk(gst[0][2]))
                    shape(okres, 'R12.2', inst + ':result-count',
                               '%s stores %r; expected the transferred byte count as one u32 at the result pointer' % (imp, gst), site + ':result')
                    if positional:
                        seeks = [a for n, a, l in p.events if n == 'extern:lseek']
                        ofs = [a for a in seeks if any(s == unk('offset') for s in pe.sym_walk(a[1]))]
                        full = bool(ofs) and all(_full64(a[1], unk('offset')) for a in ofs)
                        shape(full, 'R12.1', inst + ':offset-64bit',
                                   '%s seeks to %r: the 64-bit file offset is narrowed before it reaches the native call'
                                   % (imp, [a[1] for a in seeks]), site + ':offset-width')
                for p in paths:
                    if p.ret == SUCCESS:
                        continue
                    chk.expect(not [1 for n, a, l in p.events if n == 'gstore'], 'R12.6', inst + ':no-result-on-error[%s]' % p.cond_text()[:50],
                               '%s stores a result although it returns errno %r' % (imp, p.ret), site + ':error-discipline')
                failed = [p for p in paths if _native_failed(p, ('writev', 'readv', 'lseek'))]
                for p in failed:
                    chk.expect(p.ret != SUCCESS, 'R12.6', inst + ':failure-reported[%s]' % p.cond_text()[:50],
                               '%s returns SUCCESS although a native call failed on path %s' % (imp, p.cond_text()), site + ':error-discipline')
            # second decision, and the decision for an unrecognised shape: the import evaluated on a concrete guest memory and a model of a
            # regular file against what POSIX readv/writev (preadv/pwritev) do - data, count, file contents and file position
            bad, ncase = refute_io(tu, f['name'], imp, positional, macros, chk.tier, full=bool(shape_probs) or chk.tier == 'thorough')
            inst = '%s/%s' % (gen, imp)
            if bad:
                chk.fail(shape_probs[0][0] if shape_probs else 'R12.5', inst + ':posix-file-model',
                         '%s: %s%s' % (imp, bad, (' [implementation shape: %s]' % shape_probs[0][2][:200]) if shape_probs else ''),
                         (shape_probs[0][3] if shape_probs else imp + ':transfer'))
            elif shape_probs:
                undecided.append('%s: %s (agrees with POSIX on %d concrete transfers, which does not decide all sequences)' % (inst, shape_probs[0][2][:300], ncase))
            else:
                chk.ok('R12.5', inst + ':posix-file-model', '%d concrete transfers equal POSIX %s' % (ncase, native))
    if undecided and not chk.unlisted_violations():
        raise AnalysisBroken('scatter/gather implementation of an unrecognised shape: ' + ' | '.join(undecided[:3]))


def _full64(v, base):
    s = runtime.sym_slice(v)
    if s[0] == 'slice':
        return s[1] == base and s[2] >= 64
    return False


NEG_FAIL = ('open', 'lseek', 'read', 'write', 'readv', 'writev', 'readlink')
NONZERO_FAIL = ('stat', 'fstat', 'lstat', 'mkdir', 'rmdir', 'unlink', 'rename', 'symlink', 'close', 'closedir', 'fsync',
                'fdatasync', 'clock_gettime')


def _native_failed(p, names):
    for c, t, _ in p.decisions:
        c0 = pe.norm_cond(c)
        if len(c0.args) != 2:
            continue
        a, b = pe.strip_casts(c0.args[0]), c0.args[1]
        if is_sym(a) and a.op == 'call' and a.args[0] in names:
            nm = a.args[0]
            if nm in NEG_FAIL:
                if (c0.op == '<' and b == 0 and t) or (c0.op == '==' and b == -1 and t) or (c0.op == '>=' and b == 0 and not t):
                    return True
            if nm in NONZERO_FAIL:
                if (c0.op == '!=' and b == 0 and t) or (c0.op == '==' and b == 0 and not t) or (c0.op == '<' and b == 0 and t):
                    return True
    return False


def check_seek(chk, tu, macros):
    eps = W.entry_points(tu)
    result = unk('result')
    for gen in ('preview1', 'unstable'):
        f = eps['fd_seek'][gen]
        for w in (0, 1, 2, 3):
            def mk(it, st):
                return [unk('instance'), 4, unk('offset', 'unsigned long long'), w, unk('result', 'unsigned int')]
            paths = W.explore_entry(tu, f['name'], mk, lambda: std_table(2), errno_value=5)
            inst = '%s/fd_seek[whence=%d]' % (gen, w)
            site = 'fd_seek:%s-whence' % gen
            if w == 3:
                chk.expect(all(p.ret == O.ERRNO_NUM['inval'] and not [1 for n, a, l in p.events if n == 'extern:lseek'] for p in paths),
                           'R12.3', inst, 'an invalid whence is not rejected with EINVAL before seeking', site)
                continue
            want = macros[O.WHENCE[gen][w]]
            for p in paths:
                seeks = [a for n, a, l in p.events if n == 'extern:lseek']
                chk.expect(len(seeks) == 1 and seeks[0][2] == want and seeks[0][0] == 10, 'R12.3', inst + '[%s]' % p.cond_text()[:40],
                           '%s fd_seek with whence %d calls lseek%r; the %s encoding maps %d to %s (= %d on this host)'
                           % (gen, w, tuple(seeks[0]) if seeks else (), gen, w, O.WHENCE[gen][w], want), site)
                if seeks:
                    chk.expect(_full64(seeks[0][1], unk('offset')), 'R12.1', inst + ':offset-64bit',
                               'fd_seek passes offset %r: narrowed below 64 bits' % (seeks[0][1],), 'fd_seek:offset-width')
                if p.ret == SUCCESS:
                    gst = [(a[0], offset_from(a[1], result)) for n, a, l in p.events if n == 'gstore']
                    chk.expect(gst == [(64, 0)], 'R12.2', inst + ':newoffset', 'fd_seek stores %r, expected the new offset as u64 at +0' % (gst,),
                               'fd_seek:result')
    for gen in ('preview1', 'unstable'):
        f = eps['fd_tell'][gen]
        paths = W.explore_entry(tu, f['name'], lambda it, st: [unk('instance'), 4, unk('result', 'unsigned int')], lambda: std_table(2), errno_value=5)
        for p in paths:
            seeks = [a for n, a, l in p.events if n == 'extern:lseek']
            chk.expect(len(seeks) == 1 and seeks[0][1] == 0 and seeks[0][2] == macros['SEEK_CUR'], 'R12.3', '%s/fd_tell' % gen,
                       'fd_tell calls lseek%r, expected lseek(fd, 0, SEEK_CUR)' % (tuple(seeks[0]) if seeks else (),), 'fd_tell')


# errors POSIX requires ("shall fail") of the host operations the properties name - rmdir/rename (ENOTEMPTY), every pathname
# resolution (ELOOP, ENAMETOOLONG), open/stat/fstat/lseek/read on objects whose size or offset is not representable (EOVERFLOW): each
# has its own witx number, so reporting them as INVAL is a wrong error code, not an unknown one
REQUIRED_ERRNO = {'ENOTEMPTY': 'rmdir or rename onto a non-empty directory', 'ELOOP': 'a symbolic-link loop during pathname resolution',
                  'ENAMETOOLONG': 'a pathname component longer than NAME_MAX', 'EOVERFLOW': 'a file size or offset not representable'}


def check_errno_table(chk, tu, macros, rule='R12.3'):
    f = tu.fn('wasiErrno')
    chk.fn('wasiErrno')
    by_val = {}
    for name, v in macros.items():
        if name in O.HOST_ERRNO:
            by_val.setdefault(v, []).append(name)
    n = 0
    for v, names in sorted(by_val.items()):
        st = {}
        it = W.make_interp(tu, st)

        def setup():
            st.clear()
            W.seed_globals(it, tu, st, std_table(0), errno_value=v)
            return ('wasiErrno', [], {})
        p = it.explore(setup)[0]
        wants = {O.ERRNO_NUM[O.HOST_ERRNO[nm]] for nm in names}
        n += 1
        # host errnos the table does not know fall into the default (EINVAL): only a *wrong* mapping is a violation
        if p.ret == O.ERRNO_NUM['inval'] and O.ERRNO_NUM['inval'] not in wants:
            handled = any(astdb.const_int(c['inner'][0], tu) == v for c in walk(astdb.fn_body(f)) if c.get('kind') == 'CaseStmt')
            if not handled:
                req = [nm for nm in names if nm in REQUIRED_ERRNO]
                if req:
                    chk.fail(rule, 'errno:%s' % '/'.join(names),
                             'host errno %s (%d) - what POSIX requires for %s - has no row in the errno table and is reported as INVAL (28); '
                             'the witx number of %s is %s: the guest cannot tell this failure from an invalid argument'
                             % (req[0], v, REQUIRED_ERRNO[req[0]], O.HOST_ERRNO[req[0]], sorted(wants)), 'wasiErrno:%s' % req[0])
                    continue
                chk.note('host %s (%d) is not in the errno table (reported as EINVAL)' % ('/'.join(names), v))
                continue
        chk.expect(p.ret in wants, rule, 'errno:%s' % '/'.join(names),
                   'host errno %s (%d) is translated to WASI errno %r; the witx number of %s is %s'
                   % ('/'.join(names), v, p.ret, '/'.join(O.HOST_ERRNO[nm] for nm in names), sorted(wants)), 'wasiErrno:%s' % names[0])
    chk.require(n >= 30, 'only %d host errno values examined' % n)


def check_filetype_table(chk, tu, rule='R12.3'):
    """file type of a host mode word -> witx filetype (filestat records and directory entries): evaluated for every host S_IF* kind
    with several permission / set-id bit patterns.  A kind the host can not express in witx terms may be reported as unknown (0);
    a *wrong* type is a violation"""
    macros = W.host_macros(('S_IF',))
    WITX = {'S_IFBLK': {1}, 'S_IFCHR': {2}, 'S_IFDIR': {3}, 'S_IFREG': {4}, 'S_IFLNK': {7}, 'S_IFSOCK': {5, 6, 0}, 'S_IFIFO': {0}}
    NAMES = {0: 'unknown', 1: 'block_device', 2: 'character_device', 3: 'directory', 4: 'regular_file', 5: 'socket_dgram', 6: 'socket_stream',
             7: 'symbolic_link'}
    fn = None
    for name, f in tu.functions.items():
        body = astdb.fn_body(f)
        ps = astdb.fn_params(f)
        if body is not None and (astdb.file_of(f) or '').endswith('wasi.c') and len(ps) == 1 and 'mode' in (ps[0].get('name') or '').lower() and \
                'FileType' in tu.desugar(astdb.qtype(f)).split('(')[0] + name:
            fn = name
    chk.require(fn is not None, 'no function mapping a mode word to a WASI file type found in wasi.c')
    chk.fn(fn)
    n = 0
    for kind, want in sorted(WITX.items()):
        if kind not in macros:
            continue
        for perm in (0, 0o644, 0o777, 0o7777, 0o4755):
            mode = macros[kind] | perm
            it = W.make_interp(tu, {})
            ps_ = [p for p in it.explore(lambda: (fn, [mode], {})) if not p.aborted]
            chk.require(len(ps_) == 1 and isinstance(ps_[0].ret, int), '%s(0%o): %d paths' % (fn, mode, len(ps_)))
            got = ps_[0].ret
            n += 1
            chk.expect(got in want or got == 0, rule, 'filetype:%s[0%o]' % (kind, perm),
                       '%s(mode 0%o, a %s) reports the file type %d (%s); witx: %s - directory listings and filestat records then describe '
                       'the entry as something it is not' % (fn, mode, kind, got, NAMES.get(got, '?'), ' or '.join(NAMES[w] for w in sorted(want))),
                       '%s:%s' % (fn, kind))
    chk.require(n >= 25, 'only %d (kind, permission) cases evaluated' % n)


def check_open_flags(chk, tu, macros):
    eps = W.entry_points(tu)
    f = eps['path_open']['preview1']
    RD, WR = O.RIGHTS_FD_READ, O.RIGHTS_FD_WRITE
    acc = macros['O_RDONLY'], macros['O_WRONLY'], macros['O_RDWR']
    cases = []
    for host, bit in O.OFLAGS.items():
        cases.append(('oflags:' + host, bit, 0, RD, macros.get(host)))
    for host, bit in O.FDFLAGS.items():
        cases.append(('fdflags:' + host, 0, bit, RD, macros.get(host)))
    cases.append(('none', 0, 0, RD, 0))
    for label, ofl, fdfl, rights, hostbit in cases:
        def mk(it, st):
            return [unk('instance'), 3, 0, unk('path', 'unsigned int'), 5, ofl, rights, 0, fdfl, unk('fdout', 'unsigned int')]
        paths = W.explore_entry(tu, f['name'], mk, lambda: std_table(0), errno_value=5, max_paths=2000)
        opens = [a for p in paths for n, a, l in p.events if n == 'extern:open']
        chk.require(opens, 'path_open never calls open() for %s' % label)
        flags = {a[1] for a in opens}
        site = 'path_open:flags'
        if hostbit is None:
            chk.note('host does not define the flag for %s' % label)
            continue
        base_ok = all(isinstance(fl, int) for fl in flags)
        chk.expect(base_ok and all((fl & hostbit) == hostbit for fl in flags), 'R12.3', 'open-flag:' + label,
                   'path_open with %s set calls open() with flags %r; the host flag %s (0x%x) is missing'
                   % (label, sorted(flags, key=str), label.split(':')[-1], hostbit), site)
        if label == 'none':
            extra = set(macros.get(h, 0) for h in list(O.OFLAGS) + list(O.FDFLAGS))
            bad = [fl for fl in flags if isinstance(fl, int) and any(fl & e for e in extra if e)]
            chk.expect(not bad, 'R12.3', 'open-flag:no-spurious', 'path_open without flags passes %r to open()' % (sorted(flags, key=str),), site)
    # combinations: host flags are independent of each other - every pair of guest flags (thorough: every subset) must map to
    # exactly the union of the host flags
    import itertools
    allf = [('oflags', h, b_) for h, b_ in O.OFLAGS.items() if macros.get(h) is not None] + \
           [('fdflags', h, b_) for h, b_ in O.FDFLAGS.items() if macros.get(h) is not None]
    mapped = 0
    for _k, h, _b in allf:
        mapped |= macros[h]
    combos = [c for r_ in ((2,) if chk.tier == 'quick' else range(2, len(allf) + 1)) for c in itertools.combinations(allf, r_)]
    if chk.tier == 'quick':
        combos.append(tuple(allf))
    for combo in combos:
        ofl = sum(b_ for k_, h, b_ in combo if k_ == 'oflags')
        fdfl = sum(b_ for k_, h, b_ in combo if k_ == 'fdflags')
        want = 0
        for k_, h, b_ in combo:
            want |= macros[h]
        label = '+'.join(h for k_, h, b_ in combo)

        def mk(it, st):
            return [unk('instance'), 3, 0, unk('path', 'unsigned int'), 5, ofl, RD, 0, fdfl, unk('fdout', 'unsigned int')]
        paths = W.explore_entry(tu, f['name'], mk, lambda: std_table(0), errno_value=5, max_paths=2000)
        flags = {a[1] for p in paths for n, a, l in p.events if n == 'extern:open'}
        ok = bool(flags) and all(isinstance(fl, int) and (fl & mapped) == want for fl in flags)
        chk.expect(ok, 'R12.3', 'open-flags:' + label,
                   'path_open with %s calls open() with flags %s; among the mapped host flags exactly 0x%x (%s) must be set - each guest flag '
                   'takes effect whatever other flags accompany it' % (label, sorted('0x%x' % fl if isinstance(fl, int) else repr(fl) for fl in flags),
                                                                     want, label), 'path_open:flag-combination')
    # access mode from rights
    for label, rights, want in (('read', RD, acc[0]), ('write', WR, acc[1]), ('read+write', RD | WR, acc[2]), ('neither', 0, acc[0])):
        def mk(it, st):
            return [unk('instance'), 3, 0, unk('path', 'unsigned int'), 5, 0, rights, 0, 0, unk('fdout', 'unsigned int')]
        paths = W.explore_entry(tu, f['name'], mk, lambda: std_table(0), errno_value=5, max_paths=2000)
        flags = {a[1] for p in paths for n, a, l in p.events if n == 'extern:open'}
        ok = flags and all(isinstance(fl, int) and (fl & 3) == want for fl in flags)
        chk.expect(ok, 'R12.3', 'access-mode:' + label,
                   'path_open with %s rights opens with flags %r, expected access mode %d' % (label, sorted(flags, key=str), want), 'path_open:access-mode')
    # success path: the new descriptor number is stored as u32 and the native fd is registered
    def mk(it, st):
        return [unk('instance'), 3, 0, unk('path', 'unsigned int'), 5, 0, RD, 0, 0, unk('fdout', 'unsigned int')]
    paths = W.explore_entry(tu, f['name'], mk, lambda: std_table(0), errno_value=5, max_paths=2000)
    succ = [p for p in paths if p.ret == SUCCESS]
    chk.require(succ, 'path_open has no success path')
    for p in succ:
        gst = [(a[0], offset_from(a[1], unk('fdout')), a[2]) for n, a, l in p.events if n == 'gstore']
        t = p.state['table']
        ok = gst == [(32, 0, 4)] and len(t) == 5 and is_sym(t[4]['fd']) and t[4]['fd'].op == 'call' and t[4]['fd'].args[0] == 'open'
        chk.expect(ok, 'R12.2', 'path_open:result', 'path_open stores %r and registers %r; expected descriptor 4 as u32 holding the fd '
                   'returned by open()' % (gst, [d['fd'] for d in t[4:]]), 'path_open:result')
    for p in paths:
        if _native_failed(p, ('open',)):
            chk.expect(p.ret != SUCCESS, 'R12.6', 'path_open:failure-reported', 'path_open returns SUCCESS although open() failed', 'path_open:error-discipline')


def check_path_open_result(chk, tu, rule):
    """the number path_open reports to the guest is the number the descriptor table issued: stored as a full u32 (descriptor numbers are
    never reused, a long-running guest gets numbers beyond any narrower width), and the slot of that number holds the native descriptor
    open() returned - both ABI generations"""
    eps = W.entry_points(tu)
    RD = O.RIGHTS_FD_READ
    n = 0
    for gen, f in sorted(eps['path_open'].items()):
        if len(astdb.fn_params(f)) != 10:
            raise AnalysisBroken('%s/path_open takes %d parameters' % (gen, len(astdb.fn_params(f))))

        def mk(it, st):
            return [unk('instance'), 3, 0, unk('path', 'unsigned int'), 5, 0, RD, 0, 0, unk('fdout', 'unsigned int')]
        paths = W.explore_entry(tu, f['name'], mk, lambda: std_table(0), errno_value=5, max_paths=2000)
        succ = [p for p in paths if p.ret == SUCCESS]
        chk.require(succ, '%s/path_open has no success path' % gen)
        for p in succ:
            gst = [(a[0], offset_from(a[1], unk('fdout')), a[2]) for n_, a, l in p.events if n_ == 'gstore']
            t = p.state['table']
            ok = gst == [(32, 0, 4)] and len(t) == 5 and is_sym(t[4]['fd']) and t[4]['fd'].op == 'call' and t[4]['fd'].args[0] == 'open'
            n += 1
            chk.expect(ok, rule, '%s/path_open:reported-number' % gen,
                       '%s/path_open stores (width in bits, offset from the result pointer, value) %r and the table holds %r beyond the four '
                       'descriptors it started with; expected the issued number 4 stored as 32 bits at the result pointer, and slot 4 holding '
                       'the native descriptor returned by open() - a narrower store reports a number that, after enough opens, denotes '
                       'another live descriptor' % (gen, gst, [d['fd'] for d in t[4:]]), 'path_open:result')
    return n


def stores_layout(events, base):
    out = []
    for n, a, l in events:
        if n == 'gstore':
            out.append((offset_from(a[1], base), a[0]))
    return out


def check_filestat(chk, tu):
    eps = W.entry_points(tu)
    stat = unk('statptr')
    for imp in ('fd_filestat_get', 'path_filestat_get'):
        for gen in ('preview1', 'unstable'):
            f = eps[imp][gen]
            lay = O.FILESTAT[gen]
            if imp == 'fd_filestat_get':
                mk = lambda it, st: [unk('instance'), 4, unk('statptr', 'unsigned int')]
            else:
                mk = lambda it, st: [unk('instance'), 3, 0, unk('path', 'unsigned int'), 5, unk('statptr', 'unsigned int')]
            paths = W.explore_entry(tu, f['name'], mk, lambda: std_table(2), errno_value=5)
            succ = [p for p in paths if p.ret == SUCCESS]
            chk.require(succ, '%s/%s has no success path' % (gen, imp))
            site = '%s:%s-filestat' % (imp, gen)
            for p in succ[:2]:
                got = sorted(stores_layout(p.events, stat), key=lambda x: (x[0] is None, x[0]))
                want = sorted(lay['fields'].values())
                chk.expect(got == want, 'R12.2', '%s/%s:layout' % (gen, imp),
                           '%s filestat is stored as (offset, bits) %r; the witx layout is %r' % (gen, got, want), site)
                # value provenance: each field carries the same-named host field, never through a narrower integer type
                src = {'dev': ['st_dev'], 'ino': ['st_ino'], 'nlink': ['st_nlink'], 'size': ['st_size'],
                       'atim': ['st_atim', 'tv_sec', 'tv_nsec', '1000000000'], 'mtim': ['st_mtim', 'tv_sec', 'tv_nsec', '1000000000'],
                       'ctim': ['st_ctim', 'tv_sec', 'tv_nsec', '1000000000']}
                byoff = {offset_from(a[1], stat): a for n, a, l in p.events if n == 'gstore'}
                for fld, (off, bits) in lay['fields'].items():
                    if fld not in src or off not in byoff:
                        continue
                    val = byoff[off][2]
                    text = repr(val)
                    narrow = []
                    for x in pe.sym_walk(val):
                        if is_sym(x) and x.op == 'cast':
                            ti = astdb.int_type_info(tu.desugar(x.ctype))
                            if ti is not None and ti[0] < bits:
                                narrow.append(x.ctype)
                    ok_src = all(k in text for k in src[fld])
                    chk.expect(ok_src and not narrow, 'R12.2', '%s/%s:value:%s' % (gen, imp, fld),
                               '%s filestat field %s (%d bits at offset %d) is stored from %s%s; expected the host %s without narrowing - '
                               'values that do not fit the narrower type (e.g. sizes >= 4 GiB) are reported wrongly'
                               % (gen, fld, bits, off, text[:160], ' through %r' % narrow if narrow else '', '/'.join(src[fld][:1])), site + ':value')
                ms = [a for n, a, l in p.events if n == 'extern:memset']
                okz = len(ms) == 1 and offset_from(ms[0][0], unk('gdata')) is None and ms[0][1] == 0 and ms[0][2] == lay['size']
                zs = ms[0][2] if ms else None
                chk.expect(len(ms) == 1 and ms[0][1] == 0 and zs == lay['size'], 'R12.2', '%s/%s:zero-fill' % (gen, imp),
                           'the %s filestat (size %d) is zero-filled with %r bytes: %s' % (
                               gen, lay['size'], zs, 'guest memory after the struct is overwritten' if isinstance(zs, int) and zs > lay['size']
                               else 'padding bytes keep stale data'), site + ':zero-fill')
    # fdstat
    for gen in ('preview1', 'unstable'):
        f = eps['fd_fdstat_get'][gen]
        paths = W.explore_entry(tu, f['name'], lambda it, st: [unk('instance'), 4, unk('statptr', 'unsigned int')], lambda: std_table(2),
                                errno_value=5, max_paths=4000)
        succ = [p for p in paths if p.ret == SUCCESS]
        chk.require(succ, 'fd_fdstat_get has no success path')
        p = succ[0]
        got = sorted(stores_layout(p.events, stat), key=lambda x: (x[0] is None, x[0]))
        want = sorted(O.FDSTAT['fields'].values())
        chk.expect(got == want, 'R12.2', '%s/fd_fdstat_get:layout' % gen, 'fdstat stored as %r, witx layout %r' % (got, want), 'fd_fdstat_get:layout')
        ms = [a for n, a, l in p.events if n == 'extern:memset']
        chk.expect(len(ms) == 1 and ms[0][2] == O.FDSTAT['size'], 'R12.2', '%s/fd_fdstat_get:zero-fill' % gen,
                   'fdstat zero-fill is %r bytes, struct size %d' % (ms[0][2] if ms else None, O.FDSTAT['size']), 'fd_fdstat_get:zero-fill')


def check_positional(chk, tu, macros):
    """wrapPositional(f, fd, iovecs, count, offset)"""
    state = {}
    it = W.make_interp(tu, state)
    errs = []

    def hook(interp, name, args, node, res):
        # every native call may change errno
        state['errno']['v'] = unk('errno-after-%s-%d' % (name, interp._ncall), 'int')
        return None
    it.extern_hook = hook

    def setup():
        state.clear()
        W.seed_globals(it, tu, state, std_table(0))
        return ('wrapPositional', [pe.FuncRef('readv'), 7, unk('iov'), 2, unk('offset', 'long')], dict(state))
    paths = it.explore(setup)
    chk.fn('wrapPositional')
    chk.require(len(paths) >= 3, 'wrapPositional has %d paths' % len(paths))
    site = 'wrapPositional'
    for p in paths:
        ev = [(n[7:], a) for n, a, l in p.events if n.startswith('extern:')]
        names = [n for n, a in ev]
        cond = p.cond_text()[:70]
        if 'readv' not in names:
            chk.expect(p.ret == -1, 'R12.4', 'no-transfer-means-failure[%s]' % cond, 'returns %r without transferring' % (p.ret,), site)
            continue
        i = names.index('readv')
        before = [a for n, a in ev[:i] if n == 'lseek']
        after = [a for n, a in ev[i + 1:] if n == 'lseek']
        ok_before = len(before) == 2 and before[0][1] == 0 and before[0][2] == macros['SEEK_CUR'] and \
            pe.strip_casts(before[1][1]) == unk('offset') and before[1][2] == macros['SEEK_SET']
        chk.expect(ok_before, 'R12.4', 'seek-to-offset[%s]' % cond,
                   'before the transfer the position is set with %r; expected lseek(fd,0,SEEK_CUR) then lseek(fd,offset,SEEK_SET)' % (before,), site)
        orig = [s for s in pe.sym_walk(after[0][1])] if after else []
        ok_after = len(after) == 1 and after[0][2] == macros['SEEK_SET'] and \
            any(is_sym(s) and s.op == 'call' and s.args[0] == 'lseek' and s.args[1] == 1 for s in orig)
        chk.expect(ok_after, 'R12.4', 'restore-position[%s]' % cond,
                   'after the transfer the file position is not restored to the saved one (seeks after transfer: %r) - a positional '
                   'read/write must leave the file position unchanged' % (after,), site + ':restore')
        # errno of the transfer survives the restoring seek (unless the restore itself failed after a successful transfer)
        final = state['errno']['v'] if False else p.state['errno']['v']
        restore_failed = _native_failed_n(p, 3)
        tr_errno = unk('errno-after-readv-%d' % 3)
        if not restore_failed:
            chk.expect(p.state['errno']['v'] == tr_errno, 'R12.4', 'errno-preserved[%s]' % cond,
                       'errno after wrapPositional is %r, the transfer left %r: the caller reports the wrong error' % (p.state['errno']['v'], tr_errno),
                       site + ':errno')
            res = p.ret
            chk.expect(is_sym(pe.strip_casts(res)) and pe.strip_casts(res).op == 'call' and pe.strip_casts(res).args[0] == 'readv', 'R12.4',
                       'returns-transfer-count[%s]' % cond, 'returns %r, expected the transfer result' % (res,), site)


def _native_failed_n(p, ncall_min):
    for c, t, _ in p.decisions:
        c0 = pe.norm_cond(c)
        if len(c0.args) == 2:
            a = pe.strip_casts(c0.args[0])
            if is_sym(a) and a.op == 'call' and a.args[0] == 'lseek' and a.args[1] > ncall_min:
                if c0.op == '==' and t:
                    return True
    return False


def check_close(chk, tu):
    eps = W.entry_points(tu)
    for gen in ('preview1', 'unstable'):
        f = eps['fd_close'][gen]
        paths = W.explore_entry(tu, f['name'], lambda it, st: [unk('instance'), 4], lambda: std_table(2), errno_value=5)
        for p in paths:
            closes = [a for n, a, l in p.events if n == 'extern:close']
            if p.ret == SUCCESS:
                chk.expect(closes == [(10,)], 'R12.6', '%s/fd_close:closes-native' % gen,
                           'fd_close reports success after close%r; expected close of the descriptor\'s native fd' % (closes,), 'fd_close')
            if _native_failed(p, ('close', 'closedir')):
                chk.expect(p.ret != SUCCESS, 'R12.6', '%s/fd_close:failure-reported' % gen, 'fd_close hides a failed close()', 'fd_close')


def check_raw_guest_writes(chk, tu):
    """R12.2 (general form): the I/O imports write guest memory only through the typed store helpers and through host calls that get
    the guest buffer with the guest's length"""
    eps = W.entry_points(tu)
    for imp in ('fd_read', 'fd_write', 'fd_pread', 'fd_pwrite', 'fd_seek', 'fd_tell', 'path_open', 'fd_filestat_get', 'path_filestat_get',
                'fd_fdstat_get'):
        for gen, f in sorted(eps.get(imp, {}).items()):
            try:
                raw, n = W.raw_guest_writes(tu, f, lambda: std_table(2), max_paths=2000)
            except pe.PEError as e:
                chk.note('raw guest writes of %s/%s not decided: %s' % (gen, imp, str(e)[:80]))
                continue
            chk.expect(not raw, 'R12.2', '%s/%s:no-raw-guest-writes' % (gen, imp),
                       '%s writes guest memory through %s itself (outside the typed store helpers and host calls bounded by the guest length)'
                       % (imp, ', '.join(sorted(raw))), imp + ':raw-guest-write')


def run(chk):
    chk.explanation = (
        'Each I/O import of both ABI generations is partially evaluated with a symbolic guest memory and a descriptor table; the path '
        'summaries list every guest load/store (width, affine offset from the argument pointer), every native call with its arguments '
        'and the value returned. Layouts, vector order, 64-bit offsets, flag/whence/errno tables (host constants read from the same '
        'headers on every run), seek/restore pairing and error discipline are decided on those summaries. That the host calls behave as '
        'POSIX says, short transfers and the resulting file contents are not decided.')
    chk.assumptions = ['POSIX semantics of readv/writev/lseek/open', 'host constants are those of the build\'s headers and flags']
    tu = W.wasi_tu()
    chk.unit(tu)
    macros = W.host_macros(('E', 'SEEK_', 'O_'))
    check_signatures(chk, tu)
    check_rw(chk, tu, macros)
    check_sequences(chk, tu, macros)
    chk.floor('R12.8', 2)
    # R12.9: "for every sequence of path_open ... fd_close calls": the number path_open reports is the number of the slot the new
    # descriptor was stored in, for every interleaving of opens and closes - the descriptor table evaluated on concrete insert / close
    # sequences (rule shared with C13 R13.6): a number handed out denotes the inserted descriptor and no other live one
    from . import c13 as _c13
    _c13.check_descriptor_sequences(chk, tu, rule='R12.9')
    chk.floor('R12.9', 1)
    check_seek(chk, tu, macros)
    check_errno_table(chk, tu, macros)
    check_filetype_table(chk, tu)
    check_open_flags(chk, tu, macros)
    check_filestat(chk, tu)
    check_positional(chk, tu, macros)
    check_raw_guest_writes(chk, tu)
    check_close(chk, tu)
    # fd_close inside a sequence: the closed slot must not keep the native descriptor (the host hands the same number to the next
    # open), and the file I/O calls on a closed descriptor are EBADF without a native call - rules shared with C13 (R13.2 / R13.3)
    from . import c13
    closed = c13.closed_state(chk, tu, rule='R12.7')
    c13.check_inert(chk, tu, closed, only=('fd_write', 'fd_pwrite', 'fd_read', 'fd_pread', 'fd_seek', 'fd_tell', 'fd_filestat_get', 'fd_close'),
                    rule='R12.7', floor=16)
    chk.floor('R12.7', 16)
    chk.floor('R12.1', 18)
    chk.floor('R12.2', 20)
    chk.floor('R12.3', 40)
    chk.floor('R12.4', 4)
    chk.floor('R12.5', 40)
