"""C19  Linear memory is little-endian regardless of host byte order.

Analysed on the AST of w2c2_base.h compiled for a big-endian target description
(-DWASM_ENDIAN=WASM_BIG_ENDIAN -DWASM_THREADS_PTHREADS) on this host - parse only.

R19.1  exactly one byte reversal of exactly the access width on every path between linear memory and the value
       returned / stored, for 23 plain, 14 atomic load/store and 49 RMW/cmpxchg functions; none for 8-bit
       flavours and bulk copies; big-endian RMW/cmpxchg are lock regions of mem->mutex
R19.2  the translator's float-immediate readers apply one 32/64-bit reversal under the big-endian configuration
       and none under little-endian
R19.3  wasi.c never reinterprets guest memory as a multi-byte integer object (only byte pointers and the
       iN_load / iN_store helpers)
R19.4  futex.c (memory.atomic.wait) reads the waited-on cell through i32/i64_atomic_load, not by reinterpreting memory->data
"""
import re
from .. import astdb, pe, emit, oracle, runtime, memrules as mr, ctyperules as ct
from ..astdb import AnalysisBroken, kids, walk
from ..pe import is_sym


def fn_name_for(row):
    """runtime function name reached from the row's template (resolved by C05/C16; here the naming scheme
    of w2c2_base.h is read back from the little-endian summaries)"""
    return row['name'].replace('.atomic.', '_atomic_').replace('.', '_')


def rt_name(row):
    n = row['name']
    n = n.replace('.atomic.rmw', '_atomic_rmw').replace('.atomic.', '_atomic_').replace('.', '_')
    return n


def bswaps(v):
    return [s for s in pe.sym_walk(v) if is_sym(s) and s.op.startswith('bswap')]


def bswap_width(s):
    return int(s.op[5:])


_SWAP_OPS = ('cast', '|', '&', '<<', '>>')


def _sym_eval(e, leaf, x):
    """value of a shift/mask/or expression over one leaf (None if anything else occurs)"""
    if isinstance(e, int):
        return e
    if not is_sym(e):
        return None
    if e == leaf:
        return x
    if e.op == 'cast':
        v = _sym_eval(e.args[0], leaf, x)
        ti = ct.tinfo(e.ctype) if e.ctype else ('other',)
        if v is None or ti[0] != 'int':
            return None
        v &= (1 << ti[1]) - 1
        if ti[2] and v >> (ti[1] - 1):
            v -= 1 << ti[1]
        return v
    if e.op in ('|', '&', '<<', '>>') and len(e.args) == 2:
        a, b = _sym_eval(e.args[0], leaf, x), _sym_eval(e.args[1], leaf, x)
        if a is None or b is None:
            return None
        if e.op in ('<<', '>>') and not 0 <= b < 64:
            return None
        v = (a | b) if e.op == '|' else (a & b) if e.op == '&' else (a << b) if e.op == '<<' else (a >> b)
        ti = ct.tinfo(e.ctype) if e.ctype else ('other',)
        if ti[0] == 'int':
            v &= (1 << ti[1]) - 1
        return v
    return None


def _try_swap(v, inner, W, found):
    """bswapW(leaf) when the or-tree `inner` (seen through `v`, which may add a narrowing cast) is built from one leaf by shifts, masks
    and ors only and equals the W-bit byte reversal of that leaf on 0, all ones and every single-bit value (these operators
    distribute over bitwise or); W = None: the leaf's own width"""
    # candidate "value being reversed": found by descending from the first or-branch through the shift/mask operators (left operands);
    # every cast met on the way and the first other term are candidates, outermost first
    cands = []
    e = inner
    while is_sym(e):
        ti = ct.tinfo(e.ctype) if e.ctype else ('other',)
        if e.op == 'cast':
            if ti[0] == 'int' and not ti[2] and (W is None or ti[1] <= W) and e is not inner:
                cands.append(e)
            e = e.args[0]
            continue
        if e.op in ('|', '&', '<<', '>>') and len(e.args) == 2:
            if isinstance(e.args[1], int) and is_sym(e.args[0]):
                # the operand of a constant mask / shift may itself be an and/or term (the value an RMW `and`/`or` computed)
                x = e.args[0]
                tx = ct.tinfo(x.ctype) if x.ctype else ('other',)
                if tx[0] == 'int' and (W is None or tx[1] <= W) and x.op in ('|', '&'):
                    cands.append(x)
            e = e.args[0] if is_sym(e.args[0]) else e.args[1]
            continue
        if ti[0] == 'int' and (W is None or ti[1] <= W):
            cands.append(e)
        break
    for c_ in cands:
        def only(e, leaf=c_):
            if isinstance(e, int):
                return True
            if not is_sym(e):
                return False
            if e == leaf:
                return True
            if e.op in _SWAP_OPS and (e.op == 'cast' or len(e.args) == 2):
                return all(only(a) for a in e.args)
            return False
        if not only(inner):
            continue
        LW = ct.tinfo(c_.ctype)[1]
        W_ = W if W is not None else LW
        if W_ not in (16, 32, 64):
            continue
        basis = [0, (1 << LW) - 1] + [1 << i for i in range(LW)]

        def bsw(x):
            return int.from_bytes((x & ((1 << W_) - 1)).to_bytes(W_ // 8, 'little'), 'big')
        if all(_sym_eval(v, c_, x) == bsw(x) for x in basis):
            if found is not None:
                found.append(W_)
            return pe.Sym('bswap%d' % W_, (normalize_swaps(c_, found),), v.ctype)
    return None


def normalize_swaps(v, found=None):
    """rewrite open-coded byte reversals ((U16)((x >> 8) | (x << 8)), mask-and-shift or-trees without a cast, and the 32/64-bit
    analogues) of a W-bit value into bswapW(x)"""
    if not is_sym(v):
        return v
    if v.op == 'cast' and v.ctype and ct.tinfo(v.ctype)[0] == 'int' and ct.tinfo(v.ctype)[1] in (16, 32, 64) and not ct.tinfo(v.ctype)[2]:
        inner = v.args[0]
        if is_sym(inner) and inner.op == '|':
            r = _try_swap(v, inner, ct.tinfo(v.ctype)[1], found)
            if r is not None:
                return r
    if v.op == '|' and len(v.args) == 2:
        r = _try_swap(v, v, None, found)
        if r is not None:
            return r
    if v.args and any(is_sym(a) for a in v.args):
        return pe.Sym(v.op, tuple(normalize_swaps(a, found) if is_sym(a) else a for a in v.args), v.ctype)
    return v


def template_callees(chk):
    """runtime function called by each access row's template (from the emitters, not from a naming scheme)"""
    import re
    from .. import templates
    from . import c01
    tus = emit.translator_tus(('c.c', 'opcode.c', 'instruction.c'), chk=chk)
    it = emit.make_interp(tus)
    out = {}
    for row in oracle.ROWS:
        if row['sem'].get('cls') not in ('load', 'store', 'atomic.load', 'atomic.store', 'atomic.rmw', 'atomic.cmpxchg'):
            continue
        tp = [t for t in templates.extract(it, row, mr.FILLER + row['params'], 0, 0) if t.ok and t.parts]
        chk.require(tp, 'no template for %s' % row['name'])
        m = re.search(r'(?:=)?\s*([A-Za-z_][A-Za-z_0-9]*)\(', tp[0].text())
        chk.require(m is not None, 'template of %s is not a call: %r' % (row['name'], tp[0].text()))
        out[row['name']] = m.group(1)
    # the name in the template may be a macro of the analysed configuration (an alias of another function there): resolve every name
    # to the function it denotes under the big-endian flags
    h = templates.Harness(base_flags=['-DWASM_ENDIAN=WASM_BIG_ENDIAN', '-DWASM_THREADS_PTHREADS'])
    names = sorted(set(out.values()))
    for k, nm in enumerate(names):
        h.add('R_%d' % k, '(void)&%s;\n' % nm)
    try:
        rtu = h.parse('c19-resolve')
    except Exception as e:
        raise AnalysisBroken('cannot resolve runtime function names under the big-endian configuration: %s' % e)
    resolved = {}
    for k, nm in enumerate(names):
        refs = [x['referencedDecl'].get('name') for x in walk(astdb.fn_body(rtu.fn('R_%d' % k))) if x.get('kind') == 'DeclRefExpr' and
                x.get('referencedDecl', {}).get('kind') == 'FunctionDecl']
        resolved[nm] = refs[0] if refs else nm
    return {row: resolved.get(nm, nm) for row, nm in out.items()}


def check_function(chk, htu, row, cfg, callees, rule='R19.1'):
    sem = row['sem']
    cls = sem['cls']
    access = sem['access']
    fn = callees[row['name']]
    site = 'runtime/%s@%s' % (fn, cfg)
    summ = mr.summarize_access(htu, fn)
    if summ is None:
        chk.fail(rule, fn + '@' + cfg, 'function %s is not defined in the big-endian configuration' % fn, site)
        return
    chk.fn(fn)
    probs = []
    want_n = 0 if access == 8 else 1
    for p in summ['paths']:
        ev = p.events
        swaps = [e for e in ev if e[0] == 'bswap']
        open_coded = []
        p.ret = normalize_swaps(p.ret, open_coded)
        # value read from memory
        if cls in ('load', 'atomic.load', 'atomic.rmw', 'atomic.cmpxchg'):
            rs = bswaps(p.ret)
            if len(rs) != want_n or any(bswap_width(s) != access for s in rs):
                probs.append('returned value %r carries %d byte reversal(s) %s; expected exactly %d of %d bits'
                             % (p.ret, len(rs), [bswap_width(s) for s in rs], want_n, access))
            for s in rs:
                inner = s.args[0]
                loads = mr.raw_loads(inner) + [1 for x in pe.sym_walk(inner) if is_sym(x) and x.op == 'atomic-old'] + \
                    [1 for x in pe.sym_walk(inner) if is_sym(x) and x.op == 'bytes' and x.args and mr.mem_location(x.args[0])]   # memcpy out of memory
                if not loads:
                    probs.append('the reversal in the returned value is not applied to the loaded bytes: %r' % (s,))
        # the module-visible value is the same function of the (reversed) bytes as on a little-endian host: the row's extension
        if cls in ('load', 'atomic.load', 'atomic.rmw', 'atomic.cmpxchg') and sem['type'][0] == 'i':
            Wres = mr.W_OF[sem['type']]
            sl = runtime.sym_slice(p.ret)
            want_ext = 's' if sem.get('ext') == 's' else 'z'
            if sl[0] != 'slice':
                probs.append('returned value %r is not an extension of the loaded bytes (%s)' % (p.ret, sl[1]))
            else:
                got = mr.canon_slice(sl)
                if (got[1], got[2], got[3]) != ((access, want_ext, Wres) if access < Wres else (Wres, 'z', Wres)):
                    probs.append('returns the %s-extension of %d loaded bits to %d bits; on a little-endian host (and in the specification) it is '
                                 'the %s-extension of %d bits to %d: the value seen by the module depends on the host byte order'
                                 % ('sign' if got[2] == 's' else 'zero', got[1], got[3], 'sign' if want_ext == 's' else 'zero', access, Wres))
        # value written to memory
        if cls in ('store', 'atomic.store', 'atomic.rmw', 'atomic.cmpxchg'):
            written = []
            for name, args, loc in ev:
                if name == 'store-sym' and is_sym(args[0]) and mr.mem_location(args[0]):
                    written.append((args[1], ct.tinfo(args[0].ctype)))
                elif name == 'atomic' and args[0] == '__atomic_store_n':
                    written.append((args[3], ('int', args[-1], False)))
                elif name in ('memcpy', 'memmove') and mr.mem_location(args[0]):
                    src = args[1][1] if isinstance(args[1], tuple) else args[1]
                    written.append((src, ('int', args[2] * 8 if isinstance(args[2], int) else None, False)))
            # a native atomic and/or/xor on the raw cell with the byte-reversed operand: bitwise operators act on every bit on its own, so
            # reversing the operand instead of the loaded and the stored value leaves the same bytes in memory (not so for add/sub: carries)
            native_bitwise = False
            for name, args, loc in ev:
                if name == 'atomic' and isinstance(args[0], str) and re.match(r'__(atomic_fetch|sync_fetch_and)_(and|or|xor)$', args[0]) and \
                        cls == 'atomic.rmw' and sem.get('op') in ('and', 'or', 'xor') and args[0].endswith('_' + sem.get('op')) and \
                        is_sym(args[1]) and mr.mem_location(args[1]) and args[-1] == access:
                    opnd = normalize_swaps(args[3], open_coded)
                    top = pe.strip_casts(opnd)
                    low = top.args[0] if (is_sym(top) and top.op == 'bswap%d' % access) else (top if want_n == 0 else None)
                    while low is not None and is_sym(low) and low.op in ('bytes', 'cast'):
                        if low.op == 'cast' and (ct.tinfo(low.ctype)[0] != 'int' or ct.tinfo(low.ctype)[1] < access):
                            break
                        low = low.args[0]
                    if low is not None and is_sym(low) and low.op == 'unk' and low.args[0] == 'value':
                        native_bitwise = True
            if cls != 'atomic.cmpxchg' and not written and not native_bitwise:
                probs.append('no store to linear memory on path %s' % p.cond_text())
            for val, ti in written:
                val = normalize_swaps(val, open_coded)
                top = pe.strip_casts(val)
                if ti[1] != access:
                    probs.append('stores %r bits, the access width is %d' % (ti[1], access))
                if want_n == 0:
                    if bswaps(val) and any(not mr.raw_loads(s.args[0]) for s in bswaps(val)):
                        probs.append('8-bit store applies a byte reversal: %r' % (val,))
                    continue
                if not (is_sym(top) and top.op == 'bswap%d' % access):
                    probs.append('value stored to memory is %r; expected a %d-bit byte reversal as the last step' % (val, access))
                    continue
                # what is reversed is the low `access` bits of the value operand
                if cls in ('store', 'atomic.store'):
                    low = top.args[0]
                    while is_sym(low) and low.op in ('bytes', 'cast'):
                        if low.op == 'cast' and (ct.tinfo(low.ctype)[0] != 'int' or ct.tinfo(low.ctype)[1] < access):
                            break
                        low = low.args[0]
                    if not (is_sym(low) and low.op == 'unk' and low.args[0] == 'value'):
                        probs.append('the reversed value %r is not the low %d bits of the value operand' % (top.args[0], access))
                inner = bswaps(top.args[0])
                # reversals below the outermost one may only be the re-reversal of the loaded old value (RMW)
                for s in inner:
                    from_memory = mr.raw_loads(s.args[0]) or [1 for x in pe.sym_walk(s.args[0]) if is_sym(x) and x.op == 'bytes' and x.args and
                                                              mr.mem_location(x.args[0])]      # typed load, or memcpy out of memory
                    if bswap_width(s) != access or not from_memory:
                        probs.append('stored value contains a second reversal of something other than the loaded old value: %r' % (s,))
        if cls in ('atomic.rmw', 'atomic.cmpxchg'):
            names = [e[0] for e in ev]
            touches = [i for i, e in enumerate(ev) if e[0] in ('store-sym', 'atomic', 'memcpy', 'memmove')
                       or (e[0] == 'read' and e[1][1] == 'data')]
            if 'lock' not in names or 'unlock' not in names:
                probs.append('read-modify-write is not a lock region of mem->mutex (events %r)' % names)
            else:
                lo, hi = names.index('lock'), len(names) - 1 - names[::-1].index('unlock')
                if names.count('lock') != 1 or names.count('unlock') != 1 or any(i < lo or i > hi for i in touches):
                    probs.append('memory is touched outside the single lock region (events %r)' % names)
        if cls in ('load', 'store') and access > 8 and len(swaps) + len(open_coded) != 1:
            probs.append('%d byte reversals on the path, expected one' % len(swaps))
    for pr in probs:
        chk.fail(rule, '%s@%s' % (row['name'], cfg), '%s: %s' % (fn, pr), site)
    if not probs:
        chk.ok(rule, '%s@%s' % (row['name'], cfg),
               '%d reversal(s) of %d bits' % (want_n, access) if want_n else 'no reversal (byte access)')


def check_bulk(chk, htu, cfg):
    for fn in ('wasmMemoryCopy', 'wasmMemoryFill', 'load_data'):
        if fn == 'load_data' and fn not in htu.functions:
            continue        # LOAD_DATA expands to a plain byte copy (no helper function)
        f = htu.fn(fn)
        n = [x for x in walk(f) if x.get('kind') == 'CallExpr' and (astdb.callee_name(x) or '').startswith('__builtin_bswap')]
        shifts = [x for x in walk(f) if x.get('kind') == 'BinaryOperator' and x.get('opcode') in ('<<', '>>')]
        chk.expect(not n and not shifts, 'R19.1', '%s@%s' % (fn, cfg),
                   '%s applies a byte reversal/shift - bulk byte copies must not' % fn, 'runtime/%s@%s' % (fn, cfg))


def check_translator_readers(chk):
    """R19.2: the float-immediate readers return the little-endian value on both host byte orders.  The reader is partially
    evaluated with union type punning modelled in the host's byte order.  Its data path uses only |, &, shifts, casts, byte
    copies and byte reversals - all of which distribute over bitwise OR - so agreement on 0, on every single-bit value and on
    all-ones decides every value; a body with other arithmetic is additionally reported as not decided."""
    from .. import pe
    from ..pe import Ptr

    def memcpy(interp, args, node):
        d, s_, n = args
        if not isinstance(n, int):
            raise pe.PEError('memcpy of symbolic length')
        for i in range(n):
            interp.store(d.c, d.k + i, interp.load(s_.c, s_.k + i))
        return d

    def bswap(w):
        def f(interp, args, node):
            x = args[0] & ((1 << w) - 1)
            return int.from_bytes(x.to_bytes(w // 8, 'little'), 'big')
        return f
    for cfg, extra, endian in (('le', [], 'little'), ('be', ['-DWASM_ENDIAN=WASM_BIG_ENDIAN'], 'big')):
        tu = astdb.dump_ast(astdb.src('w2c2/instruction.c'), extra=extra, config=cfg)
        chk.unit(tu)
        for fn, W in (('bufferReadF32', 32), ('bufferReadF64', 64)):
            f = tu.fn(fn)
            chk.fn(fn)
            site = '%s@%s' % (fn, cfg)
            arith = sorted({x.get('opcode') for x in walk(astdb.fn_body(f)) if x.get('kind') in ('BinaryOperator', 'CompoundAssignOperator')
                            and x.get('opcode') in ('+', '-', '*', '/', '%', '+=', '-=', '*=', '^', '^=')})
            values = [0, (1 << W) - 1] + [1 << b for b in range(W)] + [0x0123456789ABCDEF & ((1 << W) - 1), 0x8040201008040201 & ((1 << W) - 1)]
            bad = []
            for v in values:
                data = list(v.to_bytes(W // 8, 'little')) + [0xEE]
                it = pe.Interp([tu], {'memcpy': memcpy, '__builtin_memcpy': memcpy, '__builtin_bswap64': bswap(64), '__builtin_bswap32': bswap(32),
                                      '__builtin_bswap16': bswap(16)})
                it.union_endian = endian

                def setup(data=data):
                    buf = {'v': {'data': Ptr(data, 0), 'length': W // 8}}
                    res = {'v': 0}
                    return (fn, [Ptr(buf, 'v'), Ptr(res, 'v')], {'res': res, 'buf': buf})
                try:
                    paths = it.explore(setup)
                except pe.PEError as e:
                    raise AnalysisBroken('%s [%s]: %s' % (fn, cfg, e))
                if len(paths) != 1 or paths[0].ret != 1:
                    bad.append('value 0x%X: %d paths / return %r' % (v, len(paths), paths[0].ret if paths else None))
                    continue
                got = paths[0].state['res']['v']
                b = paths[0].state['buf']['v']
                if not isinstance(got, int) or (got & ((1 << W) - 1)) != v:
                    bad.append('immediate bytes of 0x%0*X are read as %s' % (W // 4, v, ('0x%0*X' % (W // 4, got & ((1 << W) - 1))) if isinstance(got, int) else repr(got)))
                elif b['length'] != 0 or not (isinstance(b['data'], Ptr) and b['data'].k == W // 8):
                    bad.append('value 0x%X: the reader does not consume exactly %d bytes' % (v, W // 8))
            chk.expect(not bad, 'R19.2', site,
                       '%s on a %s-endian host does not return the little-endian immediate for %d of %d basis values (e.g. %s): constants in the '
                       'generated C differ from the module' % (fn, endian, len(bad), len(values), '; '.join(bad[:3])), site, astdb.loc_str(f),
                       detail_ok='%d basis values (0, all ones, every single bit) map to themselves' % len(values))
            chk.expect(not arith, 'R19.2', site + ':or-distributive',
                       '%s uses %r on its data path: agreement on single-bit values no longer decides all values (not decided, reported so that it is not '
                       'mistaken for a proof)' % (fn, arith), site + ':arith')


BYTE_POINTEES = ('char', 'unsigned char', 'signed char', 'void', 'const char', 'const unsigned char', 'const void',
                 'const signed char')


def guest_pointer_casts(tu, suffix='wasi.c'):
    """all pointer conversions applied to an expression derived from wasmMemory.data: (node, pointee type)"""
    out = []

    def derives_from_data(n):
        n = astdb.strip(n)
        k = n.get('kind')
        if k == 'MemberExpr' and n.get('name') == 'data':
            bt = tu.desugar(astdb.qtype(kids(n)[0]))
            return 'wasmMemory' in bt
        if k == 'BinaryOperator' and n.get('opcode') in ('+', '-'):
            return any(derives_from_data(c) for c in kids(n))
        if k == 'CStyleCastExpr':
            return derives_from_data(kids(n)[0])
        if k == 'UnaryOperator' and n.get('opcode') == '&':
            s = astdb.strip(kids(n)[0])
            if s.get('kind') == 'ArraySubscriptExpr':
                return derives_from_data(kids(s)[0])
        return False
    sites = 0
    for f in tu.functions.values():
        if not (astdb.file_of(f) or '').endswith(suffix):
            continue
        for n in walk(f):
            if n.get('kind') in ('CStyleCastExpr', 'ImplicitCastExpr') and n.get('castKind') == 'BitCast':
                if derives_from_data(kids(n)[0]):
                    pt = tu.desugar(astdb.qtype(n)).strip()
                    if pt.endswith('*'):
                        out.append((n, pt[:-1].strip(), f.get('name')))
            if n.get('kind') == 'MemberExpr' and n.get('name') == 'data':
                if 'wasmMemory' in tu.desugar(astdb.qtype(kids(n)[0])):
                    sites += 1
    return out, sites


def check_wasi(chk):
    tu = astdb.dump_ast(astdb.src('wasi/wasi.c'))
    chk.unit(tu)
    casts, sites = guest_pointer_casts(tu)
    bad = [(n, pt, fn) for n, pt, fn in casts if pt.replace('volatile ', '') not in BYTE_POINTEES]
    for n, pt, fn in bad:
        chk.fail('R19.3', '%s:%s' % (fn, astdb.line_of(n)),
                 '%s reinterprets guest memory as %s - multi-byte guest data must go through the byte-order aware '
                 'iN_load/iN_store helpers' % (fn, pt), 'wasi.c/%s:guest-cast-%s' % (fn, pt), astdb.loc_str(n))
    chk.expect(True, 'R19.3', 'guest-memory-sites', '', 'wasi.c', detail_ok='%d uses of memory->data, %d pointer casts, all to byte pointers' % (sites, len(casts)))
    chk.require(sites >= 20, 'only %d uses of wasmMemory.data found in wasi.c (expected >= 20): anchor drifted' % sites)
    # positive control: the rule must fire on a planted reinterpretation
    text = '#include "%s"\nU32 planted(wasmMemory* memory, U32 p) { return *(U32*)(memory->data + p); }\n' % astdb.src('w2c2/w2c2_base.h')
    ctl = astdb.dump_ast('<c19-control>', flags=['-std=gnu89'], text=text)
    ctl.functions['planted']['_loc'] = ('wasi.c', 1, 1)
    c2, _ = guest_pointer_casts(ctl)
    chk.require(any(pt == 'unsigned int' for _, pt, _ in c2), 'R19.3 positive control did not fire')
    chk.sample(dict(rule='R19.3', sites=sites, casts=[(fn, pt) for _, pt, fn in casts][:12]))


def check_futex(chk):
    """R19.4: memory.atomic.wait compares the cell with the expected value - futex.c must read it through the byte-order aware
    iN_atomic_load helpers, never by reinterpreting memory->data as a multi-byte object"""
    from .c17 import FUTEX_FLAGS
    tu = astdb.dump_ast(astdb.src('futex/futex.c'), flags=FUTEX_FLAGS + ['-DWASM_ENDIAN=WASM_BIG_ENDIAN'], config='futex-be')
    chk.unit(tu)
    casts, sites = guest_pointer_casts(tu, 'futex.c')
    bad = [(n, pt, fn) for n, pt, fn in casts if pt.replace('volatile ', '') not in BYTE_POINTEES]
    for n, pt, fn in bad:
        chk.fail('R19.4', '%s:%s' % (fn, astdb.line_of(n)),
                 '%s reads or writes guest memory as %s without the byte reversal of the big-endian configuration: wait would compare another '
                 'value than the module\'s own loads see' % (fn, pt), 'futex.c/%s:guest-cast-%s' % (fn, pt), astdb.loc_str(n))
    # the cell is loaded by the runtime's atomic loads
    f = tu.fn('wasmMemoryAtomicWait')
    chk.fn('wasmMemoryAtomicWait')
    # calls made by wasmMemoryAtomicWait itself or by the futex.c helpers it calls (the load may sit in a helper)
    seen_f, todo, loads = set(), ['wasmMemoryAtomicWait'], set()
    while todo:
        g = todo.pop()
        if g in seen_f or g not in tu.functions or not (astdb.file_of(tu.functions[g]) or '').endswith('futex.c'):
            continue
        seen_f.add(g)
        for c in walk(astdb.fn_body(tu.functions[g])):
            if c.get('kind') == 'CallExpr':
                cn = astdb.callee_name(c) or ''
                if re.fullmatch(r'i(32|64)_(atomic_)?load', cn):
                    loads.add(cn)
                else:
                    todo.append(cn)
    loads = sorted(loads)
    chk.expect(any(l.startswith('i32') for l in loads) and any(l.startswith('i64') for l in loads) and not bad, 'R19.4', 'wait-reads-through-helpers',
               'wasmMemoryAtomicWait loads the cell through %r (direct reinterpretations of memory->data: %d); expected the runtime\'s i32/i64 load '
               'helpers, which apply the 32/64-bit reversal on big-endian hosts' % (loads, len(bad)), 'futex.c/wasmMemoryAtomicWait:cell-load')


def run(chk):
    chk.explanation = (
        'w2c2_base.h is parsed for a big-endian target description on this host (no execution). Every load/store/atomic/RMW '
        'function is summarised by partial evaluation; the symbolic value returned and the symbolic value stored to linear memory '
        'must each carry exactly one byte reversal of the access width (none for 8 bits), applied to the loaded bytes / as the last '
        'step before the store; RMW and cmpxchg must be single lock regions. Finite flavour table, covered completely.')
    chk.assumptions = ['__builtin_bswapN reverses N/8 bytes', 'alignment of the *(UN*) accesses of readSwap*/writeSwap* on real '
                       'big-endian hardware is not decided', 'embedder-facing DEFINE_SWAP helpers are outside the statement']
    # 'be-fallback': the same header as a compiler without byte-swap builtins sees it (open-coded mask-and-shift reversals)
    cfgs = ['be', 'be-fallback']
    callees = template_callees(chk)
    for cfg in cfgs:
        htu = runtime.header(cfg)
        chk.unit(htu)
        rows = [r for r in oracle.ROWS if r['sem'].get('cls') in ('load', 'store', 'atomic.load', 'atomic.store',
                                                                  'atomic.rmw', 'atomic.cmpxchg')]
        chk.require(len(rows) == 86, 'oracle lists %d access flavours, expected 86' % len(rows))
        from .. import concrete_mem as cm
        for row in rows:
            check_function(chk, htu, row, cfg, callees)
            # second decision: evaluated on concrete bytes with the host's objects assembled big-endian, the function must leave /
            # return exactly what the little-endian specification prescribes
            fn = callees[row['name']]
            if fn not in htu.functions:
                continue
            try:
                bad = cm.refute(htu, fn, row, 'big', small=chk.tier != 'thorough')
            except cm.Unsupported as e:
                chk.note('%s: concrete evaluation not applicable (%s)' % (fn, e))
                continue
            except pe.PEError as e:
                bad = 'cannot be evaluated on concrete operands: %s' % e
            chk.expect(not bad, 'R19.1', '%s@%s:concrete' % (row['name'], cfg), '%s on a big-endian host%s: %s' % (row['name'], ' (compiler without swap builtins)' if cfg != 'be' else '', bad),
                       'runtime/%s@%s:bytes' % (fn, cfg), detail_ok='agrees with the little-endian specification on the concrete family')
        check_bulk(chk, htu, cfg)
    # little-endian configuration: no reversal anywhere
    le = runtime.header('le')
    n = [x for f in le.functions.values() if (astdb.file_of(f) or '').endswith('w2c2_base.h')
         for x in walk(f) if x.get('kind') == 'CallExpr' and (astdb.callee_name(x) or '').startswith('__builtin_bswap')]
    chk.expect(not n, 'R19.1', 'le:no-reversal', 'little-endian configuration applies %d byte reversals' % len(n), 'w2c2_base.h@le')
    check_translator_readers(chk)
    check_wasi(chk)
    check_futex(chk)
    chk.floor('R19.1', 86)
    chk.floor('R19.4', 1)
    chk.floor('R19.2', 6)
    chk.exhaustive = True
