"""C07  Every constant keeps its exact bit pattern through the generated C text.

R07.1/2  predicate-abstraction equivalence of wasmCWriteLiteral's float classification with the IEEE-754
         classes (NaN -> bit-exact hex reinterpret, +-inf, -0, finite -> round-trip decimal)
R07.3    decimal precision of the numeric sprintf formats (>= 9 / >= 17 significant digits, g/e)
R07.4    integer literal forms and format length modifiers
R07.5    const immediates are decoded by the reader of their own width into an *integer* field
R07.6    all three constant positions are rendered through wasmCWriteLiteral
"""
import itertools
import re

from .. import astdb, pe, emit
from ..astdb import kids, qtype, walk, AnalysisBroken
from ..pe import Sym, Ptr, unk, is_sym

WASM_CONST = {0x41: ('i32', 'i32', 'i32'), 0x42: ('i64', 'i64', 'i64'),
              0x43: ('f32', 'f32', 'i32'), 0x44: ('f64', 'f64', 'i64')}   # enc -> (type, stream tag, union field)
VT_ENC = {'i32': -1, 'i64': -2, 'f32': -3, 'f64': -4}                      # signed LEB value of 0x7F..0x7C
FLOAT_FMT = {'f32': (32, 8, 23, 9), 'f64': (64, 11, 52, 17)}               # W, exponent bits, significand bits, digits


def decode_valuetypes(it):
    """enumerator value of each wasm value type, from wasmDecodeValueType on the spec encodings"""
    out = {}
    for name, enc in VT_ENC.items():
        def setup():
            cell = {'v': unk('result')}
            return ('wasmDecodeValueType', [enc, Ptr(cell, 'v')], {'cell': cell})
        paths = it.explore(setup)
        if len(paths) != 1 or paths[0].ret != 1 or not isinstance(paths[0].state['cell']['v'], int):
            raise AnalysisBroken('wasmDecodeValueType(%d) does not yield a constant' % enc)
        out[name] = paths[0].state['cell']['v']
    if len(set(out.values())) != 4:
        raise AnalysisBroken('wasmDecodeValueType maps two encodings to one type: %r' % out)
    return out


def literal_paths(it, vt):
    value = unk('value', 'union WasmValue')

    def setup():
        sb = {'string': 0, 'length': 0, 'capacity': 0}
        cell = {'v': sb}
        emit._sb_init(it, [Ptr(cell, 'v')], None)
        return ('wasmCWriteLiteral', [Ptr(cell, 'v'), vt, value], {'sb': sb})
    return value, it.explore(setup)


def classify_output(parts):
    """-> (kind, payload)"""
    if len(parts) == 1 and isinstance(parts[0], str):
        s = parts[0]
        if s in ('INFINITY', '-INFINITY'):
            return ('inf', s.startswith('-'))
        if re.fullmatch(r'-0(\.0*)?[fF]?', s):
            return ('negzero', None)
        return ('text', s)
    if len(parts) == 1 and isinstance(parts[0], tuple) and parts[0][0] in ('F32', 'F64'):
        return ('dec', parts[0])
    if len(parts) == 3 and isinstance(parts[0], str) and isinstance(parts[1], tuple) \
            and parts[1][0] in ('U32Hex', 'U64Hex') and parts[2] == ')':
        m = re.fullmatch(r'(f32_reinterpret_i32|f64_reinterpret_i64)\(0[xX]', parts[0])
        if m:
            return ('hex', (m.group(1), parts[1]))
    return ('other', parts)


def bit_classes(masks, W):
    groups = {}
    for b in range(W):
        sig = tuple(bool(m >> b & 1) for m in masks)
        groups[sig] = groups.get(sig, 0) | (1 << b)
    return list(groups.values())


def class_values(cls, consts):
    vals = {0, cls}
    for k in consts:
        vals.add(k & cls)
    bits = [1 << b for b in range(cls.bit_length()) if cls >> b & 1]
    other = None
    for cand in bits + [a | b for a, b in itertools.combinations(bits[:8], 2)]:
        if cand not in vals:
            other = cand
            break
    if other is not None:
        vals.add(other)
    return sorted(vals)


def spec_class(raw, W, E, M):
    sign = raw >> (W - 1) & 1
    exp = raw >> M & ((1 << E) - 1)
    sig = raw & ((1 << M) - 1)
    if exp == (1 << E) - 1:
        return ('nan', sign) if sig else ('inf', sign)
    if raw == 1 << (W - 1):
        return ('negzero', sign)
    return ('finite', sign)


def signed(v, W):
    v &= (1 << W) - 1
    return v - (1 << W) if v >> (W - 1) else v


def literal_slot_bits(parts, tname):
    """bit pattern that the emitted constant leaves in a slot of type tname (C conversion to the slot type included), or None when the
    form is not recognised"""
    import struct
    W = 32 if tname.endswith('32') else 64

    def to_slot(fmt_w, bits):
        if fmt_w == W:
            return bits
        f = struct.unpack('<f' if fmt_w == 32 else '<d', bits.to_bytes(fmt_w // 8, 'little'))[0]     # C conversion to the slot type:
        try:                                                                                           # a signalling NaN comes out quiet
            return int.from_bytes(struct.pack('<f' if W == 32 else '<d', f), 'little')
        except OverflowError:
            return ((1 << (W - 1)) if f < 0 else 0) | (0x7F800000 if W == 32 else 0x7FF0000000000000)
    kind, payload = classify_output(parts)
    if all(isinstance(x, str) for x in parts):
        text = ''.join(parts).strip()
        m = re.fullmatch(r'(f32_reinterpret_i32|f64_reinterpret_i64)\(\s*(?:W2C2_LL\()?\s*(0[xX][0-9a-fA-F]+|\d+)[uUlL]*\s*\)?\s*\)', text)
        if m:
            fw = 32 if m.group(1).startswith('f32') else 64
            return to_slot(fw, int(m.group(2), 0) & ((1 << fw) - 1))
        m = re.fullmatch(r'(-?)((?:\d+\.\d*|\.\d+|\d+)(?:[eE][-+]?\d+)?)([fFlL]?)', text)
        if m and kind not in ('inf', 'negzero'):
            # a decimal constant: `f` suffix = float constant (rounded to binary32 first), none = double constant
            v = float(m.group(2))
            fw = 32 if m.group(3) in ('f', 'F') else 64
            try:
                bits = int.from_bytes(struct.pack('<f' if fw == 32 else '<d', v), 'little')
            except OverflowError:
                return None
            if m.group(1):
                bits |= 1 << (fw - 1)
            return to_slot(fw, bits)
    if kind == 'inf':
        return ((1 << (W - 1)) if payload else 0) | (0x7F800000 if W == 32 else 0x7FF0000000000000)
    if kind == 'negzero':
        return 1 << (W - 1)
    if kind == 'hex':
        fname, (hk, arg) = payload
        if not isinstance(arg, int):
            return None
        fw = 32 if fname.startswith('f32') else 64
        return to_slot(fw, arg & ((1 << fw) - 1))
    if kind == 'dec':
        fw = 32 if payload[0] == 'F32' else 64
        v = payload[1]
        if not isinstance(v, float):
            return None
        try:
            bits = int.from_bytes(struct.pack('<f' if fw == 32 else '<d', v), 'little')
        except OverflowError:
            return None
        if v != v:
            return None         # a NaN printed in decimal has no defined reading
        return to_slot(fw, bits)
    return None


def concrete_literal_family(it, tname, vt):
    """wasmCWriteLiteral evaluated on concrete bit patterns (zeros, infinities, quiet and signalling NaNs of both signs with small and
    large payloads, subnormals, extremes): the constant it writes must leave exactly that pattern in a slot of the type; -> first
    discrepancy (text) or None"""
    W, E, M, digits = FLOAT_FMT[tname]
    expmask = ((1 << E) - 1) << M
    top = 1 << (W - 1)
    pats = set(boundary_patterns(tname)) | {expmask | (1 << (M - 2)), expmask | top | (1 << (M - 2)) | 1, expmask | ((1 << M) - 1), expmask | (1 << (M - 1)) | 1,
                                            expmask | ((1 << (M - 1)) - 1), expmask | top | ((1 << (M - 1)) - 1)}
    old = getattr(it, 'union_endian', None)
    it.union_endian = 'little'
    try:
        for bits in sorted(pats):
            ifld, ffld = ('i32', 'f32') if W == 32 else ('i64', 'f64')

            def setup(bits=bits):
                sb = {'string': 0, 'length': 0, 'capacity': 0}
                cell = {'v': sb}
                emit._sb_init(it, [Ptr(cell, 'v')], None)
                value = it.zero_init('union WasmValue')
                if not isinstance(value, dict):
                    raise AnalysisBroken('union WasmValue is not modelled as a record')
                for k in [k for k in value if not str(k).startswith('_')]:
                    value.pop(k)
                value[ifld] = signed(bits, W)
                value['_last'] = ifld
                value['_union'] = 1
                return ('wasmCWriteLiteral', [Ptr(cell, 'v'), vt, value], {'sb': sb})
            try:
                paths = it.explore(setup)
            except pe.PEError as e:
                raise AnalysisBroken('wasmCWriteLiteral(%s) on the bit pattern 0x%X: %s' % (tname, bits, e))
            good = [p for p in paths if p.ret == 1]
            if len(paths) != 1 or len(good) != 1:
                return 'the bit pattern 0x%0*X takes %d paths, %d successful' % (W // 4, bits, len(paths), len(good))
            parts = good[0].state['sb']['_text'].parts
            got = literal_slot_bits(parts, tname)
            if got is None:
                raise AnalysisBroken('wasmCWriteLiteral(%s) writes %r for 0x%X: constant form not recognised' % (tname, parts, bits))
            if got != bits:
                return 'the constant 0x%0*X is written as %r, which leaves 0x%0*X in the %s slot%s' % (
                    W // 4, bits, good[0].state['sb']['_text'].render(), W // 4, got, tname,
                    ' (a signalling NaN became quiet: the constant went through a floating-point format conversion)'
                    if (bits & expmask) == expmask and bits & ((1 << M) - 1) and got == bits | (1 << (M - 1)) else '')
    finally:
        it.union_endian = old
    return None


def check_float_case(chk, it, tname, vt, sb_tu):
    """classification abstraction; a writer of another shape is decided on the concrete bit-pattern family (violation with its witness)
    or left undecided; the family also runs as a second decision"""
    try:
        n = _check_float_case(chk, it, tname, vt, sb_tu)
    except AnalysisBroken as ex:
        bad = concrete_literal_family(it, tname, vt)
        if bad is None:
            raise AnalysisBroken('%s (the concrete bit-pattern family agrees, which decides those patterns only)' % ex)
        chk.fail('R07.1', tname + ':concrete', '%s constants: %s (writer shape not recognised: %s)' % (tname, bad, str(ex)[:160]),
                 'wasmCWriteLiteral/' + tname)
        return 0
    bad = concrete_literal_family(it, tname, vt)
    chk.expect(not bad, 'R07.1', tname + ':concrete', '%s constants: %s' % (tname, bad), 'wasmCWriteLiteral/' + tname,
               detail_ok='concrete bit-pattern family (zeros, infinities, quiet/signalling NaNs, subnormals, extremes) keeps every pattern')
    return n


def _check_float_case(chk, it, tname, vt, sb_tu):
    W, E, M, digits = FLOAT_FMT[tname]
    value, paths = literal_paths(it, vt)
    ifield = Sym('member', (value, 'i32' if W == 32 else 'i64'))
    ffield = Sym('member', (value, 'f32' if W == 32 else 'f64'))
    site = 'wasmCWriteLiteral/' + tname
    ok_paths = [p for p in paths if p.ret == 1]
    chk.require(ok_paths, 'wasmCWriteLiteral(%s) has no successful path' % tname)
    masks, consts = set(), set()
    for p in ok_paths:
        for cond, taken, loc in p.decisions:
            for s in pe.sym_walk(cond):
                if s.op == 'member' and s.args[0] == value and s != ifield:
                    chk.fail('R07.1', tname, 'classification of a %s constant reads value.%s instead of the %d-bit '
                             'integer field written by the decoder' % (tname, s.args[1], W), site, loc)
                    return
                if s.op == '&':
                    cs = [a for a in s.args if isinstance(a, int)]
                    if len(cs) != 1:
                        raise AnalysisBroken('unrecognised mask expression %r at %s' % (s, loc))
                    masks.add(cs[0] & ((1 << W) - 1))
                elif s.op in ('==', '!='):
                    for a in s.args:
                        if isinstance(a, int):
                            consts.add(a & ((1 << W) - 1))
                elif s.op in ('cast', 'member', 'unk', '!'):
                    pass
                else:
                    raise AnalysisBroken('unrecognised predicate form %r in wasmCWriteLiteral(%s) at %s - '
                                         'the field abstraction handles only ==/!= of masked bits' % (s, tname, loc))
    full = (1 << W) - 1
    spec_masks = {1 << (W - 1), ((1 << E) - 1) << M, (1 << M) - 1}
    spec_consts = {0, ((1 << E) - 1) << M, 1 << (W - 1)}
    classes = bit_classes(sorted(masks | spec_masks | {full}), W)
    per_class = [class_values(c, consts | spec_consts) for c in classes]
    ncells = 0
    bad = {}
    for combo in itertools.product(*per_class):
        raw = 0
        for v in combo:
            raw |= v
        ncells += 1
        env = {ifield: signed(raw, W)}
        taken_paths = []
        for p in ok_paths:
            try:
                if all(bool(pe.sym_eval(c, env)) == t for c, t, _ in p.decisions):
                    taken_paths.append(p)
            except KeyError as e:
                raise AnalysisBroken('cannot evaluate classification predicate: unbound %r' % (e.args[0],))
        if len(taken_paths) != 1:
            failing = [p for p in paths if p.ret != 1]
            chk.fail('R07.1', tname, 'bit pattern 0x%0*X takes %d successful paths (a path fails or is ambiguous)'
                     % (W // 4, raw, len(taken_paths)), site)
            return
        parts = taken_paths[0].state['sb']['_text'].parts
        kind, payload = classify_output(parts)
        cls, sign = spec_class(raw, W, E, M)
        good = False
        why = ''
        if kind == 'hex':
            fname, (hk, arg) = payload
            try:
                val = pe.sym_eval(arg, env) & full
            except KeyError:
                val = None
            good = (val == raw and fname.startswith('f%d' % W) and hk == ('U32Hex' if W == 32 else 'U64Hex'))
            why = 'hex literal denotes 0x%X via %s/%s' % (val if val is not None else -1, fname, hk)
        elif cls == 'nan':
            why = 'NaN payload not preserved: emitted %r' % (parts,)
        elif kind == 'inf':
            good = cls == 'inf' and payload == bool(sign)
            why = 'emitted %sINFINITY for a %s infinity' % ('-' if payload else '+', 'negative' if sign else 'positive')
        elif kind == 'negzero':
            good = cls == 'negzero'
            why = 'emitted negative-zero literal'
        elif kind == 'dec':
            good = cls == 'finite' and payload[1] == ffield and payload[0] == ('F32' if W == 32 else 'F64')
            why = 'decimal path %r' % (payload,)
        else:
            why = 'unrecognised output %r' % (parts,)
        if not good:
            key = (cls, kind)
            if key not in bad:
                bad[key] = (raw, why, taken_paths[0])
    for (cls, kind), (raw, why, p) in sorted(bad.items()):
        loc = p.decisions[-1][2] if p.decisions else None
        chk.fail('R07.1', '%s:%s' % (tname, cls),
                 '%s constant with bit pattern 0x%0*X is a %s but is rendered as %s (%s); path: %s'
                 % (tname, W // 4, raw, cls, kind, why, p.cond_text()), site + ':' + cls, loc,
                 witness='0x%0*X' % (W // 4, raw))
    if not bad:
        chk.ok('R07.1', tname, '%d abstract cells over %d bit classes, all agree with the IEEE-754 classes'
               % (ncells, len(classes)))
    chk.sample(dict(rule='R07.1', type=tname, masks=['0x%X' % m for m in sorted(masks)],
                    bit_classes=['0x%X' % c for c in classes], cells=ncells,
                    paths=[dict(cond=p.cond_text(), out=p.state['sb']['_text'].render()) for p in ok_paths]))
    return ncells


def sprintf_formats(chk, sb_tu):
    """{function name: (format, arg type, buffer size, node)} for stringBuilderAppend<Num>"""
    out = {}
    for name, f in sb_tu.functions.items():
        if not name.startswith('stringBuilderAppend'):
            continue
        for n in walk(astdb.fn_body(f)):
            if n.get('kind') == 'CallExpr' and astdb.callee_name(n) in ('sprintf', 'snprintf'):
                a = astdb.call_args(n)
                if astdb.callee_name(n) == 'snprintf':
                    a = a[:1] + a[2:]          # (buffer, format, arguments...) like sprintf; the size is honoured by the evaluation
                fmt = astdb.string_value(a[1])
                argt = qtype(astdb.strip(a[2])) if len(a) > 2 else None
                ptype = None
                params = astdb.fn_params(f)
                if len(params) > 1:
                    ptype = qtype(params[1])
                out[name] = dict(fmt=fmt, argtype=argt, paramtype=ptype, node=n, args=a[2:], tu=sb_tu)
    return out


def eval_int_helper(sb_tu, name, bits, convs):
    """partially evaluate stringBuilderAppend<Int> on boundary values with the printf model; the appended text must denote the value
    (hexadecimal for the Hex helpers, signed decimal otherwise).  -> problem text or None"""
    hexa = 'x' in convs.lower()
    top = 1 << (bits - 1)
    vals = sorted({0, 1, 9, 10, 15, 16, 255, 256, 0xABCDEF, 0x0FFFFFFF, 0x10000000, 0x7FFFFFFF, 0x80000000, 0xFFFFFFFF, 0x100000000 % (1 << bits),
                   0x7FF8000000000000 % (1 << bits), 0xFFF4000000ABCDEF % (1 << bits), 0x0000000100000000 % (1 << bits),
                   0x1000000000000000 % (1 << bits), top - 1, top, (1 << bits) - 1})
    if not hexa:
        # decimal structure: powers of ten and their neighbours, zero digits at every position (a formatter that prints in groups of
        # digits must zero-pad the inner groups), in both signs
        dec = set()
        for k in range(1, 20):
            for d in (10 ** k, 10 ** k - 1, 10 ** k + 1, 9 * 10 ** k + 12345678 % 10 ** k, 4 * 10 ** k, 10 ** k + 10 ** (k // 2), 7 * 10 ** k + 7):
                if d < top:
                    dec.add(d)
                    dec.add((-d) % (1 << bits))
        vals = sorted(set(vals) | dec)
    for v in vals:
        got = []

        def sized(interp, args, node):
            b_, k = args[1], args[2]
            if not (isinstance(b_, Ptr) and isinstance(k, int)):
                raise pe.PEError('append of a symbolic buffer')
            got.append(''.join(chr(interp.load(b_.c, b_.k + i) & 0xFF) for i in range(k)))
            return 1

        def plain(interp, args, node):
            s_ = emit._cstr(interp, args[1])
            if not isinstance(s_, str):
                raise pe.PEError('append of a symbolic string')
            got.append(s_)
            return 1
        def one(interp, args, node):
            if not isinstance(args[1], int):
                raise pe.PEError('append of a symbolic character')
            got.append(chr(args[1] & 0xFF))
            return 1
        it = pe.Interp([sb_tu], {'sprintf': emit._sprintf, 'snprintf': emit._snprintf, 'stringBuilderAppendSized': sized,
                                 'stringBuilderAppend': plain, 'stringBuilderAppendChar': one, 'strlen': emit._strlen})
        it.cur_tu = sb_tu
        arg = v if hexa or v < top else v - (1 << bits)
        try:
            ps = [p for p in it.explore(lambda: (name, [unk('builder'), arg], {})) if not p.aborted]
        except pe.PEError as ex:
            raise AnalysisBroken('%s(0x%X): %s' % (name, v, ex))
        if len(ps) != 1 or ps[0].ret != 1:
            return 'has %d paths / returns %r for the value 0x%X' % (len(ps), ps[0].ret if ps else None, v)
        text = ''.join(got)
        try:
            val = int(text, 16) if hexa else int(text, 10)
        except ValueError:
            return 'appends %r for the value 0x%X' % (text, v)
        if (val & ((1 << bits) - 1)) != v or (hexa and val != v):
            return 'appends %r for the value 0x%X: read back as %s it denotes 0x%X - the constant in the generated C is another bit pattern' % (
                text, v, 'hexadecimal' if hexa else 'decimal', val & ((1 << 64) - 1))
    return None


def eval_float_helper(sb_tu, name, W):
    """partially evaluate stringBuilderAppendF32/F64 on boundary finite values with the (correctly rounding) printf model and read the
    decimal text back: it must denote the same value of that format.  -> problem text or None"""
    import struct

    def rnd(x):
        return struct.unpack('<f', struct.pack('<f', x))[0] if W == 32 else x
    if W == 32:
        vals = [1.0, 0.1, 1.0 / 3, 16777217.0, 3.4028234663852886e+38, 1.1754943508222875e-38, 1.401298464324817e-45, 0.30000001192092896,
                8388609.0, 1.00000011920929, 9.99999993922529e-09, 123456.7890625, 2.5, 5e-324]
    else:
        vals = [1.0, 0.1, 1.0 / 3, 9007199254740993.0, 1.7976931348623157e+308, 2.2250738585072014e-308, 5e-324, 0.30000000000000004,
                4503599627370497.0, 1.0000000000000002, 1e23, 123456.789, 2.5, 9.999999999999999e22]
    vals = sorted({rnd(v) for v in vals} | {-rnd(v) for v in vals})
    for v in vals:
        if v == 0:
            continue
        got = []

        def sized(interp, args, node):
            b_, k = args[1], args[2]
            if not (isinstance(b_, Ptr) and isinstance(k, int)):
                raise pe.PEError('append of a symbolic buffer')
            got.append(''.join(chr(interp.load(b_.c, b_.k + i) & 0xFF) for i in range(k)))
            return 1

        def plain(interp, args, node):
            s_ = emit._cstr(interp, args[1])
            if not isinstance(s_, str):
                raise pe.PEError('append of a symbolic string')
            got.append(s_)
            return 1
        it = pe.Interp([sb_tu], {'sprintf': emit._sprintf, 'snprintf': emit._snprintf, 'stringBuilderAppendSized': sized, 'stringBuilderAppend': plain, 'strlen': emit._strlen})
        it.cur_tu = sb_tu
        try:
            ps = [p for p in it.explore(lambda: (name, [unk('builder'), v], {})) if not p.aborted]
        except pe.PEError as ex:
            raise AnalysisBroken('%s(%r): %s' % (name, v, ex))
        if len(ps) != 1 or ps[0].ret != 1:
            return 'has %d paths / returns %r for the value %r' % (len(ps), ps[0].ret if ps else None, v)
        text = ''.join(got)
        try:
            back = rnd(float(text))
        except (ValueError, OverflowError):
            return 'appends %r for the value %r' % (text, v)
        if back != v:
            return 'appends %r for the value %r (%s): as a C constant converted to binary%d it is %r - another bit pattern' % (
                text, v, v.hex(), W, back)
    return None


CONV = re.compile(r'%([-+ #0]*)(\d+)?(?:\.(\d+|\*))?(hh|h|ll|l|q|j|z|t|L)?([diouxXeEfFgGcs])$')


def check_formats(chk, fmts, sb_tu=None):
    want = {
        'stringBuilderAppendI32': ('int', 32, 'di', ''),
        'stringBuilderAppendI64': ('int', 64, 'di', 'll'),
        'stringBuilderAppendU32Hex': ('int', 32, 'xX', ''),
        'stringBuilderAppendU64Hex': ('int', 64, 'xX', 'll'),
        'stringBuilderAppendF32': ('float', 9, 'gGeE', ''),
        'stringBuilderAppendF64': ('float', 17, 'gGeE', ''),
    }
    for name, (cls, n, convs, mod) in want.items():
        if name not in fmts and cls == 'int' and sb_tu is not None and name in sb_tu.functions and astdb.fn_body(sb_tu.functions[name]) is not None:
            # no sprintf of its own (it delegates to another helper, or produces the digits itself): decided on the digits it appends
            bad = eval_int_helper(sb_tu, name, n, convs)
            chk.expect(not bad, 'R07.4', name + ':digits', '%s (no format of its own) %s' % (name, bad), name + ':digits',
                       detail_ok='boundary values are appended as digits that denote the same %d-bit pattern' % n)
            if 'x' in convs.lower():
                chk.expect(True, 'R07.2', name, '', name + ':digits')
            continue
        chk.require(name in fmts, 'anchor %s (with a sprintf) not found in stringbuilder.c' % name)
        e = fmts[name]
        m = CONV.match(e['fmt'] or '')
        loc = astdb.loc_str(e['node'])
        if m is None and cls == 'int':
            # not one conversion (e.g. the value printed in two halves): decide the digits the function really appends, on boundary values
            bad = eval_int_helper(e['tu'], name, n, convs)
            chk.expect(not bad, 'R07.4', name + ':format',
                       '%s (format %r, not a single conversion) %s' % (name, e['fmt'], bad), name + ':sprintf', loc)
            if 'x' in convs.lower():
                chk.expect(True, 'R07.2', name, '', name + ':sprintf')
            continue
        chk.require(m is not None, 'format %r of %s is not a single conversion' % (e['fmt'], name))
        flags, width, prec, lmod, conv = m.groups()
        site = name + ':sprintf'
        if cls == 'int':
            info = astdb.int_type_info(e['paramtype'] or '')
            chk.require(info is not None, '%s parameter type %r is not an integer' % (name, e['paramtype']))
            bits = info[0]
            chk.expect(bits == n, 'R07.4', name + ':param-width',
                       '%s takes a %d-bit parameter, the constant has %d bits' % (name, bits, n), site, loc)
            need = 'll' if bits == 64 else ''
            okmod = (lmod or '') == need or (bits == 64 and (lmod or '') in ('ll', 'q', 'j'))
            chk.expect(okmod and conv in convs, 'R07.4', name + ':format',
                       'format %r does not print a full %d-bit integer (%s conversion, length modifier %r)'
                       % (e['fmt'], bits, conv, lmod), site, loc,
                       detail_ok='format %r prints the full %d-bit value' % (e['fmt'], bits))
            if conv in 'xX':
                chk.expect(True, 'R07.2', name, '', site)
            # whatever the shape of the helper (one format, several, a fast path): the digits it appends for boundary values are read back
            bad = eval_int_helper(e['tu'], name, n, convs)
            chk.expect(not bad, 'R07.4', name + ':digits', '%s %s' % (name, bad), site, loc,
                       detail_ok='boundary values are appended as digits that denote the same %d-bit pattern' % n)
        else:
            if prec == '*':
                # precision passed as an argument: it must be a compile-time constant of the current build configuration
                pv = astdb.const_int(e['args'][0], e.get('tu')) if e.get('args') else None
                chk.require(pv is not None, 'precision argument of %r in %s is not a constant expression' % (e['fmt'], name))
                p = pv
            else:
                p = int(prec) if prec is not None else 6
            try:
                bad = eval_float_helper(e['tu'], name, 32 if n == 9 else 64)
            except AnalysisBroken as ex:
                chk.note('%s: digits not evaluated (%s); decided by the format rule alone' % (name, ex))
                bad = None
            chk.expect(not bad, 'R07.3', name + ':digits', '%s %s' % (name, bad), site, loc,
                       detail_ok='boundary values are appended as decimal text that reads back as the same binary%d value' % (32 if n == 9 else 64))
            chk.expect(conv in convs and p >= n, 'R07.3', name,
                       'format %r gives %d significant digits (%s); round-trip of every finite value needs >= %d '
                       'with a g/e conversion' % (e['fmt'], p, conv, n), site, loc,
                       detail_ok='format %r: %d significant digits >= %d' % (e['fmt'], p, n))


def check_int_cases(chk, it, vts):
    for tname in ('i32', 'i64'):
        W = 32 if tname == 'i32' else 64
        value, paths = literal_paths(it, vts[tname])
        site = 'wasmCWriteLiteral/' + tname
        good = [p for p in paths if p.ret == 1]
        chk.require(len(good) == 1, 'wasmCWriteLiteral(%s): expected one straight-line path, got %d' % (tname, len(good)))
        parts = good[0].state['sb']['_text'].parts
        field = Sym('member', (value, tname))
        num = [p for p in parts if isinstance(p, tuple)]
        text = ''.join('#' if isinstance(p, tuple) else p for p in parts)
        ok = len(num) == 1 and num[0][1] == field and num[0][0] in (('I32', 'U32') if W == 32 else ('I64', 'U64'))
        if W == 32:
            form_ok = re.fullmatch(r'#[uU]', text) is not None
        else:
            form_ok = re.fullmatch(r'W2C2_LL\(#[uU]\)', text) is not None or re.fullmatch(r'#[uU](ll|LL)', text) is not None
        chk.expect(ok, 'R07.4', tname + ':operand',
                   '%s literal is formatted from %r, expected the %d-bit field value.%s' % (tname, num, W, tname), site)
        if not form_ok and ok:
            raise AnalysisBroken('unrecognised %s literal form %r (accepted: <decimal>U / W2C2_LL(<decimal>U))' % (tname, text))
        chk.expect(form_ok, 'R07.4', tname + ':form', 'literal form %r' % text, site,
                   detail_ok='literal form %r: unsigned suffix makes the negated decimal wrap to the same bits' % text)
        chk.sample(dict(rule='R07.4', type=tname, template=text))


def check_decoding(chk, tus, it, vts):
    instr = [t for t in tus if t.path.endswith('instruction.c')][0]
    opc = [t for t in tus if t.path.endswith('opcode.c')][0]
    ctu = [t for t in tus if t.path.endswith('/c.c')][0]
    enum = dict((v, k) for k, v in ctu.enum_decls.get('WasmOpcode', []))
    for enc, (tname, tag, field) in sorted(WASM_CONST.items()):
        chk.require(enc in enum, 'no WasmOpcode enumerator with value 0x%02X (%s.const)' % (enc, tname))
        tok = unk('imm')

        def setup():
            res = {'v': it.uninit('struct WasmConstInstruction', 'result')}
            return ('wasmConstInstructionRead', [unk('buffer'), enc, Ptr(res, 'v')],
                    {'res': res, 'stream': emit.Stream([(tag, tok)])})
        site = 'wasmConstInstructionRead/%s.const' % tname
        try:
            paths = it.explore(setup)
        except emit.ScriptMismatch as e:
            emit.decide_mismatch(chk, 'R07.5', '%s.const:reader' % tname, e, site, '%s.const: ' % tname)
            continue
        good = [p for p in paths if is_sym(p.ret) or p.ret]
        p = paths[0]
        val = p.state['res']['v']['value']
        written = {k: v for k, v in val.items() if not k.startswith('_')}
        chk.expect(p.state['stream'].log == [(tag, tok)] and written.get(field) == tok and len(written) == 1,
                   'R07.5', '%s.const:reader' % tname,
                   '%s.const immediate: consumed %r, stored into %r; expected one %s immediate stored in the '
                   'integer field %s' % (tname, p.state['stream'].log, sorted(written), tag, field), site,
                   detail_ok='%s -> value.%s' % (tag, field))
        # result type of the opcode agrees with the wasm type of the constant
        def setup2():
            return ('wasmOpcodeResultType', [enc], {})
        r = it.explore(setup2)[0].ret
        chk.expect(r == vts[tname], 'R07.6', '%s.const:resultType' % tname,
                   'wasmOpcodeResultType(0x%02X) = %r, expected the %s value type (%d)' % (enc, r, tname, vts[tname]),
                   'wasmOpcodeResultType/0x%02X' % enc)
    # raw float readers copy bytes into an integer, never through a floating type
    for fn, W in (('bufferReadF32', 32), ('bufferReadF64', 64)):
        f = ctu.fn(fn)
        chk.fn(fn)
        site = fn
        ptype = ctu.desugar(qtype(astdb.fn_params(f)[1]))
        info = astdb.int_type_info(ptype.replace('*', '').strip())
        chk.expect(info is not None and info[0] == W, 'R07.5', fn + ':result-type',
                   '%s stores through %r, expected a pointer to a %d-bit integer' % (fn, ptype, W), site, astdb.loc_str(f))
        floaty = [n for n in walk(astdb.fn_body(f)) if qtype(n) in ('float', 'double', 'long double')]
        chk.expect(not floaty, 'R07.5', fn + ':no-float',
                   '%s moves the immediate through a floating type (%s) - NaN payloads may be canonicalised'
                   % (fn, astdb.loc_str(floaty[0]) if floaty else ''), site,
                   astdb.loc_str(floaty[0]) if floaty else None)
        sizes = []
        it2 = pe.Interp(tus, {})
        it2.cur_tu = ctu
        for n in walk(astdb.fn_body(f)):
            if n.get('kind') == 'CallExpr' and astdb.callee_name(n) in ('memcpy', '__builtin_memcpy'):
                a = astdb.call_args(n)[2]
                it2.frame = {}
                try:
                    sizes.append(it2.eval(a))
                except Exception:
                    sizes.append(None)
        chk.expect(sizes == [W // 8], 'R07.5', fn + ':copy-size',
                   '%s copies %r bytes, expected exactly one copy of %d' % (fn, sizes, W // 8), site, astdb.loc_str(f))


def check_positions(chk, tus, it, vts):
    ctu = [t for t in tus if t.path.endswith('/c.c')][0]
    recorded = []

    def lit_leaf(interp, args, node):
        recorded.append((args[1], interp.copy_val(args[2]) if isinstance(args[2], dict) else args[2]))
        emit._sb(interp, args[0]).add(('literal', args[1]))
        return 1
    it.leafs['wasmCWriteLiteral'] = lit_leaf
    try:
        for enc, (tname, tag, field) in sorted(WASM_CONST.items()):
            tok = unk('imm')
            # constant expressions (global initialisers, segment offsets)
            del recorded[:]

            def setup():
                sb = {'string': 0, 'length': 0, 'capacity': 0}
                cell = {'v': sb}
                emit._sb_init(it, [Ptr(cell, 'v')], None)
                mod = {'v': it.zero_init('struct WasmModule')}
                return ('wasmCWriteConstantExpr', [Ptr(cell, 'v'), Ptr(mod, 'v'), {'data': unk('d'), 'length': unk('l')}],
                        {'sb': sb, 'stream': emit.Stream([('byte', enc), (tag, tok)])})
            paths = it.explore(setup)
            good = [p for p in paths if p.ret == 1]
            ok = len(good) == 1 and len(recorded) >= 1 and recorded[-1][0] == vts[tname] and \
                isinstance(recorded[-1][1], dict) and recorded[-1][1].get(field) == tok
            if not ok:
                # not one path through wasmCWriteLiteral (e.g. the constant is printed directly): decided on the boundary bit patterns
                bad = concrete_const_family(it, recorded, enc, tname, tag, field, vts, position='constant-expression')
                chk.expect(not bad, 'R07.6', '%s.const:constant-expression' % tname,
                           'wasmCWriteConstantExpr does not render %s.const through wasmCWriteLiteral(type=%s, the decoded value), and %s'
                           % (tname, tname, bad), 'wasmCWriteConstantExpr/%s.const' % tname)
            else:
                chk.ok('R07.6', '%s.const:constant-expression' % tname)
            # function bodies
            del recorded[:]
            paths = it.explore(dispatch_setup(it, [('byte', enc), (tag, tok), ('byte', 0x0B)], ['i32']))
            good = [p for p in paths if p.ret == 1]
            ok = len(good) == 1 and len(recorded) >= 1 and recorded[-1][0] == vts[tname] and \
                isinstance(recorded[-1][1], dict) and recorded[-1][1].get(field) == tok
            if not ok:
                # not one path through wasmCWriteLiteral for every immediate (e.g. a shortcut for some values): decide the emitted text
                # for each boundary bit pattern instead - literal written by wasmCWriteLiteral with exactly that value, or a spelled
                # constant whose value in the slot type has exactly these bits
                bad = concrete_const_family(it, recorded, enc, tname, tag, field, vts)
                chk.expect(not bad, 'R07.6', '%s.const:function-body' % tname,
                           'the %s.const case of wasmCWriteFunctionCode does not pass every immediate to wasmCWriteLiteral, and %s'
                           % (tname, bad), 'wasmCWriteFunctionCode/%s.const' % tname)
                continue
            chk.expect(ok, 'R07.6', '%s.const:function-body' % tname,
                       'the %s.const case of wasmCWriteFunctionCode does not render the decoded immediate through '
                       'wasmCWriteLiteral: recorded %r' % (tname, recorded), 'wasmCWriteFunctionCode/%s.const' % tname)
            if good:
                chk.sample(dict(rule='R07.6', op='%s.const' % tname, template=good[0].state['sb']['_text'].render()))
    finally:
        del it.leafs['wasmCWriteLiteral']
    # callers of wasmCWriteConstantExpr: globals, data segment offsets, element segment offsets
    want = {'wasmCWriteInitGlobals': 'init', 'wasmCWriteInitMemories': 'offset', 'wasmCWriteInitTables': 'offset'}
    for fn, member in want.items():
        f = ctu.fn(fn)
        chk.fn(fn)
        found = False
        for n in walk(astdb.fn_body(f)):
            if n.get('kind') == 'CallExpr' and astdb.callee_name(n) == 'wasmCWriteConstantExpr':
                arg = astdb.strip(astdb.call_args(n)[2])
                src_members = set()
                if arg.get('kind') == 'DeclRefExpr':
                    vid = arg['referencedDecl']['id']
                    for d in walk(astdb.fn_body(f)):
                        if d.get('kind') == 'VarDecl' and d.get('id') == vid:
                            src_members = {m.get('name') for m in walk(d) if m.get('kind') == 'MemberExpr'}
                else:
                    src_members = {m.get('name') for m in walk(arg) if m.get('kind') == 'MemberExpr'}
                if member in src_members:
                    found = True
        chk.expect(found, 'R07.6', fn + ':uses-constant-expr',
                   '%s does not render its %s expression through wasmCWriteConstantExpr' % (fn, member), fn,
                   astdb.loc_str(f))


def boundary_patterns(tname):
    W = 32 if tname.endswith('32') else 64
    top = 1 << (W - 1)
    pats = [0, 1, top, top - 1, (1 << W) - 1, top | 1]
    if tname[0] == 'f':
        _W, eb, sb_, _d = FLOAT_FMT[tname]
        expmask = ((1 << eb) - 1) << sb_
        pats += [expmask, expmask | top, expmask | 1, expmask | top | 1, expmask | (1 << (sb_ - 1)), expmask | top | (1 << (sb_ - 1)),
                 1 << sb_, (1 << sb_) - 1, expmask - 1, (expmask - 1) | top, ((1 << (eb - 1)) - 1) << sb_]
    return sorted(set(pats))


def c_constant_bits(text, tname):
    """bit pattern that the C constant `text` has after conversion to the slot type of tname, or None if the form is not recognised"""
    import struct
    W = 32 if tname.endswith('32') else 64
    t = text.strip()
    while t.startswith('(') and t.endswith(')'):
        t = t[1:-1].strip()
    m = re.fullmatch(r'W2C2_LL\((.*)\)', t)
    if m:
        t = m.group(1).strip()
    neg = False
    if t.startswith('-'):
        neg, t = True, t[1:].strip()
    mi = re.fullmatch(r'(0[xX][0-9a-fA-F]+|\d+)([uUlL]*)', t)
    if mi:
        v = int(mi.group(1), 0)
        v = -v if neg else v
        if tname[0] == 'i':
            return v & ((1 << W) - 1)
        f = float(v)        # integer constant converted to the floating slot: -0 (integer) is +0.0
        return struct.unpack('<I', struct.pack('<f', f))[0] if W == 32 else struct.unpack('<Q', struct.pack('<d', f))[0]
    mf = re.fullmatch(r'((?:\d+\.\d*|\.\d+|\d+)(?:[eE][-+]?\d+)?)([fFlL]?)', t)
    if mf and tname[0] == 'f':
        f = float(mf.group(1))
        f = -f if neg else f
        try:
            return struct.unpack('<I', struct.pack('<f', f))[0] if W == 32 else struct.unpack('<Q', struct.pack('<d', f))[0]
        except OverflowError:
            return None
    return None


def concrete_const_family(it, recorded, enc, tname, tag, field, vts, position='body'):
    """first boundary bit pattern whose function-body rendering is neither delegated to wasmCWriteLiteral nor a recognisable C
    constant with the same bits; None when all patterns are fine"""
    old = getattr(it, 'union_endian', None)
    it.union_endian = 'little'
    try:
        for bits in boundary_patterns(tname):
            del recorded[:]
            def setup_ce(bits=bits):
                sb = {'string': 0, 'length': 0, 'capacity': 0}
                cell = {'v': sb}
                emit._sb_init(it, [Ptr(cell, 'v')], None)
                mod = {'v': it.zero_init('struct WasmModule')}
                return ('wasmCWriteConstantExpr', [Ptr(cell, 'v'), Ptr(mod, 'v'), {'data': unk('d'), 'length': unk('l')}],
                        {'sb': sb, 'stream': emit.Stream([('byte', enc), (tag, bits)])})
            try:
                paths = it.explore(dispatch_setup(it, [('byte', enc), (tag, bits), ('byte', 0x0B)], ['i32']) if position == 'body' else setup_ce)
            except pe.PEError as e:
                raise AnalysisBroken('%s.const with immediate 0x%X: %s' % (tname, bits, e))
            good = [p for p in paths if p.ret == 1]
            if len(good) != 1:
                raise AnalysisBroken('%s.const with immediate 0x%X: %d successful paths' % (tname, bits, len(good)))
            if recorded:
                v = recorded[-1][1]
                got = v.get(field) if isinstance(v, dict) else None
                if recorded[-1][0] == vts[tname] and isinstance(got, int) and got & ((1 << (32 if tname.endswith('32') else 64)) - 1) == bits:
                    continue
                return 'for the immediate 0x%X wasmCWriteLiteral receives %r' % (bits, recorded[-1])
            text = good[0].state['sb']['_text'].render()
            m = re.search(r'=\s*([^;=]+);', text) if position == 'body' else re.fullmatch(r'\s*(.+?)\s*', text, re.S)
            val = c_constant_bits(m.group(1), tname) if m else None
            if val is None:
                raise AnalysisBroken('%s.const with immediate 0x%X emits %r: constant form not recognised' % (tname, bits, text))
            if val != bits:
                return 'the immediate 0x%X is written as %r, which denotes 0x%X in the %s slot' % (bits, text.strip(), val, tname)
    finally:
        it.union_endian = old
    return None


def dispatch_setup(it, tokens, stack, pretty=0, multiple=0, ignore=0, labels=None, module=None, function=None):
    """setup() for one run of wasmCWriteFunctionCode over a scripted instruction stream"""
    def setup():
        st = {'stream': emit.Stream(tokens)}
        sb = {'string': 0, 'length': 0, 'capacity': 0}
        sbcell = {'v': sb}
        emit._sb_init(it, [Ptr(sbcell, 'v')], None)
        ts = {'v': emit.type_stack(stack)}
        sd = {'v': emit.empty_decls()}
        ls = {'v': emit.label_stack(labels if labels is not None else [(0, 0, None)])}
        mod = {'v': module() if module else it.zero_init('struct WasmModule')}
        code = {'v': {'data': unk('code'), 'length': unk('codelen')}}
        w = {'builder': Ptr(sbcell, 'v'), 'typeStack': Ptr(ts, 'v'), 'stackDeclarations': Ptr(sd, 'v'),
             'labelStack': Ptr(ls, 'v'), 'module': Ptr(mod, 'v'), 'moduleName': 'mod',
             'function': function() if function else it.zero_init('struct WasmFunction'),
             'code': Ptr(code, 'v'), 'codeStart': 0, 'indent': 0, 'ignore': ignore, 'pretty': pretty,
             'debug': 0, 'multipleModules': multiple, 'debugLines': 0}
        wc = {'v': w}
        opc = {'v': 0}
        st.update(sb=sb, ts=ts['v'], sd=sd['v'], ls=ls['v'], w=w, opcode=opc)
        return ('wasmCWriteFunctionCode', [Ptr(wc, 'v'), Ptr(opc, 'v')], st)
    return setup


def run(chk):
    chk.explanation = (
        'Static decision of the clauses of C07 that are visible in the code: the float classification tree of '
        'wasmCWriteLiteral is extracted by partial evaluation with a symbolic WasmValue and compared, by exact '
        'predicate abstraction over the bit fields its masks induce, with the IEEE-754 classes; formats, literal '
        'forms, decoder routing and the three rendering positions are checked on the AST. Not decided: correct '
        'rounding of the host printf and of the C compiler\'s literal parser.')
    chk.assumptions = [
        'host printf("%.9g"/"%.17g") and the C compiler\'s decimal literal parser are correctly rounded',
        'an unsuffixed decimal literal assigned to an F32 slot is double-rounded; with 9 significant digits the '
        'relative error 5e-9 is below half an ulp of binary32 (2.98e-8), so the narrowing is exact',
        'reading the float member of WasmValue after the decoder wrote the same-size integer member yields the same bytes',
    ]
    tus = emit.translator_tus(('c.c', 'opcode.c', 'instruction.c', 'stringbuilder.c'), chk=chk)
    it = emit.make_interp(tus)
    sb_tu = tus[3]
    chk.fn('wasmCWriteLiteral', 'wasmConstInstructionRead', 'wasmCWriteConstantExpr', 'wasmCWriteConstExpr',
           'wasmDecodeValueType', 'wasmOpcodeResultType')
    vts = decode_valuetypes(it)
    cells = 0
    for tname in ('f32', 'f64'):
        cells += check_float_case(chk, it, tname, vts[tname], sb_tu) or 0
    check_int_cases(chk, it, vts)
    check_formats(chk, sprintf_formats(chk, sb_tu), sb_tu)
    check_decoding(chk, tus, it, vts)
    check_positions(chk, tus, it, vts)
    # the integer immediates of i32.const / i64.const are signed LEB128 numbers: the decoders must reproduce every bit
    from . import c08
    c08.check_decoders(chk, tus[2], rule='R07.5', only=('leb128ReadI32', 'leb128ReadI64'))
    chk.extra['abstract_cells'] = cells
    chk.floor('R07.1', 2)
    chk.floor('R07.4', 6)
    chk.floor('R07.5', 8)
    chk.floor('R07.6', 10)
    chk.floor('R07.3', 2)
    chk.exhaustive = True
