"""C04  Direct, indirect, recursive and imported calls reach the right function.

R04.1  argument order and result slot: for arities 0..4 (thorough 0..8), with and without result, parameter j of a
       call is taken from stack depth n-1-j (call_indirect: one deeper, the top is the table index), the result goes
       to the slot that becomes the new top, the instance pointer is the first argument
R04.2  function index spaces: the same module-level function index is spelled as the same C identifier by the call
       emitter, the declaration, the definition, the export wrapper, the element store and the start call; imported
       functions are spelled <module>__<name> (escaped) by the use and the declaration alike; the callee's type is
       looked up through imports first, then functions[index - importCount]
R04.3  call_indirect: TF(<table use>, <index slot>, R (*)(<module>Instance*, P...))(i, args) with P.../R rendered
       from the same function type as the argument list
R04.4  element segments place &<function use of functionIndices[k]> at <table of tableIndex>.data[offset + k]
       (decided in C06 R06.3 for defined and imported tables; here: the identifiers agree with the declarations)
       and the table/element initialiser runs exactly once on the instance being created in Instantiate *and* NewChild
       (shared with C06: a child instance with uninitialised tables cannot serve call_indirect)
R04.8  an imported table / global is bound with resolve("<module>", "<field>") literals that denote exactly the import's names
"""
import re

from .. import astdb, pe, emit, oracle, templates, modules as M
from ..astdb import AnalysisBroken
from ..pe import Ptr, unk
from . import c01, c03, c06

TYPES = ['i32', 'i64', 'f32', 'f64']


def sig(n, result, shift=0):
    return ([TYPES[(j + shift) % 4] for j in range(n)], [TYPES[(n + shift + 1) % 4]] if result else [])


def check_calls(chk, it, tabs, max_arity):
    L, C = tabs['letter'], tabs['ctype']
    for n in range(max_arity + 1):
        for result in (False, True):
            params, results = sig(n, result)
            types = [([], []), (params, results)]
            # module: 1 imported function (type 0), functions: f1 (type 0), f2 (type 1)  -> call 2
            module = lambda interp: M.build(interp, types=types, func_imports=[('env', 'imp', 0)], functions=[0, 1], tables=[(4, 8, False)])
            for h, fill in ((1, ['i64']), (3, ['f64', 'i64', 'i32'])):
                stack = fill + params
                t = c03.one(chk, c03.run_script(it, c03.script(('call', {'imm0': 2})), stack, module=module), 'call arity %d' % n,
                            'R04.2', 'wasmModuleGetFunctionType')
                if t is None:
                    continue
                text = t.text().strip()
                inst = 'call[arity=%d,result=%s,h=%d]' % (n, result, h)
                site = 'wasmCWriteCallExpr'
                args = ', '.join(['i'] + ['s%s%d' % (L[p], h + j) for j, p in enumerate(params)])
                want = ('s%s%d=' % (L[results[0]], h) if result else '') + 'f2(' + args.replace(', ', ',') + ');'
                chk.expect(text.replace(' ', '') == want, 'R04.1', inst,
                           'call of a function (%s)->(%s) with the operands at height %d is emitted as %r; arguments must be the instance and '
                           'then the operands in declaration order (deepest first), the result goes to the slot that becomes the new top: %r'
                           % (','.join(params), ','.join(results), h, text, want), site)
                chk.expect(t.stack_after == fill + results, 'R04.1', inst + ':stack', 'stack after call is %r' % (t.stack_after,), site)
                if result:
                    chk.expect(results[0] in t.decls.get(h, set()), 'R04.1', inst + ':decl', 'result slot not declared: %r' % (t.decls,), site)
                # call_indirect type 1 table 0
                stack = fill + params + ['i32']
                t = c03.one(chk, c03.run_script(it, c03.script(('call_indirect', {'typeidx': 1, 'tableidx': 0})), stack, module=module),
                            'call_indirect arity %d' % n)
                text = t.text().strip()
                inst = 'call_indirect[arity=%d,result=%s,h=%d]' % (n, result, h)
                site = 'wasmCWriteCallIndirectExpr'
                fnty = '%s(*)(modInstance*%s)' % (C[results[0]] if result else 'void', ''.join(',' + C[p] for p in params))
                want = ('s%s%d=' % (L[results[0]], h) if result else '') + 'TF(i->t0,s%s%d,%s)(%s);' % (L['i32'], h + n, fnty, args.replace(', ', ','))
                chk.expect(text.replace(' ', '') == want.replace(' ', ''), 'R04.3', inst,
                           'call_indirect through type (%s)->(%s) is emitted as %r; expected %r (table index from the top slot, operands below it in '
                           'declaration order, function pointer type rendered from the same signature)' % (','.join(params), ','.join(results), text, want), site)
                chk.expect(t.stack_after == fill + results, 'R04.1', inst + ':stack', 'stack after call_indirect is %r' % (t.stack_after,), site)
                if n == 2 and result and h == 1:
                    chk.sample(dict(rule='R04.1', call=want, call_indirect=text))


def check_index_spaces(chk, tus, it, tabs):
    """one module, every emitter that spells a function: identifiers must agree"""
    types = [([], []), (['i32'], ['i32']), (['i64', 'f32'], [])]
    fimp = [('env', 'imp0', 0), ('wasi_snapshot_preview1', 'fd_write', 1)]
    funcs = [0, 1, 2]                     # module-level indices 2, 3, 4
    build = lambda interp: M.build(interp, types=types, func_imports=fimp, functions=funcs, tables=[(8, 8, False)],
                                   element_segments=[(0, M.i32_const(1), [4, 1, 2])],
                                   exports=[('third', c06.KIND_FUNC, 4), ('writer', c06.KIND_FUNC, 1)], start=2)
    it2 = c06.make(tus)
    mk = lambda: build(it2)
    site = 'function-identifiers'
    # uses by the call emitter, type looked up by module index
    expect_use = {0: 'env__imp0', 1: 'wasi_snapshot_preview1__fd_write', 2: 'f2', 3: 'f3', 4: 'f4'}
    arity = {0: 0, 1: 1, 2: 0, 3: 1, 4: 2}
    ptypes = {0: [], 1: ['i32'], 2: [], 3: ['i32'], 4: ['i64', 'f32']}
    for idx in range(5):
        t = c03.one(chk, c03.run_script(it, c03.script(('call', {'imm0': idx})), ['i64'] + ptypes[idx], module=build), 'call %d' % idx,
                    'R04.2', 'wasmModuleGetFunctionType')
        if t is None:
            continue
        text = t.text().replace(' ', '')
        m = re.match(r'(?:s\w\d+=)?(\w+)\(i((?:,s\w\d+)*)\);', text)
        got_args = m.group(2).count(',') if m else -1
        chk.expect(m is not None and m.group(1) == expect_use[idx] and got_args == arity[idx], 'R04.2', 'call-use[%d]' % idx,
                   'call %d (imports: 2, functions: 3) is emitted as %r; expected callee %s with %d operands (type found through imports first, '
                   'then functions[index - 2])' % (idx, t.text().strip(), expect_use[idx], arity[idx]), site + ':call')
    # out-of-range function index is a translation error
    bad = c03.run_script(it, c03.script(('call', {'imm0': 5})), ['i64'], module=build)
    chk.expect(all(not t.ok for t in bad), 'R04.2', 'call-index-checked', 'call 5 with 5 functions is translated', 'wasmModuleGetFunctionType')
    # declarations of imports and functions
    decl = c06.emit_text(it2, 'wasmCWriteModuleDeclarations', lambda out: [out, Ptr({'v': mk()}, 'v'), 'mod', 0, 0, 0])
    protos = re.findall(r'(?m)^(\w+)\s+(\w+)\(([^)]*)\);', decl)
    names = [p[1] for p in protos]
    want_names = ['env__imp0', 'wasi_snapshot_preview1__fd_write', 'f2', 'f3', 'f4', 'mod_third', 'mod_writer']
    chk.expect(names == want_names, 'R04.2', 'declarations', 'declared functions are %r; the call emitter uses %r' % (names, want_names), site + ':declarations')
    want_sigs = {'f3': ('U32', 'modInstance*,U32'), 'f4': ('void', 'modInstance*,U64,F32'), 'env__imp0': ('void', 'void*'),
                 'wasi_snapshot_preview1__fd_write': ('U32', 'void*,U32')}
    for r, nme, ps in protos:
        if nme in want_sigs:
            chk.expect((r, ps.replace(' ', '')) == want_sigs[nme], 'R04.2', 'prototype:' + nme,
                       '%s is declared as %s(%s), expected %s(%s)' % (nme, r, ps, want_sigs[nme][0], want_sigs[nme][1]), site + ':prototype')
    # definitions: same names, parameters l0.. in order
    ids = {'length': 3, 'capacity': 3, 'functionIDs': Ptr([{'hash': [0] * 20, 'functionIndex': k} for k in range(3)], 0)}

    def mkimpl(out):
        m = mk()
        for f in m['functions']['functions'].c:
            f['code'] = {'data': unk('code'), 'length': unk('len')}
        return [out, Ptr({'v': m}, 'v'), 'mod', 0, 0, 3, ids, 0, 0, 0]
    it3 = c06.make(tus)

    def setup():
        out = pe.Text('impl')
        return ('wasmCWriteFunctionImplementations', mkimpl(out), {'out': out, 'stream': emit.Stream([])})
    paths = [p for p in it3.explore(setup) if p.ret == 1]
    chk.require(len(paths) == 1, 'wasmCWriteFunctionImplementations: %d successful paths' % len(paths))
    impl = paths[0].state['out'].render()
    defs = re.findall(r'(?m)^(\w+)\s+(\w+)\(([^)]*)\)\s*\{', impl)
    chk.expect([d[1] for d in defs] == ['f2', 'f3', 'f4'], 'R04.2', 'definitions',
               'function definitions are named %r; declarations and calls use f2, f3, f4 (module-level index = import count + position)'
               % ([d[1] for d in defs],), site + ':definitions')
    want_params = {'f3': 'modInstance*i,U32 l0', 'f4': 'modInstance*i,U64 l0,F32 l1'}
    for r, nme, ps in defs:
        if nme in want_params:
            chk.expect(ps.replace(', ', ',').replace('* ', '*') == want_params[nme], 'R04.2', 'definition-params:' + nme,
                       '%s is defined with parameters (%s), expected (%s)' % (nme, ps, want_params[nme]), site + ':definitions')
    # exports, element stores, start call
    inits = c06.inits_text(it2, mk)
    fns = c06.split_functions(inits)
    chk.expect(re.search(r'f4\(i,\s*l0,\s*l1\)', fns.get('mod_third', '')) is not None and
               re.search(r'return\s+wasi_snapshot_preview1__fd_write\(i,\s*l0\)', fns.get('mod_writer', '')) is not None,
               'R04.2', 'export-wrappers', 'export wrappers forward to %r / %r' % (fns.get('mod_third'), fns.get('mod_writer')), site + ':exports')
    stores = [(k, f) for _, k, f in c06.element_stores(fns.get('modInitTables', ''))]
    chk.expect(stores == [(1, 'f4'), (2, 'wasi_snapshot_preview1__fd_write'), (3, 'f2')], 'R04.4', 'element-identifiers',
               'element segment [4,1,2] at offset 1 stores (entry, function) = %r' % (stores,), site + ':elements')
    chk.expect(re.search(r'\bf2\(i\);', fns.get('modInstantiate', '')) is not None, 'R04.2', 'start-identifier',
               'start function 2 is called as %r' % fns.get('modInstantiate', '')[-60:], site + ':start')
    # the element stores must actually run at instantiation, for a defined and for an imported table
    for table, pretty in (('defined', 0), ('imported', 0), ('defined', 1), ('imported', 1)):
        fns_t = c06.split_functions(c06.inits_text(it2, c06.shape(it2, mem='none', table=table, nglobals=0, gimports=0, data=(), elems=1, start=False),
                                                   pretty=pretty))
        tgt = c06.element_stores(fns_t.get('modInitTables', ''))
        n_stores = len(tgt)
        called = re.search(r'\bmodInitTables\s*\(', fns_t.get('modInstantiate', '')) is not None
        want_t = '(*i->env__table)' if table == 'imported' else 'i->t0'
        chk.expect(tgt == [(want_t, 2, 'f1'), (want_t, 3, 'env__imp0'), (want_t, 4, 'f3')], 'R04.4',
                   'element-target:%s%s' % (table, ',pretty' if pretty else ''),
                   'element segment [1,0,3] at offset 2 of table 0 (%s) is stored as (table, entry, function) = %r; expected entries 2..4 of %s '
                   'holding f1, env__imp0, f3' % (table, tgt, want_t), 'wasmCWriteInitTables:element-target')
        chk.expect(n_stores == 3 and called, 'R04.4', 'element-stores-run:%s%s' % (table, ',pretty' if pretty else ''),
                   'module with a %s table and one element segment of 3 functions: InitTables contains %d stores and Instantiate %s it - '
                   'call_indirect through an initialised entry would reach whatever the table held before'
                   % (table, n_stores, 'calls' if called else 'does NOT call'), 'wasmCWriteInstantiateFunction:init-tables')
    # one imported and one defined table, a segment for each: table indices count imports first
    mk2 = lambda: M.build(it2, types=[([], [])], func_imports=[('env', 'imp0', 0)], functions=[0, 0], tables=[(4, 8, False)],
                          table_imports=[('env', 'table', 4, 8, False)],
                          element_segments=[(0, M.i32_const(1), [1]), (1, M.i32_const(2), [2, 0])])
    body2 = c06.split_functions(c06.inits_text(it2, mk2)).get('modInitTables', '')
    tgt2 = c06.element_stores(body2)
    chk.expect(tgt2 == [('(*i->env__table)', 1, 'f1'), ('i->t1', 2, 'f2'), ('i->t1', 3, 'env__imp0')], 'R04.4', 'element-target:mixed',
               'with an imported table 0 and a defined table 1, segments (table 0 at 1: [f1]) and (table 1 at 2: [f2, imp0]) are stored as '
               '(table, entry, function) = %r' % (tgt2,),
               'wasmCWriteInitTables:element-target')
    # constant and global offsets mixed, in both orders: every segment starts from its own offset, whatever the one before it was
    mk3 = lambda: M.build(it2, types=[([], [])], func_imports=[('env', 'imp0', 0)], functions=[0, 0], tables=[(8, 8, False)],
                          global_imports=[('env', 'base', 'i32', False)],
                          element_segments=[(0, M.i32_const(2), [1]), (0, M.global_get(0), [0, 2]), (0, M.i32_const(1), [1]),
                                            (0, M.global_get(0), [2])])
    for pretty in (0, 1):
        body3 = c06.split_functions(c06.inits_text(it2, mk3, pretty=pretty)).get('modInitTables', '')
        tgt3 = [(t, (re.sub(r'[\s()]', '', re.sub(r'\(\s*(?:U32|unsigned int)\s*\)', '', k[0])), k[1]) if isinstance(k, tuple) else k, f)
                for t, k, f in c06.element_stores(body3)]      # a cast of the i32 global to the U32 offset variable changes nothing
        g = '*i->env__base'
        want3 = [('i->t0', 2, 'f1'), ('i->t0', (g, 0), 'env__imp0'), ('i->t0', (g, 1), 'f2'), ('i->t0', 1, 'f1'), ('i->t0', (g, 0), 'f2')]
        chk.expect(tgt3 == want3, 'R04.4', 'element-target:mixed-offsets%s' % (',pretty' if pretty else ''),
                   'segments at (i32.const 2: [f1]), (global.get base: [imp0, f2]), (i32.const 1: [f1]), (global.get base: [f2]) are stored as '
                   '(table, entry, function) = %r; expected %r - an entry is the segment\'s own offset plus the position in the segment'
                   % (tgt3, want3), 'wasmCWriteInitTables:element-target')
    # the import spelling must be the symbol the WASI host library actually defines
    from .. import wasi as W
    wtu = W.wasi_tu()
    chk.unit(wtu)
    for modname, fname, sym in (('wasi_snapshot_preview1', 'fd_write', 'wasi_snapshot_preview1__fd_write'),
                                ('wasi_unstable', 'path_open', 'wasi_unstable__path_open'), ('wasi', 'thread-spawn', 'wasi__threadX2Dspawn')):
        b2 = lambda interp: M.build(interp, types=[([], [])], func_imports=[(modname, fname, 0)], functions=[0])
        t = c03.one(chk, c03.run_script(it, c03.script(('call', {'imm0': 0})), ['i64'], module=b2), 'call import', 'R04.2', 'wasmModuleGetFunctionType')
        if t is None:
            continue
        m = re.match(r'(\w+)\(i\);', t.text().strip())
        chk.expect(m is not None and m.group(1) == sym and sym in wtu.functions, 'R04.2', 'host-symbol:' + fname,
                   'import ("%s","%s") is called as %r; the host library defines %s: the generated code would not link against it / call another function'
                   % (modname, fname, t.text().strip(), sym if sym in wtu.functions else 'no such symbol'), site + ':host-symbols')
    # prefixing (multiple modules): use, declaration and definition get the same prefix
    t = c03.one(chk, [x for x in (templates.Template(oracle.BY_NAME['nop'], p, 0, 1, ['i64', 'i32']) for p in it.explore(
        templates.dispatch_setup(it, c03.script(('call', {'imm0': 3})), ['i64', 'i32'], 0, 1, 0, None, build, None)))], 'call prefixed',
                'R04.2', 'wasmModuleGetFunctionType')
    if t is None:
        return
    decl_m = c06.emit_text(it2, 'wasmCWriteModuleDeclarations', lambda out: [out, Ptr({'v': mk()}, 'v'), 'mod', 0, 0, 1])
    chk.expect('mod_f3(' in t.text() and re.search(r'(?m)^U32 mod_f3\(', decl_m) is not None and re.search(r'(?m)^void mod_env__imp0\(', decl_m) is not None,
               'R04.2', 'prefix-agreement', 'with symbol prefixing the call is %r but the declarations are %r' % (t.text().strip(), re.findall(r'(?m)^\w+ (\w+)\(', decl_m)),
               site + ':prefix')


def check_import_designation(chk, tus, rule='R04.8'):
    """R04.8: call_indirect reaches the function the module designates only if an imported table - and an imported global giving an
    element segment its offset - is bound to the import the module names: the resolve("<module>", "<field>") call emitted for it
    denotes, read as C string literals, exactly the two names of the import, for names whose bytes need escaping directly followed by
    characters that could continue the escape (an octal digit after '?' or a control byte, a hex digit after a byte >= 0x80).
    Decided by evaluating the translator's literal writer on concrete names and parsing the result with the C literal grammar
    (machinery shared with C11 R11.7)."""
    from . import c06, c11
    from .. import modules as M
    import re
    it = c06.make(tus)
    for name in c11.NASTY + ['tbl?1', '\x02' + '7', 'a?' + '0b', '\x1f' + '00']:
        mk = lambda: M.build(it, types=[([], [])], func_imports=[], functions=[0], table_imports=[('t' + name, name, 2, 4, False)],
                             global_imports=[(name, 'g' + name, 'i32', False)], exports=[('f', c06.KIND_FUNC, 0)])
        text = c06.inits_text(it, mk, raw=True)
        label = repr(name)
        found = 0
        for m in re.finditer(r'(?s)=\s*\([^()]*\)\s*resolve\((.*?)\);\n', text):
            inner = m.group(1)
            if inner.startswith('const char'):
                continue
            found += 1
            parsed = c11._split_two_literals(inner)
            want = [('t' + name, name), (name, 'g' + name)]
            ok = parsed is not None and (parsed[0].decode('latin-1'), parsed[1].decode('latin-1')) in want
            chk.expect(ok, rule, 'import-designation[%s]#%d' % (label, found),
                       'the imported table / global named %s is bound with resolve(%s), which does not denote the module and field name of '
                       'the import: the instance is wired to a different (or no) host object, so element segments and call_indirect do not '
                       'reach the designated function' % (label, inner[:80]), 'wasmCWriteFileStringLiteral:import-designation')
        chk.require(found == 2, 'expected 2 resolve(...) calls for the table and global import named %s, found %d' % (label, found))


def run(chk):
    chk.explanation = (
        'The call emitters are partially evaluated for every arity 0..N with and without result at two stack heights and the emitted '
        'statement is compared token-exactly with the expected call (slot indices are affine in height and position, so agreement on the '
        'grid determines the general form). Function index spaces are decided by running every emitter that spells a function identifier '
        '(call, declaration, definition, export wrapper, element store, start call, with and without symbol prefixing) on one module with '
        'imports and checking that they agree, including the type lookup through imports first. Runtime table bounds/signature checks are '
        'outside the property (it restricts itself to initialised, correctly typed entries).')
    chk.assumptions = ['C ABI of the host compiler; TF macro = cast of the table entry to the given function pointer type']
    tus = emit.translator_tus(('c.c', 'opcode.c', 'instruction.c'), chk=chk)
    it = emit.make_interp(tus, symbolic_names=False)
    vts = c01.value_types(it)
    tabs = c01.read_type_tables(chk, tus[0], it, vts, 'R04.1')
    check_calls(chk, it, tabs, 4 if chk.tier == 'quick' else 8)
    check_index_spaces(chk, tus, it, tabs)
    # identifiers are spelled by two families of emitters (FILE* for declarations/tables/exports, string builder for call sites):
    # they must agree for every name, otherwise a call reaches another (or no) C function
    from . import c09
    c09.check_twins(chk, tus, rule='R04.2')
    # tables of every instance - including child instances made by NewChild - are filled before call_indirect can use them
    from . import c06
    c06.check_table_receivers(chk, tus, 'R04.4')
    chk.floor('R04.4', 12)
    # R04.5: the function index space of the binary - imports first, one slot per import entry (the same host function imported twice
    # occupies two slots), then the defined functions: the import-section reader keeps every entry (grammar rule shared with C08 R08.8)
    from . import c08
    rtu = astdb.dump_ast(astdb.src('w2c2/reader.c'))
    chk.unit(rtu)
    c08.check_section_grammar(chk, rtu, rule='R04.5', only=('wasmReadImportSection', 'wasmReadImportSection#2', 'wasmReadFunctionSection'))
    chk.floor('R04.5', 6)
    # R04.6: a call in unreachable code is still a call instruction of the binary: it emits nothing, but its immediates (function index;
    # type and table index) are consumed, so that the instructions after it - live calls after the enclosing block ends - are decoded at
    # the right place.  Decided on bytes (sa/bytedecode.py): call / call_indirect translated from a concrete code buffer with the real
    # decoders in live and dead code, minimal and padded LEB128; in dead code the index bytes are 0x0B, which read as an opcode end the
    # function early
    from .. import bytedecode
    det = []
    bad, ncmp, nok = bytedecode.differential(chk.tier, only=('call', 'call_indirect'), details=det)
    chk.require(len(det) == 4, 'byte-level run of call / call_indirect: %d encodings' % len(det))
    for name, dead, raw, o_min, o_pad in det:
        for enc, o in (('minimal', o_min), ('padded', o_pad)):
            okc = o[0] == 1 and 'bytes left unread: 0' in o and (not dead or o[1] == '')
            chk.expect(okc, 'R04.6', 'call-bytes:%s:%s:%s' % (name, 'dead' if dead else 'live', enc),
                       '%s in %s code (%s encoding; minimal bytes %s followed by i32.const 77, end): result %r - expected the whole body '
                       'translated (result 1, no byte left unread%s); the instruction\'s immediates were not consumed as immediates, so the '
                       'following instructions - live calls after the block - are decoded from the wrong position'
                       % (name, 'unreachable' if dead else 'reachable', enc, ' '.join('%02x' % b_ for b_ in raw), o,
                          ', nothing emitted' if dead else ''), 'wasmCWriteFunctionCode:call-in-dead-code')
    for b_ in bad[:4]:
        chk.fail('R04.6', 'call-bytes-differ:' + b_.split(':')[0], b_, 'wasmCWriteFunctionCode:call-in-dead-code')
    chk.floor('R04.6', 8)
    # R04.7: "every call delivers its result to the caller's operand stack": the callee returns the slot its own stack discipline put the
    # result in - each function is translated with an empty operand stack, whatever the function written before it to the same file left
    # behind (a void function may end with operands still on the stack); rule shared with C03 R03.2 / C09 R09.10
    c03.check_function_sequence(chk, rule='R04.7')
    chk.floor('R04.7', 20)
    check_import_designation(chk, tus)
    chk.floor('R04.8', 30)
    chk.floor('R04.1', 40)
    chk.floor('R04.2', 12)
    chk.floor('R04.3', 20)
