"""C13  WASI descriptors: unique while open, invalid after close, host memory stays safe.

R13.1  append-only identity: the table length only grows by ++ in the insertion helper; insertion returns the new
       last index and leaves existing slots untouched; only the documented helpers store into slots; the first
       three insertions of wasiInit are the host's stdin/stdout/stderr numbers
R13.2  close establishes a closed state: every value handed to close/closedir/free is, on the success exit,
       overwritten *in the table* by a dead constant - the resulting record is the state CLOSED
R13.3  closed descriptors are inert: every descriptor-taking entry point (both ABI generations), partially
       evaluated with the lookup yielding CLOSED (and, separately, an index never issued), performs no native
       call and no string/free operation on a descriptor field and returns EBADF on every path
R13.6  call sequences: every insert/close sequence of up to 4 (thorough 5) steps on a concrete table keeps each descriptor number
       unambiguous (fresh on insertion, unchanged while live, not found after close)
R13.7  who may release: close/closedir/free of a descriptor's native descriptor, stream or path happen only in the table's close operation
R13.8  native-number independence: a live descriptor with native number 0 (standard input) or 2 is served exactly like one with native
       number 10 by every file-like import
R13.4  single access path: only the table helpers touch wasi.fds
R13.5  prestat: both calls report the stored path of a slot whose path is non-NULL and EBADF otherwise
"""
import re
from .. import astdb, pe, wasi as W, runtime
from ..astdb import kids, walk, AnalysisBroken
from ..pe import Sym, Ptr, unk, is_sym

BADF = 8
NOSYS = 52
TABLE_HELPERS = {'wasiFileDescriptorsEnsureCapacity', 'wasiFileDescriptorsAdd', 'wasiFileDescriptorAdd',
                 'wasiFileDescriptorSet', 'wasiFileDescriptorGet', 'wasiDirectorySet', 'wasiFileDescriptorClose'}

# descriptor parameter positions (after `instance`) of the imports that take descriptors - WASI preview1 witx
DESCRIPTOR_PARAMS = {
    'fd_write': [0], 'fd_pwrite': [0], 'fd_read': [0], 'fd_pread': [0], 'fd_seek': [0], 'fd_tell': [0],
    'fd_readdir': [0], 'fd_close': [0], 'fd_fdstat_get': [0], 'fd_datasync': [0], 'fd_sync': [0],
    'fd_prestat_get': [0], 'fd_prestat_dir_name': [0], 'fd_filestat_get': [0],
    'path_open': [0], 'path_filestat_get': [0], 'path_rename': [0, 3], 'path_unlink_file': [0],
    'path_remove_directory': [0], 'path_create_directory': [0], 'path_symlink': [2], 'path_readlink': [0],
    # unimplemented upstream (bodies return ENOSYS without looking at the descriptor): listed, not decided
    'fd_filestat_set_size': [0], 'fd_filestat_set_times': [], 'path_filestat_set_times': [0], 'fd_fdstat_set_flags': [0],
    'fd_allocate': [], 'fd_advise': [], 'sock_accept': [0], 'sock_recv': [0], 'sock_send': [0], 'sock_shutdown': [0],
    'path_link': [0, 3], 'fd_renumber': [0, 1],
}


def std_table(n_extra=0):
    t = [W.descriptor(0), W.descriptor(1), W.descriptor(2), W.descriptor(-1, 0, '/preopen')]
    for k in range(n_extra):
        t.append(W.descriptor(10 + k, 0, '/preopen/f%d' % k))
    return t


def check_append_only(chk, tu):
    # who writes the length, who stores into slots, who touches wasi.fds at all
    len_writers = {}
    slot_writers = set()
    fds_users = set()
    for name, f in tu.functions.items():
        if not (astdb.file_of(f) or '').endswith('wasi.c'):
            continue
        for n in walk(astdb.fn_body(f)):
            k = n.get('kind')
            if k == 'MemberExpr' and n.get('name') == 'fds' and 'WASI' in tu.desugar(astdb.qtype(kids(n)[0])).replace('WasiFileDescriptors', ''):
                fds_users.add(name)
            tgt = None
            how = None
            if k == 'UnaryOperator' and n.get('opcode') in ('++', '--'):
                tgt, how = astdb.strip(kids(n)[0]), n.get('opcode')
            elif k in ('BinaryOperator', 'CompoundAssignOperator') and n.get('opcode', '').endswith('=') \
                    and n.get('opcode') not in ('==', '!=', '<=', '>='):
                tgt, how = astdb.strip(kids(n)[0]), n.get('opcode')
                if how == '+=' and astdb.const_int(kids(n)[1], tu) == 1:
                    how = '++'       # += 1 is the same single-step growth
            if tgt is None:
                continue
            if tgt.get('kind') == 'MemberExpr' and tgt.get('name') == 'length' and \
                    'WasiFileDescriptors' in tu.desugar(astdb.qtype(kids(tgt)[0])):
                len_writers.setdefault(name, []).append((how, astdb.loc_str(n)))
            # store into a slot: fds[...] or fds[...].field
            base = tgt
            while base.get('kind') == 'MemberExpr':
                base = astdb.strip(kids(base)[0])
            if base.get('kind') == 'ArraySubscriptExpr':
                arr = astdb.strip(kids(base)[0])
                if arr.get('kind') == 'MemberExpr' and arr.get('name') == 'fds' and \
                        'WasiFileDescriptor' in tu.desugar(astdb.qtype(arr)):
                    slot_writers.add(name)
    # table helpers are recognised structurally: functions that do not take the calling instance (import implementations always
    # receive `void* instance` first); names are not frozen, so extracting or renaming a helper is not an alarm
    def takes_instance(name):
        ps = astdb.fn_params(tu.functions[name])
        return bool(ps) and ps[0].get('name') == 'instance'
    ok = len(len_writers) == 1 and all(h == '++' for hs in len_writers.values() for h, _ in hs) and not any(takes_instance(n_) for n_ in len_writers)
    chk.expect(ok, 'R13.1', 'length-only-grows',
               'the descriptor table length is modified by %r; descriptor numbers stay unique only if it is changed solely by ++ '
               'in one insertion helper' % ({k: v for k, v in len_writers.items()},), 'wasi.fds.length')
    bad_writers = sorted(n_ for n_ in slot_writers if takes_instance(n_))
    chk.expect(not bad_writers, 'R13.1', 'slot-writers',
               'import implementations store into descriptor slots directly: %r' % bad_writers, 'wasi.fds.fds[]')
    bad_users = sorted(n_ for n_ in fds_users if takes_instance(n_))
    chk.expect(not bad_users, 'R13.4', 'single-access-path',
               'wasi.fds is accessed directly by the import implementation(s) %r instead of through the lookup helper' % bad_users, 'wasi.fds')
    chk.require(len(fds_users) >= 2, 'only %d functions use wasi.fds - anchor drifted' % len(fds_users))
    # setters are called only from close / readdir
    callers = {}
    for name, f in tu.functions.items():
        for n in walk(astdb.fn_body(f)):
            if n.get('kind') == 'CallExpr' and astdb.callee_name(n) in ('wasiFileDescriptorSet', 'wasiDirectorySet'):
                callers.setdefault(astdb.callee_name(n), set()).add(name)
    chk.expect(callers.get('wasiFileDescriptorSet', set()) <= {'wasiFileDescriptorClose'}, 'R13.1', 'fd-setter-callers',
               'wasiFileDescriptorSet (overwrites the native descriptor of an existing slot) is called by %r'
               % sorted(callers.get('wasiFileDescriptorSet', set())), 'wasiFileDescriptorSet:callers')
    chk.expect(callers.get('wasiDirectorySet', set()) <= {'wasiFileDescriptorClose', 'wasiFDReaddir'}, 'R13.1', 'dir-setter-callers',
               'wasiDirectorySet is called by %r' % sorted(callers.get('wasiDirectorySet', set())), 'wasiDirectorySet:callers')


def check_insertion(chk, tu):
    # wasiFileDescriptorAdd returns a number that was not live before (a new last index, or the index of a closed slot it reuses), that
    # slot now holds the new descriptor, and every descriptor that was live before is untouched - also when the table contains closed
    # slots (in the middle, at the end, several)
    CLOSED = dict(fd=-1, dir=0, path=0)
    shapes = [(0, ()), (2, ()), (2, (4,)), (2, (5,)), (3, (4, 6))] if chk.tier == 'quick' else \
        [(0, ()), (1, ()), (2, ()), (3, ()), (5, ()), (8, ()), (2, (4,)), (2, (5,)), (3, (4, 6)), (3, (5,)), (4, (4, 5, 6, 7)), (2, (0,)), (3, (1, 5))]
    for n_extra, closed in shapes:
        res = {'v': unk('out')}

        def table(n_extra=n_extra, closed=closed):
            t = std_table(n_extra)
            for k in closed:
                t[k] = dict(CLOSED)
            return t
        before = table()

        def mk(it, state):
            return [77, '/preopen/new', Ptr(res, 'v')]
        paths = W.explore_entry(tu, 'wasiFileDescriptorAdd', mk, table)
        good = [p for p in paths if p.ret == 1]
        chk.require(good, 'wasiFileDescriptorAdd has no success path')
        tag = 'n=%d' % len(before) + (',closed=%s' % '+'.join(map(str, closed)) if closed else '')
        for p in good:
            t = p.state['table']
            n = len(before)
            d = res['v']
            length = p.state['wasi']['fds']['length']
            live_before = [i for i in range(n) if i not in closed]
            ok = isinstance(d, int) and isinstance(length, int) and 0 <= d < length and d < len(t) and d not in live_before and t[d]['fd'] == 77 and \
                all(t[i]['fd'] == before[i]['fd'] and t[i]['path'] == before[i]['path'] and t[i]['dir'] == before[i]['dir'] for i in live_before)
            chk.expect(ok, 'R13.1', 'insertion-returns-fresh-number[%s]' % tag,
                       'inserting into a table of %d slots (closed: %s) returned descriptor %r and produced table %r (length %r) - the returned number '
                       'must denote the slot that now holds the new descriptor and must not be a number that was live before: an existing live '
                       'descriptor would be aliased' % (n, list(closed) or 'none', d, [(x['fd'], x['path']) for x in t], length), 'wasiFileDescriptorAdd')
            chk.expect(isinstance(length, int) and n <= length <= n + 1, 'R13.1', 'insertion-length[%s]' % tag,
                       'table length after insertion is %r (was %d)' % (length, n), 'wasiFileDescriptorAdd')
    # wasiInit
    paths = W.explore_entry(tu, 'wasiInit', lambda it, st: [0, Ptr([0], 0), Ptr([0], 0)], lambda: [])
    good = [p for p in paths if p.ret == 1]
    chk.require(good, 'wasiInit has no success path')
    macros = W.host_macros(('STDIN_FILENO', 'STDOUT_FILENO', 'STDERR_FILENO'))
    want = [macros.get('STDIN_FILENO', 0), macros.get('STDOUT_FILENO', 1), macros.get('STDERR_FILENO', 2)]
    for p in good:
        t = p.state['table']
        got = [d['fd'] for d in t[:3]]
        chk.expect(got == want and all(d['path'] == 0 for d in t[:3]), 'R13.1', 'stdio-first',
                   'after wasiInit descriptors 0-2 hold native descriptors %r (paths %r), expected the standard streams %r'
                   % (got, [d['path'] for d in t[:3]], want), 'wasiInit')


def check_who_releases(chk, tu):
    """R13.7: the resources of a live descriptor (native descriptor, directory stream, path string) are released by the table's close
    operation only - the one function for which R13.2 shows that the slot is left in the closed state on every exit.  Any other
    function that hands a descriptor field to close/closedir/free leaves (on some exit) a live table entry that still holds the
    released resource: later calls on that number use or release it again.  A helper that is called only from the close operation
    counts as part of it"""
    callers = {}
    releases = {}
    for name, f in tu.functions.items():
        body = astdb.fn_body(f)
        if body is None or not (astdb.file_of(f) or '').endswith('wasi.c'):
            continue
        for c in walk(body):
            if c.get('kind') != 'CallExpr':
                continue
            cn = astdb.callee_name(c)
            if cn:
                callers.setdefault(cn, set()).add(name)
            if cn in ('close', 'closedir', 'free', 'fclose') and astdb.call_args(c):
                arg = astdb.call_args(c)[0]
                fld = [x for x in walk(arg) if x.get('kind') == 'MemberExpr' and x.get('name') in ('fd', 'dir', 'path') and
                       'WasiFileDescriptor' in tu.desugar(astdb.qtype(kids(x)[0])).replace('WasiFileDescriptors', '')]
                if fld:
                    releases.setdefault(name, []).append((cn, astdb.expr_text(arg), astdb.loc_str(c)))
    chk.require('wasiFileDescriptorClose' in releases, 'anchor: wasiFileDescriptorClose releases no descriptor resource')

    def only_from_close(fn, seen=()):
        if fn == 'wasiFileDescriptorClose':
            return True
        cs = callers.get(fn, set())
        return bool(cs) and fn not in seen and all(only_from_close(c_, seen + (fn,)) for c_ in cs)
    for fn, rel in sorted(releases.items()):
        if not only_from_close(fn) and any(astdb.callee_name(c) == 'readdir' for c in walk(astdb.fn_body(tu.functions[fn]))) and \
                all(r[0] == 'closedir' for r in rel):
            # the directory-listing import handles the stream itself: decided on its path summaries (open stream, start cookie and
            # continuation cookie) - on every exit, success or error, a stream that was handed to closedir is no longer in the table
            from .c14 import readdir_paths
            DIRTOK = unk('open-dir-stream')
            bad = None
            for cookie in (0, unk('cookie', 'unsigned long long')):
                for p in readdir_paths(tu, DIRTOK, cookie):
                    if p.aborted:
                        continue
                    closed = [a for n_, a, l in p.events if n_ == 'extern:closedir' and a and a[0] == DIRTOK]
                    if closed and p.state['table'][3]['dir'] == DIRTOK and bad is None:
                        bad = 'on the path %s (result %r) the stream is handed to closedir but stays in the table' % (p.cond_text()[:160], p.ret)
            chk.expect(bad is None, 'R13.7', '%s:released-stream-leaves-table' % fn,
                       '%s releases the directory stream of a live descriptor: %s - the next fd_readdir or fd_close on that number uses / releases '
                       'it again' % (fn, bad), '%s:release' % fn, rel[0][2])
            continue
        chk.expect(only_from_close(fn), 'R13.7', '%s:releases-descriptor-resources' % fn,
                   '%s releases a resource of a descriptor (%s) although it is not the table\'s close operation: on an exit that does not also '
                   'close the slot the live table entry keeps the released resource - a later call on that descriptor number uses or releases it '
                   'again (use after free / double close)' % (fn, ', '.join('%s(%s) at %s' % r for r in rel)), '%s:release' % fn, rel[0][2])


def check_descriptor_sequences(chk, tu, rule='R13.6'):
    """R13.6: the descriptor table under call sequences - every sequence of up to 4 (thorough: 5) insert / close operations on a table
    that starts with the standard streams, a preopen and one open file is evaluated with the real table helpers on a concrete table,
    and after every step the invariants of the property are tested through the lookup helper: a number returned by an insertion was
    not live, it now denotes exactly the inserted native descriptor, every other live number still denotes what it denoted, a closed
    number is not found (until an insertion returns it again), closing a number that is not live fails and changes nothing"""
    import itertools
    maxlen = 5 if chk.tier == 'thorough' else 4
    ret0 = lambda i, a, n: 0
    leafs = {'close': ret0, 'closedir': ret0}

    import copy

    def call(table, fname, args):
        # each explored path starts from its own copy of the table; the table after the call is the one of the chosen path (the
        # successful one when an allocation inside the helper may also fail)
        paths = [p for p in W.explore_entry(tu, fname, lambda it, st: list(args), lambda: copy.deepcopy(table), extra_leafs=leafs) if not p.aborted]
        good = [p for p in paths if p.ret == 1]
        pick = good if good else paths
        if len(pick) != 1 and not (pick and all(p.ret == pick[0].ret for p in pick)):
            raise AnalysisBroken('%s%r on a concrete table: %d paths, %d successful' % (fname, tuple(args), len(paths), len(good)))
        p = pick[0]
        if p.ret == 1:
            table[:] = p.state['table']
        return p

    def lookup(table, n):
        res = {'v': {'fd': 'unset', 'dir': 'unset', 'path': 'unset'}}
        p = call(table, 'wasiFileDescriptorGet', [n, Ptr(res, 'v')])
        return res['v']['fd'] if p.ret == 1 else None
    # operations: ('add',) | ('close', k): k indexes the list of numbers known so far (0-2 streams, 3 preopen, 4 file, then issued ones)
    n_seq = 0
    bad = None
    for ln in range(1, maxlen + 1):
        for seq in itertools.product(['add', 0, 3, 4, 5, 6, 9] if chk.tier == 'thorough' else ['add', 0, 4, 5, 9], repeat=ln):
            if seq[0] == 5 or seq[0] == 6 or (ln > 1 and 'add' not in seq):
                continue
            table = std_table(1)
            live = {0: 0, 1: 1, 2: 2, 3: 'preopen', 4: 10}       # number -> native fd (the preopen has none: looked up by path)
            next_native = 50
            n_seq += 1
            for step, op in enumerate(seq):
                what = None
                if op == 'add':
                    res = {'v': unk('out')}
                    try:
                        p = call(table, 'wasiFileDescriptorAdd', [next_native, '/preopen/n%d' % next_native, Ptr(res, 'v')])
                    except AnalysisBroken as e:
                        raise
                    if p.ret == 1:
                        d = res['v']
                        if not isinstance(d, int):
                            what = 'insertion returned %r' % (d,)
                        elif d in live:
                            what = 'insertion returned the number %d, which is live (native descriptor %r)' % (d, live[d])
                        else:
                            live[d] = next_native
                        next_native += 1
                    desc = 'insert'
                else:
                    desc = 'close(%d)' % op
                    before = dict(live)
                    p = call(table, 'wasiFileDescriptorClose', [op])
                    if op in live:
                        if p.ret != 1:
                            what = 'closing the live descriptor %d fails' % op
                        else:
                            del live[op]
                    elif p.ret == 1:
                        what = 'closing %d, which is not a live descriptor, succeeds' % op
                if what is None:
                    for n in range(0, 12):
                        got = lookup(table, n)
                        want = live.get(n)
                        if want == 'preopen':
                            ok = got is not None and got < 0
                        else:
                            ok = got == want
                        if not ok:
                            what = 'descriptor %d now denotes %s, expected %s' % (
                                n, 'nothing (lookup fails)' if got is None else 'native descriptor %r' % (got,),
                                'nothing (not live)' if want is None else ('the preopen' if want == 'preopen' else 'native descriptor %r' % (want,)))
                            break
                if what:
                    bad = 'sequence %s on the table [stdin, stdout, stderr, preopen, file]: after step %d (%s) %s' % (
                        ' ; '.join('insert' if o == 'add' else 'close(%d)' % o for o in seq), step + 1, desc, what)
                    break
            if bad:
                break
        if bad:
            break
    chk.expect(not bad, rule, 'descriptor-sequences',
               '%s - a descriptor number must denote one open descriptor from its insertion to its close and nothing afterwards' % bad,
               'descriptor-table:sequences', detail_ok='%d insert/close sequences of up to %d steps keep every descriptor number unambiguous' % (n_seq, maxlen))


def closed_state(chk, tu, rule='R13.2'):
    """R13.2 - returns the CLOSED record(s) established by successful closes"""
    FD, DIR, PATH = unk('slot.fd', 'int'), unk('slot.dir'), unk('slot.path')

    def table():
        t = std_table(0)
        t.append({'fd': FD, 'dir': DIR, 'path': PATH})
        return t
    paths = W.explore_entry(tu, 'wasiFileDescriptorClose', lambda it, st: [4], table)
    closed = []
    n_ok = 0
    for p in paths:
        if p.ret != 1:
            continue
        n_ok += 1
        slot = p.state['table'][4]
        released = []
        for name, args, loc in p.events:
            if name in ('extern:close', 'extern:closedir', 'extern:free'):
                released.append((name[7:], args[0], loc))
        cond = p.cond_text()
        for fn, val, loc in released:
            still = [k for k, v in slot.items() if v == val]
            chk.expect(not still, rule, 'released-%s-cleared[%s]' % (fn, cond[:60]),
                       'after a successful fd_close the table slot still holds the %s value that was handed to %s() (field %s): '
                       'a later call on this descriptor re-uses released host state (double close / use after free)'
                       % ('pointer' if fn != 'close' else 'descriptor', fn, ', '.join(still)),
                       'wasiFileDescriptorClose:%s-not-cleared' % (still[0] if still else fn), loc)
        # apply what the path knows about fields it did not overwrite (e.g. path == NULL on this path)
        rec = dict(slot)
        for k, v in list(rec.items()):
            if is_sym(v):
                for c, t, _ in p.decisions:
                    c0 = pe.norm_cond(c)
                    if is_sym(c0) and c0.op in ('!=', '==') and pe.strip_casts(c0.args[0]) == v and c0.args[1] == 0:
                        if (c0.op == '!=' and not t) or (c0.op == '==' and t):
                            rec[k] = 0
                    # the same test written as a truth value: `if (x)` not taken, `if (!x)` taken
                    neg, c1 = False, c0
                    while is_sym(c1) and c1.op == '!':
                        neg, c1 = not neg, c1.args[0]
                    if is_sym(c1) and pe.strip_casts(c1) == v and ((not neg and not t) or (neg and t)):
                        rec[k] = 0
        closed.append(rec)
    chk.require(n_ok >= 2, 'wasiFileDescriptorClose has %d success paths' % n_ok)
    # double close at the level of the helper: closing CLOSED again must fail without native calls
    return closed


NATIVE_PREFIX = 'extern:'
HARMLESS = {'extern:malloc', 'extern:calloc', 'extern:free'}


def check_inert(chk, tu, closed_records, only=None, rule='R13.3', floor=80):
    eps = W.entry_points(tu)
    chk.require(len(eps) >= 40, 'only %d WASI imports found' % len(eps))
    n_checked = 0
    skipped = []
    states = []
    seen = set()
    for rec in closed_records:
        key = tuple(sorted((k, repr(v)) for k, v in rec.items()))
        if key not in seen:
            seen.add(key)
            states.append(('closed', rec))
            # the standard streams are ordinary table entries: closed, the numbers 0-2 are as dead as any other
            states.append(('closed@0', rec))
            states.append(('closed@2', rec))
    states.append(('never-issued', None))
    # descriptor numbers are 32-bit unsigned guest values: the top of the range must be rejected like any other number beyond
    # the table (a bound check done in a signed type lets them through as negative indices)
    states.append(('never-issued-high', None))
    states.append(('never-issued-msb', None))
    for imp, gens in sorted(eps.items()):
        pos = DESCRIPTOR_PARAMS.get(imp)
        if pos is None or (only is not None and imp not in only):
            continue
        for gen, f in sorted(gens.items()):
            fname = f['name']
            params = astdb.fn_params(f)
            # unimplemented stubs: a body that returns ENOSYS unconditionally takes no descriptor at all
            rets = [astdb.const_int(kids(r)[0], tu) for r in walk(astdb.fn_body(f)) if r.get('kind') == 'ReturnStmt' and kids(r)]
            calls = [c for c in walk(astdb.fn_body(f)) if c.get('kind') == 'CallExpr' and astdb.callee_name(c) != 'tracePrintf']
            if rets == [NOSYS] and not calls:
                skipped.append('%s/%s' % (gen, imp))
                continue
            if not pos:
                continue
            for which, variant in [(w_, v_) for w_ in pos for v_ in ('typical', 'zero')]:
                for sname, rec in states:
                    def table():
                        t = std_table(1)
                        if rec is not None and '@' in sname:
                            t[int(sname.split('@')[1])] = dict(rec)
                        elif rec is not None:
                            t.append(dict(rec))
                        return t
                    if rec is not None:
                        idx = int(sname.split('@')[1]) if '@' in sname else 5
                    else:
                        idx = {'never-issued': 9, 'never-issued-high': 0xFFFFFFFF, 'never-issued-msb': 0x80000000}[sname]

                    def mk(it, st):
                        args = [unk('instance')]
                        for i, prm in enumerate(params[1:]):
                            if i == which:
                                args.append(idx)
                            elif i in pos:
                                args.append(3)     # the other descriptor of two-descriptor calls: a live preopen
                            else:
                                nm = prm.get('name', 'p%d' % i)
                                if 'Count' in nm or 'count' in nm:
                                    args.append(1 if variant == 'typical' else 0)
                                elif variant == 'zero' and re.search(r'(Length|Len|Size|length|size)$', nm):
                                    args.append(0)      # empty buffers / zero-length requests must not bypass the descriptor check
                                elif nm == 'whence':
                                    args.append(0)      # a valid whence: validity of other arguments is orthogonal
                                elif 'lags' in nm or 'ights' in nm:
                                    args.append(0)      # flag words do not influence descriptor validity
                                else:
                                    args.append(unk(nm, tu.desugar(astdb.qtype(prm))))
                        return args
                    def stop_at_native(interp, name, args, node, res):
                        # the first native call on a dead descriptor already settles the verdict for this path
                        if 'extern:' + name not in HARMLESS:
                            raise pe.PathAbort('native-call')
                        return None
                    try:
                        paths = W.explore_entry(tu, fname, mk, table, max_paths=400, errno_value=5, extern_hook=stop_at_native)
                    except pe.PEError as e:
                        raise AnalysisBroken('%s: %s' % (fname, e))
                    inst = '%s/%s[fd#%d=%s%s]' % (gen, imp, which, sname, '' if variant == 'typical' else ',zero-sized')
                    site = '%s:%s-descriptor' % (imp, sname)
                    bad_ret = sorted({repr(p.ret) if p.aborted is None else 'no return (%s)' % p.aborted for p in paths if p.ret != BADF})
                    natives = []
                    for p in paths:
                        for name, args, loc in p.events:
                            if name.startswith(NATIVE_PREFIX) and name not in HARMLESS:
                                natives.append((name[7:], loc))
                            if name == 'extern:free' and any(is_sym(a) and str(a.args[0]).startswith('slot.') for a in args if is_sym(a)):
                                natives.append(('free(slot field)', loc))
                            for a in args:
                                if is_sym(a) and any(s.op == 'unk' and str(s.args[0]).startswith('slot.') for s in pe.sym_walk(a)):
                                    natives.append(('%s uses released %r' % (name, a), loc))
                    n_checked += 1
                    if natives:
                        chk.fail(rule, inst + ':no-native-use',
                                 '%s on a %s descriptor performs %s - a closed or never-issued descriptor must be rejected before '
                                 'any host state is touched' % (imp, sname, ', '.join(sorted({n for n, _ in natives}))[:300]),
                                 site + ':native-use', natives[0][1])
                    else:
                        chk.ok(rule, inst + ':no-native-use')
                    chk.expect(not bad_ret, rule, inst + ':returns-EBADF',
                               '%s on a %s descriptor returns %s on some path, the specification requires EBADF (%d)'
                               % (imp, sname, ', '.join(bad_ret), BADF), site + ':errno')
    chk.extra['entry_point_runs'] = n_checked
    chk.note('unimplemented imports (unconditional ENOSYS, no descriptor access) not decided: %s' % ', '.join(skipped))
    chk.require(n_checked >= floor, 'only %d entry-point/state combinations analysed' % n_checked)


def check_native_number_independence(chk, tu):
    """R13.8: descriptors 0-2 denote the host's standard streams - native descriptors 0, 1, 2.  A native descriptor number is just a
    number: every file-like import must behave on a live descriptor whose native number is 0 exactly as on one whose native number is
    10 - same return values, same host calls in the same order, with the native number as the only difference (a guard such as
    `fd <= 0` or `!fd` treats standard input as closed)"""
    eps = W.entry_points(tu)
    n = 0
    for imp in ('fd_write', 'fd_pwrite', 'fd_read', 'fd_pread', 'fd_seek', 'fd_tell', 'fd_fdstat_get', 'fd_datasync', 'fd_sync', 'fd_filestat_get', 'fd_close'):
        for gen, f in sorted(eps.get(imp, {}).items()):
            fname = f['name']
            params = astdb.fn_params(f)
            summaries = {}
            REF = 77
            for native in (0, REF, 2):
                def table(native=native):
                    t = std_table(1)
                    t.append({'fd': native, 'dir': 0, 'path': 0})
                    return t

                def mk(it, st):
                    args = [unk('instance')]
                    for i, prm in enumerate(params[1:]):
                        nm = prm.get('name', 'p%d' % i)
                        if i == 0:
                            args.append(5)
                        elif 'Count' in nm or 'count' in nm:
                            args.append(1)
                        elif nm == 'whence':
                            args.append(0)
                        elif 'lags' in nm or 'ights' in nm:
                            args.append(0)
                        else:
                            args.append(unk(nm, tu.desugar(astdb.qtype(prm))))
                    return args
                try:
                    paths = W.explore_entry(tu, fname, mk, table, max_paths=600, errno_value=5)
                except pe.PEError as e:
                    raise AnalysisBroken('%s with native descriptor %d: %s' % (fname, native, e))
                summ = []
                for p in paths:
                    calls = []
                    for name, args, loc in p.events:
                        if name.startswith(NATIVE_PREFIX):
                            calls.append((name, tuple(repr(a) for a in args)))
                    summ.append((repr(p.ret) if p.aborted is None else 'abort:%s' % p.aborted, tuple(calls)))
                summaries[native] = summ
            n += 1

            def renumber(summ, to):
                sub = lambda t: re.sub(r'\b%d\b' % REF, str(to), t)
                return sorted((sub(r_), tuple((nm, tuple(sub(x) for x in a)) for nm, a in calls)) for r_, calls in summ)
            for native in (0, 2):
                got, want = sorted(summaries[native]), renumber(summaries[REF], native)
                if got != want:
                    only0 = [x for x in got if x not in want][:1]
                    only10 = [x for x in want if x not in got][:1]
                    chk.fail('R13.8', '%s/%s:native-%d' % (gen, imp, native),
                             '%s on a live descriptor whose native number is %d behaves differently than on one with another native number: it has %r '
                             'where the other has %r - descriptor %d of the guest is the host\'s standard %s, a valid open descriptor'
                             % (imp, native, only0 or 'no such path', only10 or 'no such path', native, 'input' if native == 0 else 'error'),
                             '%s:native-number' % imp)
                    break
            else:
                chk.ok('R13.8', '%s/%s:native-number-independent' % (gen, imp))
    chk.require(n >= 16, 'only %d imports compared' % n)


def check_prestat(chk, tu):
    eps = W.entry_points(tu)
    for gen in ('preview1', 'unstable'):
        f = eps['fd_prestat_get'][gen]
        for slot, path in ((3, '/preopen'), (0, None)):
            paths = W.explore_entry(tu, f['name'], lambda it, st: [unk('instance'), slot, unk('ptr', 'unsigned int')], lambda: std_table(0))
            for p in paths:
                st = [(a[0], a[1], a[2]) for n, a, l in p.events if n == 'gstore']
                if path is None:
                    chk.expect(p.ret == BADF and not st, 'R13.5', '%s/fd_prestat_get[no-path]' % gen,
                               'fd_prestat_get on a descriptor without a path returns %r / stores %r' % (p.ret, st), 'fd_prestat_get:no-path')
                else:
                    ptr = unk('ptr')
                    st2 = [(w, pe.strip_casts(a), v) for w, a, v in st]
                    ok = p.ret == 0 and (32, ptr, 0) in st2 and any(w == 32 and is_sym(a) and a.op == '+' and 4 in a.args and v == len(path)
                                                                    for w, a, v in st2)
                    chk.expect(ok, 'R13.5', '%s/fd_prestat_get[preopen]' % gen,
                               'fd_prestat_get on a preopen stores %r and returns %r; expected tag 0 at +0 and the path length %d at +4'
                               % (st, p.ret, len(path)), 'fd_prestat_get:preopen')
        g = eps['fd_prestat_dir_name'][gen]
        for slot, path in ((3, '/preopen'), (0, None)):
            paths = W.explore_entry(tu, g['name'], lambda it, st: [unk('instance'), slot, unk('ptr', 'unsigned int'), 100],
                                    lambda: std_table(0))
            for p in paths:
                cp = [a for n, a, l in p.events if n == 'extern:memcpy']
                if path is None:
                    chk.expect(p.ret == BADF and not cp, 'R13.5', '%s/fd_prestat_dir_name[no-path]' % gen,
                               'fd_prestat_dir_name without a path returns %r' % (p.ret,), 'fd_prestat_dir_name:no-path')
                else:
                    ok = p.ret == 0 and len(cp) == 1 and cp[0][1] == path and cp[0][2] == len(path)
                    chk.expect(ok, 'R13.5', '%s/fd_prestat_dir_name[preopen]' % gen,
                               'fd_prestat_dir_name copies %r and returns %r; expected the stored path' % (cp, p.ret),
                               'fd_prestat_dir_name:preopen')


def run(chk):
    chk.explanation = (
        'Typestate analysis of the descriptor table by partial evaluation. The table is append-only (syntactic who-writes rules plus '
        'a summary of the insertion helper), fd_close is summarised with an unknown slot to obtain the state it leaves behind, and '
        'every descriptor-taking import of both ABI generations is then evaluated on that CLOSED state and on an index never issued, '
        'with all other arguments unknown: no path may reach a native call or a string/free operation involving a descriptor field, '
        'and every path must return EBADF. This decides the "invalid after close" clause for all call sequences because the closed '
        'state is a single constant record and the table never reuses indices.')
    chk.assumptions = ['host close/closedir succeed or fail as reported', 'descriptor exhaustion / allocation failure not considered',
                       'imports that are unimplemented upstream (unconditional ENOSYS) are listed but not decided']
    tu = W.wasi_tu()
    chk.unit(tu)
    check_append_only(chk, tu)
    check_insertion(chk, tu)
    check_who_releases(chk, tu)
    # R13.9: the number handed to the guest by path_open is the number the table issued (rule shared with C12 R12.2)
    from . import c12 as _c12
    _c12.check_path_open_result(chk, tu, 'R13.9')
    chk.floor('R13.9', 2)
    chk.floor('R13.7', 1)
    check_descriptor_sequences(chk, tu)
    chk.floor('R13.6', 1)
    closed = closed_state(chk, tu)
    check_inert(chk, tu, closed)
    check_prestat(chk, tu)
    check_native_number_independence(chk, tu)
    chk.floor('R13.8', 16)
    chk.sample(dict(rule='R13.2', closed_states=[{k: repr(v) for k, v in c.items()} for c in closed][:4]))
    chk.floor('R13.1', 7)
    chk.floor('R13.2', 2)
    chk.floor('R13.3', 160)
    chk.floor('R13.5', 8)
