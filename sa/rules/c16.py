"""C16  Atomic memory instructions have specified results and are atomic across threads.

R16.1  per-flavour table (63 encodings 0xFE 0x10-0x4E): emitter -> runtime function -> one __atomic builtin of the
       row's operation on an object of the row's access width, seq_cst, operands wrapped to that width, old value
       zero-extended; expectedAlign == log2(access bytes) and a mismatch is a translation error
R16.2  atomicity by construction (little-endian configuration): the body touches linear memory only through that
       one builtin (big-endian lock regions are checked by C19)
R16.3  cmpxchg returns the value observed in memory
R16.4  effective address / operand roles / stack effect of the templates (as R05.2)
R16.5  mutex-based configuration (what big-endian hosts use): every read-modify-write / compare-exchange is one lock region of
       mem->mutex that contains both the read and the write (rule shared with C19 R19.1)
R16.6  one memory for all threads: an instance created for a thread aliases its creator's descriptor of a shared memory, for every
       limits pair including min == max (rule shared with C18 R18.4)
"""
from .. import astdb, pe, emit, oracle, templates, runtime, memrules as mr
from . import c01, c05


def atomic_rows():
    return [r for r in oracle.ROWS if r['sem'].get('cls') in ('atomic.load', 'atomic.store', 'atomic.rmw', 'atomic.cmpxchg')]


def _shared_split(summ):
    """paths of a function that first branches on memory->shared: (paths taken for a shared memory, paths for an unshared one), or None"""
    sh, un = [], []
    for p in summ['paths']:
        v = None
        for c, t, _ in p.decisions:
            r_ = pe.relation(c, t)
            if r_ is not None and r_[2] == 0 and pe.is_sym(pe.strip_casts(r_[1])) and pe.strip_casts(r_[1]).op == 'unk' and \
                    str(pe.strip_casts(r_[1]).args[0]) == 'shared' and r_[0] in ('==', '!='):
                v = r_[0] == '!='
                break
        if v is None:
            return None
        (sh if v else un).append(p)
    return (sh, un) if sh and un else None


def rt_check(chk, rule, row, summ, site, htu):
    split = _shared_split(summ) if row['sem']['cls'] in ('atomic.load', 'atomic.store') else None
    if split is not None:
        # a memory that is not shared is reachable from one thread only: there a plain access of the same width is an atomic access.
        # The shared paths get the atomic rule, the unshared paths the plain load/store rule of C05
        sh, un = split
        mr.check_atomic_le(chk, rule, row, dict(summ, paths=sh), site, htu)
        plain = dict(row, sem=dict(row['sem'], cls='load' if row['sem']['cls'] == 'atomic.load' else 'store', ext='z'))
        plain['name'] = row['name'] + '[unshared]'
        s2 = dict(summ, paths=un)
        if plain['sem']['cls'] == 'load':
            mr.check_plain_load(chk, rule, plain, s2, site, 'le')
        else:
            mr.check_plain_store(chk, rule, plain, s2, site, 'le')
        return
    mr.check_atomic_le(chk, rule, row, summ, site, htu)
    if row['sem']['cls'] == 'atomic.cmpxchg':
        # R16.3: the expected object handed to the builtin starts as the wrapped `expected` operand
        for p in summ['paths']:
            for name, args, loc in p.events:
                if name == 'atomic' and args[0] == '__atomic_compare_exchange_n':
                    ok = pe.is_sym(p.ret) and any(s.op == 'observed' for s in pe.sym_walk(p.ret))
                    chk.expect(ok, 'R16.3', row['name'] + ':returns-observed',
                               '%s returns %r, specification: the value observed in memory (the builtin\'s updated expected object)'
                               % (row['name'], p.ret), site)


def check_align(chk, it, tabs, rows):
    for row in rows:
        nm = row['name']
        try:
            mt = mr.extract_mem(it, row, tabs, [(0, 0)])
        except emit.ScriptMismatch:
            continue        # reported by the access-row rule (memarg decoders)
        want = oracle.natural_align(row['sem']['access'])
        chk.expect(mt.align_consts == {want}, 'R16.1', nm + ':expected-align',
                   '%s accepts alignment exponent %s, the threads proposal requires exactly the natural alignment %d '
                   '(2^%d = %d bytes)' % (nm, sorted(mt.align_consts) or 'any', want, want, row['sem']['access'] // 8),
                   'emitter/' + nm)
        # a mismatching alignment must be a translation error: no successful path with align != want
        stack = mr.FILLER + row['params']
        bad = [t for t in templates.extract(it, row, stack, 0, 0, imm={'align': want + 1}) if t.ok]
        chk.expect(not bad, 'R16.1', nm + ':misaligned-rejected',
                   '%s with alignment exponent %d is translated instead of rejected' % (nm, want + 1), 'emitter/' + nm)


def run(chk):
    chk.explanation = (
        'Finite table check of all 63 atomic access flavours: partial evaluation maps each 0xFE sub-opcode to its template and '
        'runtime function; the function\'s path summary must contain exactly one __atomic builtin (name resolved from the token at '
        'the AtomicExpr\'s spelling location) of the right operation, object width and memory order, fed with operands wrapped to '
        'the access width and returning the zero-extended old/observed value. Atomicity of the builtin itself and linearizability '
        'over interleavings are trusted/not decided.')
    chk.assumptions = ['__atomic builtins with __ATOMIC_SEQ_CST are atomic and sequentially consistent on the host',
                       'naturally aligned accesses (the instruction traps otherwise in the specification)']
    tus = emit.translator_tus(('c.c', 'opcode.c', 'instruction.c'), chk=chk)
    it = emit.make_interp(tus)
    vts = c01.value_types(it)
    tabs = c01.read_type_tables(chk, tus[0], it, vts, 'R16.4')
    rows = atomic_rows()
    chk.require(len(rows) == 63, 'oracle lists %d atomic access rows, expected 63' % len(rows))
    configs = [(0, 0), (1, 0)] if chk.tier == 'quick' else [(0, 0), (1, 0), (0, 1), (1, 1)]
    c05.check_access_rows(chk, it, tabs, rows, configs, 'R16.1', 'R16.4', rt_check, header_cfg='le')
    check_align(chk, it, tabs, rows)
    # the mutex-based configuration (big-endian hosts have no lock-free path): every read-modify-write and compare-exchange is one
    # lock region of mem->mutex containing the read and the write, and the access functions agree with the specification on concrete
    # bytes (rules shared with C19, which owns the byte-order clauses)
    from . import c19
    from .. import runtime, concrete_mem as cm
    from ..pe import PEError
    bhtu = runtime.header('be')
    chk.unit(bhtu)
    callees = c19.template_callees(chk)
    for row in rows:
        if row['sem']['cls'] in ('atomic.rmw', 'atomic.cmpxchg'):
            c19.check_function(chk, bhtu, row, 'be', callees, rule='R16.5')
            # the mutex-based flavours compute the operation themselves (old op2 operand): evaluated on concrete bytes and operands, each
            # must return the old value and leave old <op> operand in memory - one macro row per flavour, a wrong operator in one row
            # shows only here
            fn = callees.get(row['name'])
            if fn in bhtu.functions:
                try:
                    bad = cm.refute(bhtu, fn, row, 'big', small=chk.tier != 'thorough')
                except cm.Unsupported as e:
                    chk.note('%s: concrete evaluation not applicable (%s)' % (fn, e))
                    continue
                except PEError as e:
                    bad = 'cannot be evaluated on concrete operands: %s' % e
                chk.expect(not bad, 'R16.5', '%s@be:concrete' % row['name'], '%s in the mutex-based configuration: %s' % (row['name'], bad),
                           'runtime/%s@be:bytes' % fn, detail_ok='agrees with the specification on the concrete family')
    chk.floor('R16.5', 49)
    # "atomic across threads": the threads of an instance family operate on one memory - every instance made for a thread aliases its
    # creator's descriptor of a module-defined shared memory, whatever the memory's limits (rule shared with C18 R18.4 / C06 R06.4)
    from . import c06
    c06.check_shared_descriptor(chk, tus, 'R16.6')
    chk.floor('R16.6', 5)
    chk.floor('R16.1', 63 * 3)
    chk.floor('R16.3', 7)
    chk.floor('R16.4', 63 * 6)
    chk.exhaustive = True
