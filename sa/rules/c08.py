"""C08  Translation depends on the decoded module, not on its byte encoding.

Structural clauses decided here (necessary conditions; equality of whole outputs for every pair of equivalent encodings
is value-level and not decided - see DESIGN.md):

R08.1  LEB128 length is never data: the byte count returned by leb128Read{U32,I32,U64,I64} is used only as a truth value
R08.2  decoder semantics, decided symbolically for every encoding length n = 1..max and all byte values: the decoded value
       is exactly OR_i ((b_i & 0x7F) << 7i) truncated to the result width, sign-extended from bit 7n-1 iff 7n < width,
       the decoder stops after the first byte without continuation bit and consumes exactly n bytes
R08.3  section dispatcher: the reader table has one reader per id 0..12 in the order of enum WasmSectionID; after a reader
       returns, the consumed length is compared with the declared size before success; unknown ids are skipped by the size
R08.4  custom sections are inert: code reachable from the custom-section reader writes only module->debugSections and
       module->functionNames, and the name-section path is guarded by the debug option
R08.5  data segment kinds: reading kind 0 yields the record of kind 2 with memory index 0 (partial evaluation of the reader)
R08.7  immediates are decoded with the decoder of their specified type: for every instruction the sequence of decoder calls
       the translator makes equals the instruction's immediate list in the binary format (a u32 read as a single byte, or a
       signed field read unsigned, accepts only some of the valid encodings)
R08.8  section readers follow the binary grammar: each section reader is partially evaluated on a scripted token stream of its
       grammar (counts, names, limits with all three flag forms, value types, mutability, indices, constant expressions) and the
       module record it builds is compared field by field with the decoded module; every token must be consumed
R08.10 section sequences: wasmModuleRead evaluated on concrete files with every kind of valid section order (positional order with
       DataCount between Element and Code, customs anywhere, sparse subsets, empty) - accepted, readers called in file order
R08.11 present-but-empty equals absent: every combination of omitted / zero-entry sections is accepted by the real section readers
       (concrete files; calloc(0, n) modelled as on the analysed target: a unique non-NULL pointer)
R08.12 padded LEB128: every instruction with immediates is translated from bytes (real decoders, concrete code buffer) in its minimal
       and in a padded encoding, in live and dead code: same emitted text, stack effect, result, bytes consumed, open labels
R08.9  reader primitives accept input that ends exactly at the end of the file (shared with C10 R10.11): a name, number or byte
       vector in the last section must decode like anywhere else
R08.6  absent = empty: the module record comes from a zero-initialising allocation, and loops over module arrays are
       bounded by the count stored next to the array they index
"""
import re

from .. import astdb, pe, emit
from ..astdb import AnalysisBroken, kids, walk, strip
from ..pe import Ptr, Sym, is_sym, unk
from . import c10, c09

LEB = {'leb128ReadU32': (32, False, 5), 'leb128ReadI32': (32, True, 5), 'leb128ReadU64': (64, False, 10), 'leb128ReadI64': (64, True, 10)}


# ---- R08.1 ----------------------------------------------------------------------------------------

def parent_map(body):
    par = {}
    for n in walk(body):
        for c in n.get('inner', []) or []:
            if isinstance(c, dict):
                par[id(c)] = n
    return par


def truth_context(call, par):
    """how the value of `call` is consumed: 'truth' | description of a data use"""
    n = call
    while True:
        p = par.get(id(n))
        if p is None:
            return 'value discarded'
        k = p.get('kind')
        if k in ('ParenExpr', 'ImplicitCastExpr') or (k == 'CStyleCastExpr' and 'bool' in astdb.qtype(p)):
            if k == 'ImplicitCastExpr' and p.get('castKind') == 'IntegralToBoolean':
                return 'truth'
            n = p
            continue
        if k == 'UnaryOperator' and p.get('opcode') == '!':
            return 'truth'
        if k == 'BinaryOperator' and p.get('opcode') in ('==', '!=', '>', '<=', '<', '>='):
            other = [c for c in kids(p) if c is not n]
            v = astdb.const_int(strip(other[0], casts=True)) if other else None
            if v == 0 and p['opcode'] in ('==', '!=', '>', '<='):
                return 'truth'
            return 'compared with %s by %s' % (astdb.expr_text(other[0]) if other else '?', p.get('opcode'))
        if k == 'BinaryOperator' and p.get('opcode') in ('&&', '||'):
            return 'truth'
        if k in ('IfStmt', 'WhileStmt', 'ForStmt', 'DoStmt', 'ConditionalOperator'):
            cond = p['inner'][0] if k in ('IfStmt', 'ConditionalOperator') else None
            if k == 'WhileStmt':
                cond = p['inner'][-2]
            if k == 'DoStmt':
                cond = p['inner'][-1]
            if k == 'ForStmt':
                cond = p['inner'][2]
            return 'truth' if cond is n else 'value discarded'
        if k == 'CompoundStmt':
            return 'value discarded'
        return 'used as data in %s %s' % (k, p.get('opcode', ''))


def check_count_never_data(chk, funcs):
    n = 0
    for tu, f in funcs:
        if f['name'] in LEB:
            continue
        body = astdb.fn_body(f)
        calls = [c for c in walk(body) if c.get('kind') == 'CallExpr' and astdb.callee_name(c) in LEB]
        if not calls:
            continue
        par = parent_map(body)
        for c in calls:
            n += 1
            ctx = truth_context(c, par)
            chk.expect(ctx == 'truth', 'R08.1', '%s:%s@%s' % (f['name'], astdb.callee_name(c), astdb.loc_str(c).split(':')[-1]),
                       'the byte count returned by %s at %s in %s is %s: a padded (longer) encoding of the same number would change the result'
                       % (astdb.callee_name(c), astdb.loc_str(c), f['name'], ctx), '%s:leb-count-as-data' % f['name'], astdb.loc_str(c))
    return n


# ---- R08.2 ----------------------------------------------------------------------------------------

def terms_of(v, width):
    """decompose a symbolic OR of shifted masked bytes into {(byte name, mask, shift)} plus a constant; None if another shape"""
    mask_w = (1 << width) - 1
    terms, const = set(), 0
    todo = [v]
    while todo:
        x = todo.pop()
        if isinstance(x, int):
            const |= x & mask_w
            continue
        if not is_sym(x):
            return None
        x0 = x
        while x0.op == 'cast' and is_sym(x0.args[0]) or (is_sym(x0) and x0.op == 'cast' and isinstance(x0.args[0], int)):
            inner = x0.args[0]
            if isinstance(inner, int):
                const |= inner & mask_w
                x0 = None
                break
            x0 = inner
        if x0 is None:
            continue
        if x0.op == '|':
            todo.extend(x0.args)
            continue
        sh = 0
        y = x0
        if y.op == '<<':
            if not isinstance(y.args[1], int):
                return None
            sh = y.args[1]
            y = y.args[0]
        while is_sym(y) and y.op == 'cast':
            y = y.args[0]
        if is_sym(y) and y.op == '&' and isinstance(y.args[1], int):
            b = y.args[0]
            while is_sym(b) and b.op == 'cast':
                b = b.args[0]
            if is_sym(b) and b.op == 'unk':
                terms.add((b.args[0], y.args[1], sh))
                continue
        return None
    return terms, const


def check_decoders(chk, tu, rule='R08.2', only=None):
    n = 0
    for fname, (width, signed, maxn) in sorted(LEB.items()):
        if only is not None and fname not in only:
            continue
        f = tu.functions.get(fname)
        chk.require(f is not None and astdb.fn_body(f) is not None, 'decoder %s not found' % fname)
        chk.fn(fname)
        site = fname
        for nbytes in range(1, maxn + 1):
            bytes_ = [unk('b%d' % i, 'unsigned char') for i in range(nbytes)]

            def setup(bytes_=bytes_):
                st = {'pos': 0}
                res = {'v': 0}
                buf = {'v': {'data': unk('data'), 'length': unk('len')}}
                return (fname, [Ptr(buf, 'v'), Ptr(res, 'v')], {'st': st, 'res': res})

            def read_byte(interp, args, node, bytes_=bytes_):
                st = interp.path.state['st']
                if st['pos'] >= len(bytes_):
                    return 0
                b = bytes_[st['pos']]
                st['pos'] += 1
                interp.store(args[1].c, args[1].k, b)
                return 1
            it = pe.Interp([tu], {'bufferReadByte': read_byte})
            it.loop_abort = True
            paths = it.explore(setup)
            # select the paths where exactly the first nbytes-1 bytes have the continuation bit
            want = []
            for p in paths:
                if p.aborted:
                    continue
                conts = {}
                for cond, taken, loc in p.decisions:
                    cl = classify(cond, taken)
                    if cl and cl[1] == 0x80:
                        conts[cl[0]] = cl[2]
                ok = all(conts.get('b%d' % i) is True for i in range(nbytes - 1)) and (conts.get('b%d' % (nbytes - 1)) is False or (nbytes == maxn and conts.get('b%d' % (nbytes - 1)) in (False, True)))
                if ok and p.state['st']['pos'] == nbytes:
                    want.append((p, conts))
            label = '%s[n=%d]' % (fname, nbytes)
            if not chk.expect(bool(want), rule, label + ':path',
                              '%s has no path that consumes exactly %d bytes when the first %d have the continuation bit and the last does not '
                              '(%d paths explored): a %d-byte encoding is not accepted' % (fname, nbytes, nbytes - 1, len(paths), nbytes), site):
                continue
            for p, conts in want:
                if conts.get('b%d' % (nbytes - 1)) is True:
                    continue        # over-long encoding (continuation bit on the last allowed byte): not a valid encoding
                n += 1
                chk.expect(p.ret == nbytes, rule, label + ':count', '%s returns %r for a %d-byte encoding' % (fname, p.ret, nbytes), site)
                val = p.state['res']['v']
                dec = terms_of(val, width) if not isinstance(val, int) else (set(), val)
                sign_taken = None
                for cond, taken, loc in p.decisions:
                    cl = classify(cond, taken)
                    if cl and cl[1] == 0x40 and cl[0] == 'b%d' % (nbytes - 1):
                        sign_taken = cl[2]
                exp_terms = {('b%d' % i, 0x7F, 7 * i) for i in range(nbytes) if 7 * i < width}
                if dec is None:
                    chk.fail(rule, label + ':value', '%s: decoded value has an unexpected shape for a %d-byte encoding: %r' % (fname, nbytes, val), site)
                    continue
                terms, const = dec
                terms = {t for t in terms if t[2] < width}
                # the result has `width` bits: of a byte shifted to position s only its low width - s payload bits arrive (the rest are
                # padding / sign-extension bits of the encoding) - compare the contributions modulo 2^width
                def low(t):
                    return (t[0], t[1] & ((1 << max(0, min(7, width - t[2]))) - 1), t[2])
                terms = {low(t) for t in terms}
                exp_terms = {low(t) for t in exp_terms}
                exp_const = 0
                if signed and 7 * nbytes < width:
                    if not chk.expect(sign_taken is not None, rule, label + ':sign-test',
                                      '%s does not test bit 6 of the last byte of a %d-byte encoding: negative numbers are not sign-extended' % (fname, nbytes), site):
                        continue
                    if sign_taken:
                        exp_const = ((-1) << (7 * nbytes)) & ((1 << width) - 1)
                else:
                    if sign_taken:
                        exp_const = None
                ok = terms == exp_terms and (exp_const is not None and const == exp_const)
                chk.expect(ok, rule, label + (':neg' if sign_taken else ':pos'),
                           '%s decodes a %d-byte encoding (sign bit %s) to terms %r with constant 0x%X; the LEB128 definition gives %r with constant %s'
                           % (fname, nbytes, 'set' if sign_taken else 'clear/unsigned', sorted(terms), const, sorted(exp_terms),
                              'none (no extension at full width)' if exp_const is None else hex(exp_const)), site)
    return n


def classify(cond, taken):
    """decision on a single bit of an input byte -> (byte name, mask, bit is set on this path) or None"""
    c = pe.strip_casts(cond)
    neg = False
    while is_sym(c) and c.op == '!':
        neg = not neg
        c = pe.strip_casts(c.args[0])
    op = None
    if is_sym(c) and c.op in ('==', '!=') and c.args[1] == 0:
        op = c.op
        c = pe.strip_casts(c.args[0])
    if not (is_sym(c) and c.op == '&' and isinstance(c.args[1], int)):
        return None
    b = pe.strip_casts(c.args[0])
    if not (is_sym(b) and b.op == 'unk'):
        return None
    bit_set = bool(taken)
    if op == '==':
        bit_set = not bit_set
    if neg:
        bit_set = not bit_set
    return (b.args[0], c.args[1], bit_set)


# ---- R08.3 ----------------------------------------------------------------------------------------

def check_dispatcher(chk, tu):
    site = 'wasmModuleReadSection'
    vd = tu.vars.get('wasmSectionReaders')
    chk.require(vd is not None, 'anchor table wasmSectionReaders not found')
    init = [c for c in kids(vd) if c.get('kind') == 'InitListExpr']
    chk.require(init, 'wasmSectionReaders has no initialiser list')
    entries = []
    for e in kids(init[0]):
        e0 = strip(e, casts=True)
        entries.append(e0['referencedDecl'].get('name') if e0.get('kind') == 'DeclRefExpr' else astdb.expr_text(e0))
    ids = dict(tu.enum_decls.get('WasmSectionID', []))
    chk.require(len(ids) >= 13, 'enum WasmSectionID has %d members' % len(ids))
    spec = {0: 'Custom', 1: 'Type', 2: 'Import', 3: 'Function', 4: 'Table', 5: 'Memory', 6: 'Global', 7: 'Export', 8: 'Start', 9: 'Element',
            10: 'Code', 11: 'Data', 12: 'DataCount'}
    for sid, nm in spec.items():
        chk.expect(ids.get('wasmSectionID' + nm) == sid, 'R08.3', 'enum:' + nm, 'wasmSectionID%s = %r, the binary format assigns id %d' % (nm, ids.get('wasmSectionID' + nm), sid), 'WasmSectionID')
        got = entries[sid] if sid < len(entries) else None
        chk.expect(got == 'wasmRead%sSection' % nm, 'R08.3', 'reader:' + nm,
                   'section id %d (%s) is dispatched to %r; expected wasmRead%sSection' % (sid, nm, got, nm), 'wasmSectionReaders')
    f = tu.functions.get('wasmModuleReadSection')
    chk.require(f is not None, 'anchor wasmModuleReadSection not found')
    body = astdb.fn_body(f)
    chk.fn('wasmModuleReadSection')
    # indirect call through the table, start snapshot before, end comparison after
    def indirect(c):
        """call through a local function-pointer variable (whatever it is called)"""
        if c.get('kind') != 'CallExpr':
            return False
        cal = strip(kids(c)[0], casts=True)
        return cal.get('kind') == 'DeclRefExpr' and cal.get('referencedDecl', {}).get('kind') in ('VarDecl', 'ParmVarDecl')
    calls = [c for c in walk(body) if indirect(c)]
    chk.require(calls, 'no indirect reader call in wasmModuleReadSection')
    call = calls[0]
    args = [astdb.expr_text(strip(a, casts=True)) for a in astdb.call_args(call)]
    # the declared section size: the local filled by the one LEB128 read of this function (whatever it is called)
    lebs = [c for c in walk(body) if c.get('kind') == 'CallExpr' and astdb.callee_name(c) == 'leb128ReadU32']
    chk.require(len(lebs) == 1, 'wasmModuleReadSection has %d leb128ReadU32 calls, expected the one reading the section size' % len(lebs))
    size_var = astdb.expr_text(strip(astdb.call_args(lebs[0])[1], casts=True)).lstrip('&')
    chk.require(re.fullmatch(r'\w+', size_var) is not None, 'section size is read into %r' % size_var)
    chk.expect(len(args) == 3 and args[1] == size_var, 'R08.3', 'reader-gets-size', 'the section reader is called with %r' % (args,), site)

    def fact_eq(c, truth):
        out = []
        if c.get('kind') == 'BinaryOperator' and c.get('opcode') in ('!=', '=='):
            a, b = [astdb.expr_text(strip(x, casts=True)) for x in kids(c)]
            if (c['opcode'] == '==') == truth:
                out.append(('eq', frozenset((a, b)), frozenset(re.findall(r'\w+', a + ' ' + b))))
        return out

    def kills(n):
        if n.get('kind') in ('BinaryOperator', 'CompoundAssignOperator') and (n.get('opcode') == '=' or n.get('kind') == 'CompoundAssignOperator'):
            l = strip(kids(n)[0])
            if l.get('kind') == 'DeclRefExpr':
                nm = l['referencedDecl'].get('name')
                return lambda fa: nm in fa[-1]
        return None
    order = {id(n): i for i, n in enumerate(walk(body))}

    def is_target(n):
        # the success exits after the reader call: `*error = NULL` stores that follow the call
        if n.get('kind') == 'BinaryOperator' and n.get('opcode') == '=' and astdb.expr_text(strip(kids(n)[0])) == '*error' \
                and astdb.const_int(strip(kids(n)[1], casts=True)) == 0:
            return True
        return False
    from .. import cfg
    res = cfg.guarded_before(body, is_target, fact_eq, kills)
    # definitions of the compared locals
    defs = {}
    for n in walk(body):
        if n.get('kind') == 'BinaryOperator' and n.get('opcode') == '=' and strip(kids(n)[0]).get('kind') == 'DeclRefExpr':
            defs.setdefault(strip(kids(n)[0])['referencedDecl'].get('name'), []).append((order[id(n)], astdb.expr_text(strip(kids(n)[1], casts=True))))
        if n.get('kind') == 'VarDecl' and n.get('init'):
            defs.setdefault(n.get('name'), []).append((order[id(n)], astdb.expr_text(strip([c for c in kids(n) if c.get('kind')][-1], casts=True))))
    in_reader_branch = [(nd, facts) for _i, (nd, facts) in res.items() if order[id(nd)] > order[id(call)] and _inside_same_block(nd, call, body)]
    chk.require(in_reader_branch, 'no success exit after the reader call recognised')
    for nd, facts in in_reader_branch:
        eqs = [fa[1] for fa in (facts or ()) if fa[0] == 'eq']
        good = False
        for pair in eqs:
            pair = sorted(pair)
            exp = {}
            for v in pair:
                exp[v] = [d for _o, d in defs.get(v, [])]
            texts = [exp.get(v, []) + [v] for v in pair]
            flat = [' | '.join(t) for t in texts]
            has_end = any(any(re.fullmatch(r'reader->buffer\.data', d) for d in t) for t in texts)
            has_exp = any(any(re.fullmatch(r'(\w+)\s*\+\s*' + size_var, d) for d in t) for t in texts)
            if has_end and has_exp:
                # the base of the expected end must be the snapshot taken before the call
                for t in texts:
                    for d in t:
                        m = re.fullmatch(r'(\w+)\s*\+\s*' + size_var, d)
                        if m:
                            snap = defs.get(m.group(1), [])
                            good = any(dd == 'reader->buffer.data' and o < order[id(call)] for o, dd in snap)
        chk.expect(good, 'R08.3', 'consumed-equals-declared',
                   'the success exit at %s after a section reader is not dominated by a check that the bytes consumed equal the declared section size '
                   '(facts: %r): a reader that consumes more or less than the section would silently desynchronise the following sections'
                   % (astdb.loc_str(nd), [sorted(e) for e in eqs]), site + ':size-check', astdb.loc_str(nd))
    skips = [c for c in walk(body) if c.get('kind') == 'CallExpr' and astdb.callee_name(c) == 'bufferSkip']
    ok = len(skips) == 1 and [astdb.expr_text(strip(a, casts=True)) for a in astdb.call_args(skips[0])] == ['&reader->buffer', size_var]
    chk.expect(ok, 'R08.3', 'unknown-skipped-by-size', 'sections without a reader are skipped with %r' %
               ([[astdb.expr_text(a) for a in astdb.call_args(s)] for s in skips],), site + ':skip')
    # bound check of the id against the table length
    # every subscript of the table is inside the true branch of `index < (number of table entries)`
    tname = vd.get('name')
    m_len = re.search(r'\[(\d+)\]', astdb.qtype(vd) or '')
    tlen = int(m_len.group(1)) if m_len else len(entries)

    def is_table_len(n):
        n = strip(n, casts=True)
        v = astdb.const_int(n, tu)
        if v is not None:
            return v == tlen
        if n.get('kind') == 'DeclRefExpr' and n['referencedDecl'].get('kind') == 'VarDecl':
            ds = [x for x in walk(body) if x.get('kind') == 'VarDecl' and x.get('id') == n['referencedDecl']['id'] and x.get('init')]
            asg = [x for x in walk(body) if x.get('kind') in ('BinaryOperator', 'CompoundAssignOperator', 'UnaryOperator') and
                   x.get('opcode') in ('=', '+=', '-=', '++', '--') and strip(kids(x)[0]).get('kind') == 'DeclRefExpr' and
                   strip(kids(x)[0])['referencedDecl'].get('id') == n['referencedDecl']['id']]
            if len(ds) == 1 and not asg:
                return is_table_len([c for c in kids(ds[0]) if c.get('kind')][-1])
            return False
        if n.get('kind') == 'BinaryOperator' and n.get('opcode') == '/':
            a_, b_ = [strip(x, casts=True) for x in kids(n)]
            if a_.get('kind') != 'UnaryExprOrTypeTraitExpr' or b_.get('kind') != 'UnaryExprOrTypeTraitExpr' or \
                    a_.get('name') != 'sizeof' or b_.get('name') != 'sizeof':
                return False
            ta, tb = [astdb.expr_text(x).replace(' ', '').replace('(', '').replace(')', '') for x in (a_, b_)]
            return ta == 'sizeof%s' % tname and tb in ('sizeof%s[0]' % tname, 'sizeof*%s' % tname)
        return False

    def guarded_subscripts(n, guards, out):
        if not isinstance(n, dict) or not n.get('kind'):
            return
        if n['kind'] == 'UnaryExprOrTypeTraitExpr':
            return          # sizeof(table[0]) evaluates nothing
        if n['kind'] == 'ArraySubscriptExpr' and astdb.ref_name(strip(kids(n)[0], casts=True)) == tname:
            out.append((n, astdb.expr_text(strip(kids(n)[1], casts=True)), list(guards)))
        if n['kind'] == 'IfStmt':
            inner = n['inner']
            guarded_subscripts(inner[0], guards, out)
            guarded_subscripts(inner[1], guards + [(strip(inner[0], casts=True), True)], out)
            if len(inner) > 2:
                guarded_subscripts(inner[2], guards + [(strip(inner[0], casts=True), False)], out)
            return
        for c in n.get('inner', []):
            guarded_subscripts(c, guards, out)
    subs = []
    guarded_subscripts(body, [], subs)
    chk.require(subs, 'wasmModuleReadSection does not index %s' % tname)

    def bounds(idx, guards):
        for c, truth in guards:
            if c.get('kind') != 'BinaryOperator':
                continue
            l_, r_ = kids(c)
            lt, rt = astdb.expr_text(strip(l_, casts=True)), astdb.expr_text(strip(r_, casts=True))
            op = c.get('opcode')
            if truth and ((op == '<' and lt == idx and is_table_len(r_)) or (op == '>' and rt == idx and is_table_len(l_))):
                return True
            if not truth and ((op == '>=' and lt == idx and is_table_len(r_)) or (op == '<=' and rt == idx and is_table_len(l_))):
                return True
        return False
    for n_, idx, guards in subs:
        chk.expect(bounds(idx, guards), 'R08.3', 'id-bounds',
                   'the reader table (%d entries) is indexed with %s outside a check `%s < number of entries` (enclosing conditions: %r)'
                   % (tlen, idx, idx, [astdb.expr_text(c) for c, _t in guards]), site + ':bounds')


def _inside_same_block(nd, call, body):
    """nd lies in the innermost IfStmt-then block that contains the call"""
    best = None
    for n in walk(body):
        if n.get('kind') == 'IfStmt' and any(x is call for x in walk(n['inner'][1])):
            best = n
    return best is not None and any(x is nd for x in walk(best['inner'][1]))


# ---- R08.4 ----------------------------------------------------------------------------------------

ALLOWED_CUSTOM_FIELDS = {'debugSections', 'functionNames'}


def check_custom_inert(chk, tu, funcs):
    by_name = {}
    for t, f in funcs:
        by_name.setdefault(f['name'], (t, f))
    reach, _ = c09.reachable_from(by_name, 'wasmReadCustomSection')
    chk.require('wasmReadNameSection' in reach, 'wasmReadNameSection is not reachable from wasmReadCustomSection')
    n = 0
    for fn in sorted(reach):
        t, f = by_name[fn]
        body = astdb.fn_body(f)
        par = parent_map(body)
        for m in walk(body):
            if m.get('kind') != 'MemberExpr':
                continue
            base = strip(kids(m)[0])
            if c10.record_of(base, t) != 'WasmModule':
                continue
            # how is module-><field> used?
            top = m
            p = par.get(id(top))
            while p is not None and p.get('kind') in ('MemberExpr', 'ArraySubscriptExpr', 'ParenExpr', 'ImplicitCastExpr') and kids(p)[0] is top:
                if p.get('kind') == 'ImplicitCastExpr' and p.get('castKind') == 'LValueToRValue':
                    break
                top = p
                p = par.get(id(top))
            write = False
            if p is not None:
                k = p.get('kind')
                if k in ('BinaryOperator', 'CompoundAssignOperator') and (p.get('opcode') == '=' or k == 'CompoundAssignOperator') and kids(p)[0] is top:
                    write = True
                if k == 'UnaryOperator' and p.get('opcode') in ('&', '++', '--'):
                    write = True
            if not write:
                continue
            n += 1
            chk.expect(m.get('name') in ALLOWED_CUSTOM_FIELDS, 'R08.4', '%s:writes-module.%s' % (fn, m.get('name')),
                       '%s (reachable from the custom-section reader) writes or takes the address of module->%s at %s: the presence or content of '
                       'a custom section would change the translated module' % (fn, m.get('name'), astdb.loc_str(m)), '%s:custom-writes:%s' % (fn, m.get('name')), astdb.loc_str(m))
    # the name-section call is guarded by reader->debug
    t, f = by_name['wasmReadCustomSection']
    body = astdb.fn_body(f)
    for c in walk(body):
        if c.get('kind') == 'CallExpr' and astdb.callee_name(c) == 'wasmReadNameSection':
            guard = None
            for i in walk(body):
                if i.get('kind') == 'IfStmt' and any(x is c for x in walk(i['inner'][1])):
                    guard = astdb.expr_text(strip(i['inner'][0], casts=True))
            chk.expect(guard is not None and re.search(r'reader->debug\s*&&', guard) is not None, 'R08.4', 'name-section-needs-debug',
                       'the name section is parsed under condition %r, which does not require the debug option: names would influence normal output' % guard,
                       'wasmReadCustomSection:name-guard', astdb.loc_str(c))
    return n


# ---- R08.5 ----------------------------------------------------------------------------------------

def check_segment_kinds(chk, tu, rule='R08.5'):
    fname = 'wasmReadDataSegment'
    chk.require(fname in tu.functions, 'anchor %s not found' % fname)
    chk.fn(fname)
    results = {}
    for kind in (0, 1, 2, 3):
        def setup(kind=kind):
            toks = [('u32', kind)] + ([('u32', unk('memidx', 'unsigned int'))] if True else [])
            st = {'stream': emit.Stream(toks)}
            res = {'v': {'memoryIndex': unk('old-mem'), 'offset': unk('old-off'), 'bytes': unk('old-bytes'), 'passive': unk('old-passive')}}
            err = {'v': unk('old-error')}
            rd = {'v': {'buffer': {'data': unk('data'), 'length': unk('len')}, 'module': unk('module'), 'debug': 0}}
            st.update(res=res, err=err, rd=rd)
            return (fname, [Ptr(rd, 'v'), Ptr(res, 'v'), Ptr(err, 'v')], st)

        def const_expr(interp, args, node):
            interp.event('constexpr', (), node)
            b = interp.load(args[0].c, args[0].k)
            b['length'] = Sym('-', (b['length'], unk('exprlen')), 'unsigned long')
            return 1

        def read_bytes(interp, args, node):
            interp.event('bytes', (), node)
            interp.store(args[1].c, args[1].k, {'data': unk('bytes-data'), 'length': unk('bytes-len')})
            return 1
        leafs = dict(emit.stream_leafs(lambda interp: interp.path.state['stream']))
        leafs.update({'wasmReadConstantExpr': const_expr, 'wasmReadBytes': read_bytes})
        it = pe.Interp([tu], leafs)
        it.loop_abort = True
        try:
            paths = [p for p in it.explore(setup) if not p.aborted]
        except emit.ScriptMismatch as e:
            chk.fail(rule, 'kind%d:decoders' % kind, 'data segment kind %d: %s - the segment fields are u32 LEB128 values; read otherwise, a padded '
                     'encoding of the same segment is rejected or decoded differently' % (kind, e), fname)
            results[kind] = ([], [])
            continue
        ok_paths = [p for p in paths if p.state['err']['v'] == 0]
        results[kind] = (paths, ok_paths)
    site = fname
    for kind in (0, 1, 2):
        if not results[kind][0]:
            continue
        chk.expect(len(results[kind][1]) == 1, rule, 'kind%d:accepted' % kind,
                   'data segment kind %d: %d successful paths of %d' % (kind, len(results[kind][1]), len(results[kind][0])), site)
    chk.expect(len(results[3][1]) == 0, rule, 'kind3:rejected', 'data segment kind 3 is accepted', site)
    # flag 2 with memory index 0 must be accepted exactly like flag 0, whether memory 0 is defined or imported
    for variant in ('defined', 'imported'):
        recs = {}
        for kind in (0, 2):
            def setup2(kind=kind, variant=variant):
                toks = [('u32', kind)] + ([('u32', 0)] if kind == 2 else [])
                st = {'stream': emit.Stream(toks)}
                res = {'v': {'memoryIndex': unk('old-mem'), 'offset': unk('old-off'), 'bytes': unk('old-bytes'), 'passive': unk('old-passive')}}
                err = {'v': unk('old-error')}
                it2 = setup2.it
                mod = it2.zero_init('struct WasmModule')
                if variant == 'defined':
                    mod['memories'] = {'memories': Ptr([{'min': 1, 'max': 2, 'shared': 0}], 0), 'count': 1}
                else:
                    mod['memoryImports'] = {'length': 1, 'capacity': 1, 'imports': Ptr([{'module': 'env', 'name': 'memory', 'min': 1, 'max': 2, 'shared': 0}], 0)}
                rd = {'v': {'buffer': {'data': unk('data'), 'length': unk('len')}, 'module': Ptr({'m': mod}, 'm'), 'debug': 0}}
                st.update(res=res, err=err, rd=rd)
                return (fname, [Ptr(rd, 'v'), Ptr(res, 'v'), Ptr(err, 'v')], st)

            def const_expr2(interp, args, node):
                b = interp.load(args[0].c, args[0].k)
                b['length'] = Sym('-', (b['length'], unk('exprlen')), 'unsigned long')
                return 1

            def read_bytes2(interp, args, node):
                interp.store(args[1].c, args[1].k, {'data': unk('bytes-data'), 'length': unk('bytes-len')})
                return 1
            leafs = dict(emit.stream_leafs(lambda interp: interp.path.state['stream']))
            leafs.update({'wasmReadConstantExpr': const_expr2, 'wasmReadBytes': read_bytes2})
            it2 = pe.Interp([tu], leafs)
            it2.loop_abort = True
            setup2.it = it2
            try:
                ps = [p for p in it2.explore(setup2) if not p.aborted]
            except emit.ScriptMismatch:
                ps = []
            recs[kind] = [p.state['res']['v'] for p in ps if p.state['err']['v'] == 0]
        ok = len(recs[0]) == 1 and len(recs[2]) == 1 and all(repr(recs[0][0][k]) == repr(recs[2][0][k]) for k in ('memoryIndex', 'offset', 'bytes', 'passive'))
        chk.expect(ok, rule, 'kind2-memory0-equals-kind0:' + variant,
                   'with a %s memory 0, a data segment written with flag 2 and memory index 0 gives %r while flag 0 gives %r: the two spec-equivalent '
                   'encodings must be accepted alike and decode to the same segment' % (variant, recs[2] or 'a reader error', recs[0] or 'a reader error'), site)
    if all(len(results[k][1]) == 1 for k in (0, 1, 2)):
        r0 = results[0][1][0]
        r2 = results[2][1][0]
        r1 = results[1][1][0]
        s0, s2, s1 = r0.state['res']['v'], r2.state['res']['v'], r1.state['res']['v']
        ev = lambda p: [e[0] for e in p.events if e[0] in ('constexpr', 'bytes')]
        taken = lambda p: [t for t, v in p.state['stream'].log]
        chk.expect(s0['memoryIndex'] == 0, rule, 'kind0:memory-zero', 'kind 0 yields memory index %r (must be the constant 0)' % (s0['memoryIndex'],), site)
        chk.expect(repr(s2['memoryIndex']) == repr(unk('memidx', 'unsigned int')) and taken(r2) == ['u32', 'u32'], rule, 'kind2:memory-read',
                   'kind 2 yields memory index %r after reading %r' % (s2['memoryIndex'], taken(r2)), site)
        chk.expect(taken(r0) == ['u32'] and ev(r0) == ev(r2) == ['constexpr', 'bytes'], rule, 'kind0-vs-kind2:same-fields',
                   'kind 0 reads %r/%r, kind 2 reads %r/%r: they must differ only in the explicit memory index' % (taken(r0), ev(r0), taken(r2), ev(r2)), site)
        same = all(repr(s0[k]) == repr(s2[k]) for k in ('offset', 'bytes', 'passive')) and s0['passive'] == 0
        chk.expect(same, rule, 'kind0-vs-kind2:same-record',
                   'apart from the memory index the records differ: kind 0 %r vs kind 2 %r' % ({k: s0[k] for k in ('offset', 'bytes', 'passive')}, {k: s2[k] for k in ('offset', 'bytes', 'passive')}), site)
        chk.expect(s1['passive'] == 1 and ev(r1) == ['bytes'] and taken(r1) == ['u32'], rule, 'kind1:passive',
                   'kind 1 (passive) yields passive=%r reading %r/%r' % (s1['passive'], taken(r1), ev(r1)), site)


# ---- R08.6 ----------------------------------------------------------------------------------------

def check_absent_is_empty(chk, tu, funcs):
    f = tu.functions.get('wasmModuleRead')
    chk.require(f is not None, 'anchor wasmModuleRead not found')
    body = astdb.fn_body(f)
    allocs = []
    for n in walk(body):
        if n.get('kind') == 'BinaryOperator' and n.get('opcode') == '=' and astdb.expr_text(strip(kids(n)[0])) == 'module':
            r = strip(kids(n)[1], casts=True)
            if r.get('kind') == 'CallExpr':
                allocs.append((astdb.callee_name(r), [astdb.expr_text(strip(a, casts=True)) for a in astdb.call_args(r)], n))
    chk.require(allocs, 'allocation of the module record not found in wasmModuleRead')
    for cn, args, n in allocs:
        zero = cn == 'calloc' and any('sizeof(WasmModule)' in a or 'sizeof(struct WasmModule)' in a for a in args)
        if cn == 'malloc':
            zero = any(c.get('kind') == 'CallExpr' and astdb.callee_name(c) == 'memset' and astdb.expr_text(strip(astdb.call_args(c)[0], casts=True)) == 'module'
                       and astdb.const_int(astdb.call_args(c)[1]) == 0 and 'sizeof' in astdb.expr_text(astdb.call_args(c)[2]) for c in walk(body))
        chk.expect(zero, 'R08.6', 'module-zero-initialised',
                   'the module record is allocated with %s(%s) without zero-initialisation: arrays and counts of absent sections would be garbage'
                   % (cn, ', '.join(args)), 'wasmModuleRead:allocation', astdb.loc_str(n))
    # loops over module arrays use the sibling count
    n_loops = 0
    for t, fd in funcs:
        body = astdb.fn_body(fd)
        inits = {}
        for d in walk(body):
            if d.get('kind') == 'VarDecl' and d.get('init') and d.get('name'):
                ini = [c for c in kids(d) if c.get('kind')][-1]
                inits.setdefault(d['name'], []).append(astdb.expr_text(strip(ini, casts=True)))
        assigned = set()
        for a in walk(body):
            if a.get('kind') in ('BinaryOperator', 'CompoundAssignOperator') and (a.get('opcode') == '=' or a.get('kind') == 'CompoundAssignOperator'):
                l = strip(kids(a)[0])
                if l.get('kind') == 'DeclRefExpr':
                    assigned.add(l['referencedDecl'].get('name'))

        def resolve(txt):
            """replace a never-reassigned local by its initialiser"""
            for _ in range(3):
                m = re.fullmatch(r'\w+', txt)
                if m and txt in inits and len(inits[txt]) == 1 and txt not in assigned:
                    txt = inits[txt][0]
                else:
                    break
            m = re.fullmatch(r'assertSizeU32\((.*)\)', txt)
            return m.group(1) if m else txt

        def resolve_owner(txt):
            m = re.match(r'(\w+)(.*)$', txt)
            if m and m.group(1) in inits and len(inits[m.group(1)]) == 1 and m.group(1) not in assigned:
                return inits[m.group(1)][0] + m.group(2)
            return txt
        for loop in walk(body):
            if loop.get('kind') != 'ForStmt':
                continue
            cond = loop['inner'][2]
            if cond.get('kind') != 'BinaryOperator' or cond.get('opcode') != '<':
                continue
            iv = strip(kids(cond)[0], casts=True)
            if iv.get('kind') != 'DeclRefExpr':
                continue
            iname = iv['referencedDecl'].get('name')
            btxt = resolve(astdb.expr_text(strip(kids(cond)[1], casts=True)))
            bm = re.fullmatch(r'(.+)(\.|->)(count|length)', btxt)
            if not bm:
                continue
            for sub in walk(loop['inner'][4]):
                if sub.get('kind') != 'ArraySubscriptExpr':
                    continue
                idx = strip(kids(sub)[1], casts=True)
                if idx.get('kind') != 'DeclRefExpr' or idx['referencedDecl'].get('name') != iname:
                    continue
                base = strip(kids(sub)[0], casts=True)
                if base.get('kind') != 'MemberExpr':
                    continue
                owner = resolve_owner(astdb.expr_text(strip(kids(base)[0])))
                orec = c10.record_of(kids(base)[0], t)
                if not re.match(r'Wasm\w+s$|WasmNames$|WasmFunctionIDs$', orec) or orec in ('WasmLocalsDeclarations',):
                    continue
                n_loops += 1
                chk.expect(owner == resolve_owner(bm.group(1)), 'R08.6', '%s:loop-bound:%s' % (fd['name'], owner),
                           '%s iterates %s[%s] while %s < %s: the bound belongs to a different container than the array, so an absent or shorter '
                           'section is read out of bounds' % (fd['name'], astdb.expr_text(base), iname, iname, btxt), '%s:foreign-bound' % fd['name'], astdb.loc_str(sub))
    return n_loops


# ---- R08.7 ----------------------------------------------------------------------------------------

def check_immediate_decoders(chk):
    from .. import oracle, templates, memrules as mr
    from . import c01, c03, c11
    tus = emit.translator_tus(('c.c', 'opcode.c', 'instruction.c'), chk=chk)
    it = emit.make_interp(tus)
    n = 0

    def run_one(label, site, fn, want_tags=None):
        try:
            tpls = fn()
        except pe.PEError as e:
            if not isinstance(e, emit.ScriptMismatch):
                raise AnalysisBroken('R08.7 %s: %s' % (label, e))
            # the translator reads this immediate with a decoder of another type: decided on bytes (minimal vs padded encodings)
            emit.decide_mismatch(chk, 'R08.7', label, e, site, '%s: ' % label)
            return
        good = [t for t in tpls if t.ok]
        if not good:
            chk.note('R08.7 %s: no successful emission path (decided by the owning property)' % label)
            return
        for t in good:
            tags = [tag for tag, v in t.log if v != 'EOF']
            if want_tags is not None:
                chk.expect(tags[:len(want_tags)] == want_tags, 'R08.7', label,
                           '%s consumes %r from the code stream; the binary format lists %r' % (label, tags, want_tags), site)
            else:
                chk.ok('R08.7', label, repr(tags))
    for row in oracle.ROWS:
        cls = row['sem'].get('cls')
        if cls in c11.SKIP_CLS:
            continue
        imm = c11.BULK_IMM.get(row['name'])
        if cls == 'const':
            imm = {'imm0': 1234}
        elif 'access' in row['sem'] and cls.startswith('atomic.'):
            imm = {'align': oracle.natural_align(row['sem']['access']), 'offset': 8}
        toks = templates.tokens_for(row, imm, True)
        want = [t for t, v in toks][:-1]
        n += 1
        run_one(row['name'], 'decode/' + row['name'],
                lambda row=row, imm=imm: templates.extract(it, row, mr.FILLER + row['params'], 0, 0, imm=imm), want)
    S = c03.script
    c = c03.const
    V = oracle.VALTYPE_ENC
    scripts = {
        'br': S(('block', {'imm0': oracle.BLOCKTYPE_VOID}), ('br', {'imm0': 0}), 'end'),
        'br_if': S(('block', {'imm0': oracle.BLOCKTYPE_VOID}), c('i32', 1), ('br_if', {'imm0': 0}), 'end'),
        'br_table': S(('block', {'imm0': oracle.BLOCKTYPE_VOID}), c('i32', 0), ('br_table', {'labels': [0, 0], 'default': 0}), 'end'),
        'block/loop/if': S(('block', {'imm0': V['i32']}), c('i32', 1), ('if', {'imm0': V['i32']}), c('i32', 2), 'else', c('i32', 3), 'end', 'end'),
        'select': S(c('i32', 1), c('i32', 2), c('i32', 0), 'select'),
    }
    for name, toks in scripts.items():
        n += 1
        run_one(name, 'decode/' + name, lambda toks=toks: c03.run_script(it, toks, ['i64']), [t for t, v in toks])
    module, function = c03.local_context(it)
    for name, stack in (('local.get', ['i64']), ('local.set', ['i64', 'i32']), ('local.tee', ['i64', 'i32'])):
        toks = S((name, {'imm0': 0}))
        n += 1
        run_one(name, 'decode/' + name, lambda toks=toks, stack=stack: c03.run_script(it, toks, stack, module=module, function=function), [t for t, v in toks])
    from .. import modules as M
    gm = lambda interp: M.build(interp, types=[([], [])], functions=[0], globals_=[('i32', True, M.i32_const(1))], tables=[(1, 2, False)])
    for name, stack, imm in (('global.get', ['i64'], {'imm0': 0}), ('global.set', ['i64', 'i32'], {'imm0': 0}), ('call', ['i64'], {'imm0': 0}),
                             ('call_indirect', ['i64', 'i32'], {'typeidx': 0, 'tableidx': 0})):
        toks = S((name, imm))
        n += 1
        run_one(name, 'decode/' + name, lambda toks=toks, stack=stack: c03.run_script(it, toks, stack, module=gm), [t for t, v in toks])
    return n


# ---- R08.8 ----------------------------------------------------------------------------------------

def check_section_grammar(chk, tu, rule='R08.8', only=None):
    B = lambda v: ('byte', v)
    U = lambda v: ('u32', v)
    I = lambda v: ('i32', v)
    N = lambda s_: ('name', s_)
    CE = ('constexpr', 0)
    VT = {'i32': -1, 'i64': -2, 'f32': -3, 'f64': -4}
    vt_enum = {k: tu.enums.get('wasmValueType' + k.upper()) for k in VT}
    chk.require(all(v is not None for v in vt_enum.values()), 'enum WasmValueType not found')

    def name_leaf(interp, args, node):
        v = interp.path.state['stream'].take('name')
        if v is None:
            return 0
        interp.store(args[1].c, args[1].k, v)
        return 1

    def constexpr_leaf(interp, args, node):
        v = interp.path.state['stream'].take('constexpr')
        return 0 if v is None else 1

    def run(fn, toks, pre=None):
        leafs = dict(emit.base_leafs())
        leafs.update(emit.stream_leafs(lambda i: i.path.state['stream']))
        leafs.update({'wasmReadName': name_leaf, 'wasmReadConstantExpr': constexpr_leaf})
        it = pe.Interp([tu], leafs)
        it.loop_abort = True

        def setup():
            mod = it.zero_init('struct WasmModule')
            if pre:
                pre(mod, it)
            rd = {'v': {'buffer': {'data': unk('data'), 'length': unk('len')}, 'module': Ptr({'m': mod}, 'm'), 'debug': 0}}
            err = {'v': unk('err')}
            return (fn, [Ptr(rd, 'v'), 0, Ptr(err, 'v')], {'stream': emit.Stream(toks), 'mod': mod, 'err': err})
        paths = [p for p in it.explore(setup) if not p.aborted]
        return paths

    def section_bytes(toks, padded):
        from .. import bytedecode
        out = []
        for t, v in toks:
            if t == 'name':
                out += bytedecode.encode([('u32', len(v))], padded) + [ord(ch) for ch in v]
            elif t == 'constexpr':
                out += [0x41] + bytedecode.encode([('i32', 0)], padded) + [0x0B]
            else:
                out += bytedecode.encode([(t, v & 0xFFFFFFFF if t == 'i32' else v)], padded)
        return out

    def run_bytes(fn, toks, pre, padded):
        """the section reader on the real bytes of the token script, with the real decoders (only names and constant expressions are
        modelled: a name is a LEB128 length and that many bytes, a constant expression ends at its 0x0B)"""
        raw = section_bytes(toks, padded)

        def take_u32(interp, b):
            # decode one (possibly padded) unsigned LEB128 from the buffer record b
            val = shift = 0
            while True:
                if b['length'] <= 0:
                    return None
                byte = interp.load(b['data'].c, b['data'].k)
                b['data'] = Ptr(b['data'].c, b['data'].k + 1)
                b['length'] -= 1
                val |= (byte & 0x7F) << shift
                shift += 7
                if not byte & 0x80:
                    return val

        def name_bytes(interp, args, node):
            b = interp.load(args[0].c, args[0].k)
            n_ = take_u32(interp, b)
            if n_ is None or n_ > b['length']:
                return 0
            text = ''.join(chr(interp.load(b['data'].c, b['data'].k + i)) for i in range(n_))
            b['data'] = Ptr(b['data'].c, b['data'].k + n_)
            b['length'] -= n_
            interp.store(args[1].c, args[1].k, text)
            return 1

        def constexpr_bytes(interp, args, node):
            b = interp.load(args[0].c, args[0].k)
            while b['length'] > 0:
                byte = interp.load(b['data'].c, b['data'].k)
                b['data'] = Ptr(b['data'].c, b['data'].k + 1)
                b['length'] -= 1
                if byte == 0x0B:
                    return 1
            return 0
        leafs = dict(emit.base_leafs())
        leafs.update({'wasmReadName': name_bytes, 'wasmReadConstantExpr': constexpr_bytes})
        it = pe.Interp([tu], leafs)
        it.loop_abort = True

        def setup():
            mod = it.zero_init('struct WasmModule')
            if pre:
                pre(mod, it)
            rd = {'v': {'buffer': {'data': Ptr(list(raw) + [0, 0, 0, 0], 0), 'length': len(raw)}, 'module': Ptr({'m': mod}, 'm'), 'debug': 0}}
            err = {'v': unk('err')}
            return (fn, [Ptr(rd, 'v'), 0, Ptr(err, 'v')], {'mod': mod, 'err': err, 'rd': rd})
        paths = [p for p in it.explore(setup) if not p.aborted]
        return paths, raw

    def arr(p, n):
        if isinstance(p, Ptr) and isinstance(p.c, list):
            return p.c[p.k:p.k + n]
        return None

    def pick(rec, keys):
        out = {}
        for k in keys:
            v = rec
            for part in k.split('.'):
                v = v.get(part) if isinstance(v, dict) else None
            out[k] = v
        return out

    def pre_counts(types=0, functions=0, func_imports=0):
        def pre(mod, it):
            if func_imports:
                mod['functionImports'] = {'length': func_imports, 'capacity': func_imports,
                                          'imports': Ptr([{'module': 'env', 'name': 'imp%d' % k_, 'functionTypeIndex': 0} for k_ in range(func_imports)], 0)}
            mod['functionTypes'] = {'functionTypes': Ptr([it.zero_init('struct WasmFunctionType') for _ in range(types)], 0) if types else 0, 'count': types}
            mod['functions'] = {'functions': Ptr([it.zero_init('struct WasmFunction') for _ in range(functions)], 0) if functions else 0, 'count': functions}
        return pre
    U32MAX = 0xFFFFFFFF
    cases = [
        ('wasmReadTypeSection', [U(2), B(0x60), U(2), I(VT['i32']), I(VT['f64']), U(1), I(VT['f32']), B(0x60), U(0), U(0)], None,
         lambda m: [pick(t, ['parameterCount', 'resultCount']) for t in arr(m['functionTypes']['functionTypes'], m['functionTypes']['count']) or []] +
                   [arr(t['parameterTypes'], t['parameterCount']) for t in arr(m['functionTypes']['functionTypes'], 1) or []] +
                   [arr(t['resultTypes'], t['resultCount']) for t in arr(m['functionTypes']['functionTypes'], 1) or []],
         [{'parameterCount': 2, 'resultCount': 1}, {'parameterCount': 0, 'resultCount': 0}, [vt_enum['i32'], vt_enum['f64']], [vt_enum['f32']]]),
        ('wasmReadImportSection', [U(4), N('m0'), N('f'), B(0), U(3), N('m1'), N('t'), B(1), B(0x70), B(1), U(2), U(9),
                                   N('m2'), N('mem'), B(2), B(3), U(1), U(4), N('m3'), N('g'), B(3), I(VT['i64']), B(1)], pre_counts(types=5),
         lambda m: [pick(arr(m['functionImports']['imports'], 1)[0], ['module', 'name', 'functionTypeIndex']) if m['functionImports']['length'] == 1 else None,
                    pick(arr(m['tableImports']['imports'], 1)[0], ['module', 'name', 'min', 'max', 'shared']) if m['tableImports']['length'] == 1 else None,
                    pick(arr(m['memoryImports']['imports'], 1)[0], ['module', 'name', 'min', 'max', 'shared']) if m['memoryImports']['length'] == 1 else None,
                    pick(arr(m['globalImports']['imports'], 1)[0], ['module', 'name', 'globalType.valueType', 'globalType.mutable']) if m['globalImports']['length'] == 1 else None],
         [{'module': 'm0', 'name': 'f', 'functionTypeIndex': 3}, {'module': 'm1', 'name': 't', 'min': 2, 'max': 9, 'shared': 0},
          {'module': 'm2', 'name': 'mem', 'min': 1, 'max': 4, 'shared': 1},
          {'module': 'm3', 'name': 'g', 'globalType.valueType': vt_enum['i64'], 'globalType.mutable': 1}]),
        # the same host function imported twice (and a third import after them): every import entry occupies its own slot of the function
        # index space - calls, exports, element segments and the start function address the entries by position
        ('wasmReadImportSection', [U(3), N('env'), N('inc'), B(0), U(1), N('env'), N('inc'), B(0), U(1), N('env'), N('dbl'), B(0), U(1)], pre_counts(types=5),
         lambda m: [m['functionImports']['length']] + [pick(x, ['module', 'name', 'functionTypeIndex']) for x in
                                                       arr(m['functionImports']['imports'], m['functionImports']['length']) or []],
         [3, {'module': 'env', 'name': 'inc', 'functionTypeIndex': 1}, {'module': 'env', 'name': 'inc', 'functionTypeIndex': 1},
          {'module': 'env', 'name': 'dbl', 'functionTypeIndex': 1}]),
        ('wasmReadFunctionSection', [U(3), U(4), U(0), U(2)], pre_counts(types=5),
         lambda m: [m['functions']['count']] + [f['functionTypeIndex'] for f in arr(m['functions']['functions'], m['functions']['count']) or []],
         [3, 4, 0, 2]),
        ('wasmReadTableSection', [U(2), B(0x70), B(0), U(5), B(0x70), B(1), U(1), U(7)], None,
         lambda m: [m['tables']['count']] + [pick(t, ['min', 'max', 'shared']) for t in arr(m['tables']['tables'], m['tables']['count']) or []],
         [2, {'min': 5, 'max': U32MAX, 'shared': 0}, {'min': 1, 'max': 7, 'shared': 0}]),
        ('wasmReadMemorySection', [U(2), B(0), U(3), B(3), U(1), U(2)], None,
         lambda m: [m['memories']['count']] + [pick(t, ['min', 'max', 'shared']) for t in arr(m['memories']['memories'], m['memories']['count']) or []],
         [2, {'min': 3, 'max': 65535, 'shared': 0}, {'min': 1, 'max': 2, 'shared': 1}]),
        # limits whose maximum equals the minimum (a memory that can never grow), a zero-sized memory with a zero maximum, the largest limits
        ('wasmReadMemorySection', [U(3), B(1), U(2), U(2), B(1), U(0), U(0), B(3), U(65536), U(65536)], None,
         lambda m: [m['memories']['count']] + [pick(t, ['min', 'max', 'shared']) for t in arr(m['memories']['memories'], m['memories']['count']) or []],
         [3, {'min': 2, 'max': 2, 'shared': 0}, {'min': 0, 'max': 0, 'shared': 0}, {'min': 65536, 'max': 65536, 'shared': 1}]),
        ('wasmReadTableSection', [U(2), B(0x70), B(1), U(4), U(4), B(0x70), B(1), U(0), U(0)], None,
         lambda m: [m['tables']['count']] + [pick(t, ['min', 'max', 'shared']) for t in arr(m['tables']['tables'], m['tables']['count']) or []],
         [2, {'min': 4, 'max': 4, 'shared': 0}, {'min': 0, 'max': 0, 'shared': 0}]),
        ('wasmReadGlobalSection', [U(2), I(VT['f32']), B(0), CE, I(VT['i32']), B(1), CE], None,
         lambda m: [m['globals']['count']] + [pick(g, ['type.valueType', 'type.mutable']) for g in arr(m['globals']['globals'], m['globals']['count']) or []],
         [2, {'type.valueType': vt_enum['f32'], 'type.mutable': 0}, {'type.valueType': vt_enum['i32'], 'type.mutable': 1}]),
        ('wasmReadExportSection', [U(3), N('a'), B(0), U(1), N('mem'), B(2), U(0), N('g'), B(3), U(0)], pre_counts(types=1, functions=2),
         lambda m: [m['exports']['count']] + [pick(e, ['name', 'kind', 'index']) for e in arr(m['exports']['exports'], m['exports']['count']) or []] +
                   [f.get('exportName') for f in arr(m['functions']['functions'], 2) or []],
         [3, {'name': 'a', 'kind': 0, 'index': 1}, {'name': 'mem', 'kind': 2, 'index': 0}, {'name': 'g', 'kind': 3, 'index': 0}, 0, 'a']),
        # the export of the first defined function (index = number of function imports, here 0 and 2), of a later one, and of an import
        ('wasmReadExportSection', [U(2), N('b'), B(0), U(0), N('a'), B(0), U(1)], pre_counts(types=1, functions=2),
         lambda m: [m['exports']['count']] + [f.get('exportName') for f in arr(m['functions']['functions'], 2) or []], [2, 'b', 'a']),
        ('wasmReadExportSection', [U(3), N('first'), B(0), U(2), N('imp'), B(0), U(1), N('last'), B(0), U(4)],
         pre_counts(types=1, functions=3, func_imports=2),
         lambda m: [m['exports']['count']] + [f.get('exportName') for f in arr(m['functions']['functions'], 3) or []], [3, 'first', 0, 'last']),
        ('wasmReadStartSection', [U(1)], pre_counts(types=1, functions=2),
         lambda m: [m['startFunctionIndex'], m['hasStartFunction']], [1, 1]),
        ('wasmReadElementSection', [U(2), U(0), CE, U(3), U(2), U(0), U(1), U(0), CE, U(0)], pre_counts(types=1, functions=3),
         lambda m: [m['elementSegments']['count']] + [pick(e, ['tableIndex', 'functionIndexCount']) for e in arr(m['elementSegments']['elementSegments'], m['elementSegments']['count']) or []] +
                   [arr(e['functionIndices'], e['functionIndexCount']) for e in arr(m['elementSegments']['elementSegments'], 1) or []],
         [2, {'tableIndex': 0, 'functionIndexCount': 3}, {'tableIndex': 0, 'functionIndexCount': 0}, [2, 0, 1]]),
        ('wasmReadDataCountSection', [U(3)], None, lambda m: [m['dataSegments']['count']], [0]),
    ]
    n = 0
    seen_fn = {}
    for fn, toks, pre, view, want in cases:
        seen_fn[fn] = seen_fn.get(fn, 0) + 1
        tag = fn if seen_fn[fn] == 1 else '%s#%d' % (fn, seen_fn[fn])
        if only is not None and tag not in only:
            continue
        chk.require(fn in tu.functions, 'section reader %s not found' % fn)
        chk.fn(fn)
        site = fn + ':grammar'
        n += 1
        # byte level (second decision, and the decision when the token model does not fit): the reader on the real bytes of the script,
        # minimal and padded LEB128 encodings - both accepted, both decoded to the module the grammar prescribes, all bytes consumed
        byte_bad = None
        for padded in (False, True):
            try:
                bps, raw = run_bytes(fn, toks, pre, padded)
            except pe.PEError as e:
                raise AnalysisBroken('R08.8 %s on bytes: %s' % (fn, e))
            okb = [p for p in bps if p.state['err']['v'] == 0]
            enc_ = '%s encoding %s' % ('padded' if padded else 'minimal', ' '.join('%02x' % x for x in raw))
            if len(okb) != 1:
                byte_bad = '%s rejects the %s of a valid section (%d paths, %d successful)' % (fn, enc_, len(bps), len(okb))
                break
            left = okb[0].state['rd']['v']['buffer']['length']
            try:
                gotb = view(okb[0].state['mod'])
            except Exception as e:
                gotb = 'unreadable (%s)' % e
            if gotb != want or left != 0:
                byte_bad = '%s reads the %s as %r with %r bytes left; the binary grammar gives %r' % (fn, enc_, gotb, left, want)
                break
        chk.expect(byte_bad is None, rule, tag + ':bytes', '%s' % byte_bad, site,
                   detail_ok='minimal and padded byte encodings of the section decode to the module the grammar prescribes')
        try:
            paths = run(fn, toks, pre)
        except emit.ScriptMismatch as e:
            import re as _re
            mm = _re.search(r'asked for (\w+) but the (?:next immediate of the instruction is|buffer holds) (\w+)', str(e))
            leb = ('u32', 'i32', 'u64', 'i64')
            if mm and mm.group(1) in leb and mm.group(2) in leb:
                # signed vs unsigned / 32 vs 64 bits: some valid encodings decode to another value (e.g. a count of 64..127 read as signed
                # is negative)
                chk.fail(rule, tag + ':decoders', '%s: %s - the two LEB128 kinds decode some valid encodings to different values '
                         '(token script of the section grammar: %r)' % (fn, e, toks), site)
            elif byte_bad is None:
                chk.undecide('%s: %s - outside the token model of the decoders; the byte-level evaluation of the section agrees with the grammar' % (fn, e))
            continue
        except pe.PEError as e:
            raise AnalysisBroken('R08.8 %s: %s' % (fn, e))
        ok_paths = [p for p in paths if p.state['err']['v'] == 0]
        if not chk.expect(len(ok_paths) == 1, rule, tag + ':accepts',
                          '%s does not accept a valid section (%d paths, %d successful): %r' % (fn, len(paths), len(ok_paths), toks), site):
            continue
        p = ok_paths[0]
        chk.expect(p.state['stream'].pos == len(toks), rule, tag + ':consumes-all',
                   '%s consumed %d of %d tokens of the section: %r' % (fn, p.state['stream'].pos, len(toks), p.state['stream'].log), site)
        try:
            got = view(p.state['mod'])
        except Exception as e:         # the record no longer has the expected shape
            got = 'unreadable (%s)' % e
        chk.expect(got == want, rule, tag + ':decoded-module',
                   '%s builds %r from the section %r; the binary grammar gives %r' % (fn, got, toks, want), site)
    return n


# ---- R08.10 ---------------------------------------------------------------------------------------

def check_section_sequences(chk, tu):
    """every section sequence the binary format permits is accepted: wasmModuleRead is partially evaluated on concrete byte images
    (magic, version, then sections with zero-filled payloads) in which the section readers themselves are replaced by "consume the
    declared size"; the read must succeed, call the readers of exactly the non-custom sections in file order, and consume the file.
    The format's order is by *position*, not by id: DataCount (12) sits between Element (9) and Code (10); custom sections (0) may
    appear anywhere, repeatedly"""
    from .. import pe
    from ..pe import Ptr, unk
    ORDER = [1, 2, 3, 4, 5, 6, 7, 8, 9, 12, 10, 11]
    seqs = {
        'empty': [],
        'all-sections': ORDER,
        'without-datacount': [x for x in ORDER if x != 12],
        'bulk-memory': [1, 3, 5, 12, 10, 11],
        'datacount-then-data-only': [5, 12, 11],
        'customs-everywhere': [0] + [y for x in ORDER for y in (x, 0)] + [0],
        'only-customs': [0, 0, 0],
        'sparse': [1, 3, 7, 10],
        'start-and-element': [1, 3, 4, 8, 9, 10],
        'custom-between-datacount-and-code': [1, 3, 5, 12, 0, 10, 0, 11, 0],
    }
    if chk.tier == 'thorough':
        # every subset of the sections in positional order (4096 sequences), and each of them with a custom section between all neighbours
        import itertools
        for r_ in range(0, len(ORDER) + 1):
            for sub in itertools.combinations(ORDER, r_):
                seqs['subset:' + ','.join(map(str, sub))] = list(sub)
        for r_ in (3, 6, 9):
            for sub in list(itertools.combinations(ORDER, r_))[::7]:
                seqs['customs:' + ','.join(map(str, sub))] = [0] + [y for x in sub for y in (x, 0)]
    vd = tu.vars.get('wasmSectionReaders')
    init = [c for c in kids(vd) if c.get('kind') == 'InitListExpr'][0]
    readers = {}
    for sid, e in enumerate(kids(init)):
        e0 = strip(e, casts=True)
        if e0.get('kind') == 'DeclRefExpr':
            readers[e0['referencedDecl'].get('name')] = sid
    chk.require(len(readers) >= 12, 'only %d section readers in the dispatch table' % len(readers))
    n = 0
    for label, seq in sorted(seqs.items()):
        image = [0x00, 0x61, 0x73, 0x6D, 0x01, 0x00, 0x00, 0x00]
        for k, sid in enumerate(seq):
            size = 3 + (k % 3)
            payload = [0] * size
            if sid == 0:
                payload = [2, 0x78, 0x79] + [0] * (size - 3)      # custom section: name "xy"
            image += [sid, size] + payload
        called = []

        def reader_leaf(sid):
            def f(interp, args, node):
                called.append(sid)
                rd, size = args[0], args[1]
                r = interp.load(rd.c, rd.k)
                buf = r['buffer']
                if not isinstance(size, int) or not isinstance(buf['data'], Ptr):
                    raise pe.PEError('section reader called with symbolic size')
                buf['data'] = Ptr(buf['data'].c, buf['data'].k + size)
                buf['length'] = buf['length'] - size
                err = args[2]
                interp.store(err.c, err.k, 0)
                return None
            return f
        leafs = {nm: reader_leaf(sid) for nm, sid in readers.items()}      # custom-section contents are R08.4's business
        leafs.update({'calloc': lambda i, a, nd: Ptr({'v': i.zero_init('struct WasmModule')}, 'v'), 'free': lambda i, a, nd: None,
                      'fprintf': lambda i, a, nd: 0, 'wasmParseDebugInfo': lambda i, a, nd: unk('debug-lines'),
                      'memcmp': lambda i, a, nd: 0 if all(i.load(a[0].c, a[0].k + j) == i.load(a[1].c, a[1].k + j) for j in range(a[2])) else 1,
                      'strncmp': lambda i, a, nd: 1, 'strcmp': lambda i, a, nd: 1, 'strlen': lambda i, a, nd: 0,
                      'malloc': lambda i, a, nd: Ptr([0] * (a[0] if isinstance(a[0], int) else 8), 0),
                      'memcpy': lambda i, a, nd: a[0], 'strncpy': lambda i, a, nd: a[0]})
        it = pe.Interp([tu], leafs, max_paths=64)
        it.cur_tu = tu
        errcell = {'v': unk('error-uninit')}
        rd = {'v': {'buffer': {'data': Ptr(list(image), 0), 'length': len(image)}, 'module': 0, 'debug': 0}}
        try:
            ps = [p for p in it.explore(lambda: ('wasmModuleRead', [Ptr(rd, 'v'), Ptr(errcell, 'v')], {'rd': rd, 'err': errcell})) if not p.aborted]
        except pe.PEError as e:
            raise AnalysisBroken('wasmModuleRead on the section sequence %s: %s' % (label, e))
        if not chk.expect(len(ps) == 1, 'R08.10', 'sequence:' + label, 'wasmModuleRead has %d paths on a concrete file' % len(ps),
                          'wasmModuleRead:sequences'):
            continue
        n += 1
        p = ps[0]
        err = p.state['err']['v']
        want = list(seq)
        left = p.state['rd']['v']['buffer']['length']
        chk.expect(err == 0 and called == want and left == 0, 'R08.10', 'sequence:' + label,
                   'the section sequence %r (valid: sections in the format\'s positional order, custom sections anywhere) %s; readers called '
                   'for %r, expected %r; %r bytes left unread' % (
                       seq, 'is rejected with an error' if err != 0 else 'is accepted', called, want, left),
                   'wasmModuleRead:sequences')
    return n


# ---- R08.11 ---------------------------------------------------------------------------------------

def check_empty_vectors(chk, tu):
    """present-but-empty equals absent: a section whose vector has 0 entries decodes to the same module as leaving the section out,
    so every combination of {omitted, present with count 0} must be accepted.  wasmModuleRead is evaluated with the *real* section
    readers on concrete files, once with calloc(0, n) returning a unique non-NULL pointer and once returning NULL (both are allowed)"""
    from .. import pe
    from ..pe import Ptr, unk
    combos = {
        'code-only': [10], 'function-only': [3], 'function+code': [3, 10], 'type-only': [1], 'import-only': [2], 'table-only': [4],
        'memory-only': [5], 'global-only': [6], 'export-only': [7], 'element-only': [9], 'data-only': [11],
        'datacount0+data': [12, 11], 'all-empty': [1, 2, 3, 4, 5, 6, 7, 9, 12, 10, 11], 'types+code': [1, 10], 'all-but-function': [1, 2, 4, 5, 6, 7, 9, 10, 11],
    }
    n = 0
    for zero_null in (False,):     # analysed target: calloc(0, n) returns a unique pointer (glibc); with NULL the readers report an
        # allocation failure for empty vectors - noted in DESIGN.md as a portability observation, outside the analysed configuration
        for label, seq in sorted(combos.items()):
            image = [0x00, 0x61, 0x73, 0x6D, 0x01, 0x00, 0x00, 0x00]
            for sid in seq:
                image += [sid, 1, 0]

            def calloc(interp, args, node):
                a_, b_ = args[0], args[1]
                if not isinstance(a_, int) or not isinstance(b_, int):
                    raise pe.PEError('calloc with symbolic size')
                if a_ * b_ == 0:
                    return 0 if zero_null else Ptr([], 0)
                return Ptr({'v': interp.zero_init('struct WasmModule')}, 'v') if a_ == 1 and b_ > 200 else Ptr([0] * (a_ * b_), 0)
            leafs = {'calloc': calloc, 'malloc': lambda i, a, nd: Ptr([0] * a[0], 0) if isinstance(a[0], int) and a[0] else (0 if zero_null else Ptr([], 0)),
                     'free': lambda i, a, nd: None, 'fprintf': lambda i, a, nd: 0, 'wasmParseDebugInfo': lambda i, a, nd: unk('debug-lines'),
                     'realloc': lambda i, a, nd: a[0] if a[0] else Ptr([], 0),
                     'memcmp': lambda i, a, nd: 0 if all(i.load(a[0].c, a[0].k + j) == i.load(a[1].c, a[1].k + j) for j in range(a[2])) else 1}
            it = pe.Interp([tu], leafs, max_paths=64)
            it.cur_tu = tu
            errcell = {'v': unk('error-uninit')}
            rd = {'v': {'buffer': {'data': Ptr(list(image), 0), 'length': len(image)}, 'module': 0, 'debug': 0}}
            inst = 'empty:%s%s' % (label, ',calloc0=NULL' if zero_null else '')
            try:
                ps = [p for p in it.explore(lambda: ('wasmModuleRead', [Ptr(rd, 'v'), Ptr(errcell, 'v')], {'rd': rd, 'err': errcell})) if not p.aborted]
            except pe.PEError as e:
                raise AnalysisBroken('wasmModuleRead on the empty-vector file %s: %s' % (label, e))
            if not chk.expect(len(ps) == 1, 'R08.11', inst, 'wasmModuleRead has %d paths on a concrete file' % len(ps), 'wasmModuleRead:empty-vectors'):
                continue
            n += 1
            err = ps[0].state['err']['v']
            left = ps[0].state['rd']['v']['buffer']['length']
            chk.expect(err == 0 and left == 0, 'R08.11', inst,
                       'a module whose sections %r are present with zero entries (all others omitted)%s is %s; it decodes to the empty module exactly '
                       'like the file without these sections and must be accepted' % (
                           seq, ' (calloc(0) returning NULL)' if zero_null else '', 'rejected' if err != 0 else 'not read to the end (%r bytes left)' % left),
                       'wasmModuleRead:empty-vectors')
    return n


def run(chk):
    chk.explanation = (
        'Reader-side structural rules: (1) every call of a LEB128 decoder uses the returned byte count only as a truth value, so padding '
        'cannot leak into values; (2) the four decoders are partially evaluated on symbolic bytes for every encoding length and the '
        'resulting value expression is decomposed into (byte, mask, shift) terms and compared with the LEB128 definition, including '
        'sign extension - an exact decision for all byte values of all valid lengths; (3) dispatcher table against the section-id enum, '
        'consumed-length check on the success exit, skipping of unknown ids; (4) effect summary of everything reachable from the custom-'
        'section reader; (5) partial evaluation of the data-segment reader for kinds 0..3; (6) zero-initialised module record and sibling '
        'count bounds. Equality of complete outputs for all pairs of equivalent encodings is not decided.')
    chk.assumptions = ['module validity (indices in range)', 'calloc zero-initialises pointers to NULL']
    units = c10.load_units(chk)
    funcs = c10.all_functions(units)
    rtu = [u for u in units if u.path.endswith('reader.c')][0]
    n1 = check_count_never_data(chk, funcs)
    n2 = check_decoders(chk, rtu)
    check_dispatcher(chk, rtu)
    n4 = check_custom_inert(chk, rtu, funcs)
    check_segment_kinds(chk, rtu)
    n6 = check_absent_is_empty(chk, rtu, funcs)
    n7 = check_immediate_decoders(chk)
    n8 = check_section_grammar(chk, rtu)
    n9 = c10.check_exact_end(chk, 'R08.9')
    n10 = check_section_sequences(chk, rtu)
    n11 = check_empty_vectors(chk, rtu)
    # R08.13: equivalent encodings of a locals vector - a run of zero locals (`0 x i32`) declares nothing: a function whose locals vector
    # contains empty runs has the same local types as without them (typing of the locals decided on several shapes; rule shared with
    # C03 R03.5)
    from . import c03 as _c03, c01 as _c01
    tus3 = emit.translator_tus(('c.c', 'opcode.c', 'instruction.c'), chk=chk)
    it3 = emit.make_interp(tus3)
    tabs3 = _c01.read_type_tables(chk, tus3[0], it3, _c01.value_types(it3), 'R08.13')
    _c03.check_local_groups(chk, it3, tabs3, rule='R08.13')
    chk.floor('R08.13', 10)
    # R08.12: non-minimal LEB128 encodings are valid encodings - every instruction with immediates, translated with the real decoders
    # from its minimal and from a padded byte encoding (live and dead code), gives the same text, stack effect, result and consumes
    # the same instructions
    from .. import bytedecode
    bad, ncmp, nok = bytedecode.differential(chk.tier)
    chk.require(nok >= 200, 'byte-level differential: only %d of %d instruction encodings translate' % (nok, ncmp))
    for b_ in bad[:8]:
        chk.fail('R08.12', 'padded-leb:' + b_.split(':')[0], b_, 'immediate-decoders:bytes')
    if not bad:
        chk.ok('R08.12', 'padded-leb', '%d instruction encodings (live and dead code): minimal and padded LEB128 encodings of the same immediates '
               'translate identically' % ncmp)
    chk.floor('R08.12', 1)
    chk.floor('R08.11', 15)
    chk.floor('R08.10', 10)
    chk.extra['sites'] = dict(leb_call_sites=n1, decoder_paths=n2, custom_section_writes=n4, container_loops=n6, instructions_decoded=n7)
    chk.floor('R08.1', 60)
    chk.floor('R08.2', 60)
    chk.floor('R08.3', 28)
    chk.floor('R08.4', 3)
    chk.floor('R08.5', 8)
    chk.floor('R08.6', 10)
    chk.floor('R08.7', 180)
    chk.floor('R08.8', 28)
    chk.floor('R08.9', 20)
