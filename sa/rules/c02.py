"""C02  Floating-point arithmetic and numeric conversions survive translation.

R02.1/2  dispatch + stack effect (as R01.1/R01.2) for the 70 float / conversion encodings
R02.3    descriptors: C operators on the slot's own float type, libm semantic classes, single-rounding
         conversions, bit-copy reinterpretation
R02.4    min/max: decided over the finite abstraction {NaN, -inf, neg, -0, +0, pos, +inf}^2 x order
R02.3b   every float row is additionally evaluated bit-exactly (values as bit patterns: NaN payloads, signalling NaNs quieted by format
         conversions, signed zeros, correctly rounded arithmetic) on a grid of boundary operands against reference semantics
         (sa/floateval.py) - second decision for accepted rows, refutation engine for unrecognised shapes
R02.5    trapping / saturating truncation: exact boundary decision over the order abstraction induced by the
         guard constants and the specification bounds (every float adjacent to a breakpoint)
"""
from .. import astdb, oracle, semrules as sr
from ..astdb import AnalysisBroken
from . import c01

FLOAT_CLASSES = ('fcmp', 'fabs', 'fneg', 'fceil', 'ffloor', 'ftrunc', 'fnearest', 'fsqrt', 'fadd', 'fsub', 'fmul',
                 'fdiv', 'fmin', 'fmax', 'fcopysign', 'trunc', 'convert', 'demote', 'promote', 'reinterpret')


def float_rows():
    return [r for r in oracle.ROWS if r['sem'].get('cls') in FLOAT_CLASSES]


def make_matcher(chk):
    counters = {'points': 0}

    def m(row, rhs, ops, ctx):
        """descriptor match, then - independently of the shape - bit-exact evaluation on a grid of boundary operands against the
        reference semantics; a shape the descriptors do not know is refuted on the grid (violation with witness) or left undecided"""
        from .. import floateval as fe
        small = ctx.get('tier') != 'thorough'
        try:
            res = m0(row, rhs, ops, ctx)
        except AnalysisBroken as ex:
            bad = fe.refute_on_grid(row, rhs, ops, small)
            if bad is None:
                # not decided - the other rows still are (a violation elsewhere must not be hidden by this one)
                chk.undecide('%s (agrees with the specification on the boundary grid, which does not decide all operands)' % ex)
                return [], False
            return ['%s (shape not recognised: %s)' % (bad, str(ex)[:160])], True
        if not res[0]:
            try:
                bad = fe.refute_on_grid(row, rhs, ops, small)
            except AnalysisBroken as ex:
                chk.note('%s: grid evaluation not applicable (%s)' % (row['name'], ex))
                bad = None
            counters['grid'] = counters.get('grid', 0) + 1
            if bad:
                return ['descriptor accepted the template but %s' % bad], True
        return res

    def m0(row, rhs, ops, ctx):
        cls = row['sem']['cls']
        if cls in ('fadd', 'fsub', 'fmul', 'fdiv'):
            return sr.descr_farith(row, rhs, ops), True
        if cls == 'fcmp':
            return sr.descr_fcmp(row, rhs, ops), True
        if cls == 'fneg':
            return sr.descr_fneg(row, rhs, ops), True
        if cls in sr.LIBM:
            return sr.descr_libm(row, rhs, ops), True
        if cls in ('promote', 'demote', 'convert'):
            return sr.descr_fconv(row, rhs, ops), True
        if cls == 'reinterpret':
            return sr.descr_reinterpret(row, rhs, ops, ctx['tu']), True
        if cls in ('fmin', 'fmax'):
            probs, n = sr.descr_fminmax(row, rhs, ops)
            counters['points'] += n
            return probs, True, 'R02.4'
        if cls == 'trunc':
            probs, n = sr.descr_trunc(row, rhs, ops)
            counters['points'] += n
            return probs, True, 'R02.5'
        raise AnalysisBroken('no matcher for class %s' % cls)
    return m, counters


def run(chk):
    chk.explanation = (
        'Per float/conversion encoding the emitted statement is extracted by partial evaluation and parsed against the '
        'current w2c2_base.h. Arithmetic/comparison/libm/conversion rows are decided by a typed descriptor (operator, '
        'operand order, float type, libm semantic class, single rounding, bit-copy body). min/max and the trapping and '
        'saturating truncations are decided exactly by evaluating the expanded conditional chain on a finite, complete '
        'abstraction: float classes x order for min/max, and every float adjacent to a guard constant or a specification '
        'bound for truncation (the guards are monotone step functions of the operand). Host IEEE arithmetic is assumed.')
    chk.assumptions = [
        'host float/double are IEEE-754 binary32/binary64, round-to-nearest-even, no excess precision',
        'libm functions of the accepted classes are correctly rounded / exact as ISO C Annex F requires',
        'C compiler preserves NaN payloads for unary minus, fabs, copysign and moves',
        'conversion of U64 to float rounds to nearest (implementation-defined direction in ISO C; marked TODO upstream)',
    ]
    rows = float_rows()
    chk.require(len(rows) == 70, 'oracle lists %d float/conversion rows, expected 70' % len(rows))
    configs = [(0, 0), (1, 0)] if chk.tier == 'quick' else [(0, 0), (1, 0), (0, 1), (1, 1)]
    matcher, counters = make_matcher(chk)
    c01.run_rows(chk, rows, configs, matcher, 'R02', chk.tier, [('default', []), ('ndebug', ['-DNDEBUG', '-D__OPTIMIZE__=1'])])
    # R02.7: float constants are values like any other: zeros, infinities, subnormals and NaNs of both signs written by the literal
    # writer arrive bit-exact in their slot (concrete bit-pattern family shared with C07 R07.1, which owns the classification)
    from . import c07
    from .. import emit
    tus7 = emit.translator_tus(('c.c', 'opcode.c', 'instruction.c', 'stringbuilder.c'), chk=chk)
    it7 = emit.make_interp(tus7)
    vts7 = c07.decode_valuetypes(it7)
    for tname in ('f32', 'f64'):
        bad = c07.concrete_literal_family(it7, tname, vts7[tname])
        chk.expect(not bad, 'R02.7', tname + ':constants-bit-exact', '%s constants: %s' % (tname, bad), 'wasmCWriteLiteral/' + tname,
                   detail_ok='zeros, infinities, quiet/signalling NaNs of both signs, subnormals and extremes keep their bit pattern')
    chk.floor('R02.7', 2)
    n = len(rows) * len(configs)
    chk.floor('R02.1', n)
    chk.floor('R02.2', 3 * n)
    chk.floor('R02.3', n - 20 * len(configs))
    chk.floor('R02.4', 4 * len(configs))
    chk.floor('R02.5', 16 * len(configs))
    chk.extra['abstract_points_evaluated'] = counters['points']
    chk.extra['rows'] = len(rows)
    chk.exhaustive = True
