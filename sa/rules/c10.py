"""C10  The translator is total and memory-safe on valid modules and on truncated files.

Structural clauses decided here (each a necessary condition of the property; termination and memory safety for
every module as a whole are NOT decided - see DESIGN.md):

R10.1  bounded formatted writes: for every sprintf/vsprintf into a fixed array the worst-case output length, computed
       from the format and the value range of each promoted argument, fits the array
R10.2  no overlapping copies: strcpy/strcat/strncpy/memcpy/sprintf never get a source derived from the destination
       (result of basename/dirname/strchr/... on it, pointer arithmetic on it, or a local initialised that way)
R10.3  guarded raw buffer access: every raw read through Buffer.data (dereference, memcpy/strncpy/memcmp/SHA1 source)
       and every bufferSkipUnchecked is dominated by a comparison of the accessed length with the length of the same
       buffer whose failing edge leaves the path
R10.4  may-be-NULL contradiction: values flowing from locations that the code itself stores NULL into or tests
       against NULL (task debugLines when threads > 1; names[] of functions without a name-section entry) are never
       dereferenced or passed to a library string function without a dominating NULL test
R10.6  array reads of the module-level writers stay in bounds: the header/implementation writers are partially evaluated on a
       concrete 6-function module for every -f N and several static/dynamic splits with exact-length arrays; any read past the
       end of a module or function-ID array is reported with its location
R10.7  allocation bounds: for every array obtained from calloc/malloc in the translator, each subscript and each bulk copy into
       it is provably inside the allocated element count (index is a loop variable bounded by an expression <= the count, or a
       linear expression strictly below the count), and the element size passed to the allocator is the size of the pointee
R10.8  name-section post-processing keeps heap strings alive: wasmFunctionNamesRemoveDuplicates is partially evaluated on every
       equality pattern of up to 5 function names (including unnamed slots) with heap objects that remember being freed; no
       string is read or freed after it was freed, duplicated names are cleared, unique names are kept
R10.9  growable containers: the real code of the string builder, the type stack, the label stack and arrayEnsureCapacity is
       partially evaluated on operation sequences (append one by one, bulk appends around the growth points, sparse sets, drop,
       clear, push/pop) with allocations of exactly the requested size; every read and write must stay inside the allocation,
       and the container invariants (length <= capacity = allocated size, terminator present) must hold after every step
R10.10 count and array of a module container are set together: a function that stores the count/length of a container reachable
       from the module record also stores (or ensures the capacity of) its array in the same function - a count without an array
       is an out-of-bounds read waiting for the next loop over the container (e.g. on a file truncated in between)
R10.11 reader primitives at the exact end of input: bufferReadByte/F32/F64/Equal, the LEB128 decoders, wasmReadName and wasmReadBytes
       are evaluated on buffers that hold exactly the bytes needed (must succeed, consuming all) and one byte less (must fail
       or stop without reading outside the buffer)
R10.12 the debug-name table is indexed only below its own length: every subscript of WasmNames.names is dominated by
       `index < length of the same table` (directly, through a copied local, or a local the length was stored from); indices kept
       in a record field are bounded where the field is stored
R10.13 index spaces are split safely: every unsigned subtraction `index - <imports length / parameter count>` is dominated by a
       comparison of the same operands establishing index >= count
R10.5  name bytes: the hex escape of identifier bytes formats an unsigned byte with at most two digits in both twins
"""
import math
import os
import re

from .. import astdb, cfg, ctyperules as ct
from ..astdb import AnalysisBroken, kids, walk, strip

SOURCES = ['array.c', 'c.c', 'compat.c', 'debug.c', 'export.c', 'file.c', 'instruction.c', 'main.c', 'opcode.c', 'reader.c',
           'section.c', 'sha1.c', 'stringbuilder.c', 'valuetype.c']

PRINTF_DST = {'sprintf': (0, 1), 'vsprintf': (0, 1), '__builtin_sprintf': (0, 1), '__sprintf_chk': (0, 3)}
PRINTF_ANY = {'printf': 0, 'fprintf': 1, 'sprintf': 1, 'snprintf': 2, '__builtin_sprintf': 1}
COPY_FUNCS = {'strcpy': (0, 1), 'strcat': (0, 1), 'strncpy': (0, 1), 'strncat': (0, 1), 'memcpy': (0, 1), '__builtin_strcpy': (0, 1),
              '__builtin_memcpy': (0, 1), 'stpcpy': (0, 1)}
INTO_ARG = ('basename', '__xpg_basename', '__gnu_basename', 'dirname', '__xpg_dirname', 'strchr', 'strrchr', 'strstr', 'strpbrk',
            'memchr', 'strtok', 'index', 'rindex')


def load_units(chk):
    tus = []
    present = sorted(f for f in os.listdir(astdb.src('w2c2')) if f.endswith('.c') and not f.endswith('_test.c') and f != 'test.c')
    chk.require(set(SOURCES) <= set(present), 'translator sources missing: %r' % sorted(set(SOURCES) - set(present)))
    for f in present:
        tu = astdb.dump_ast(astdb.src('w2c2/' + f))
        chk.unit(tu)
        tus.append(tu)
    return tus


def all_functions(tus):
    """[(tu, fdecl)] each definition once (static inline header functions appear in several units)"""
    seen = {}
    for tu in tus:
        for name, f in tu.functions.items():
            if astdb.fn_body(f) is None:
                continue
            key = (name, astdb.loc_str(f))
            if key not in seen:
                seen[key] = (tu, f)
    return list(seen.values())


# ---- R10.1 / R10.5 --------------------------------------------------------------------------------

SPEC_RE = re.compile(r'%([-+ #0]*)(\d+|\*)?(?:\.(\d+|\*))?(hh|h|ll|l|q|j|z|t|L)?([diouxXcsfFeEgGp%])')


def value_bits(node, tu):
    """(bits, may_be_negative) of an integer argument as seen after the default promotions"""
    e = ct.simplify(node, tu)
    v = ct.iabs(e)
    ti = ct.tinfo(e.ty)
    if v[0] == 'const':
        return (max(1, abs(v[1]).bit_length()), v[1] < 0)
    if v[0] == 'slice':
        _, slot, k, ext, W, S = v
        if ext == 'z' and k < W:
            return (k, False)
        if k == W and not S:
            return (W, False)
        return (W, True)
    if ti[0] == 'int':
        return (ti[1], ti[2])
    return (64, True)


def _const_of(node, tu, fbody):
    """integer constant a (stripped) expression denotes: a literal / macro / enum, or a const-qualified local with a constant initialiser"""
    n = strip(node, casts=True)
    v = astdb.const_int(n, tu)
    if v is not None:
        return v
    if n.get('kind') == 'DeclRefExpr':
        d = _local_decl(n, fbody)
        if d is not None and 'const' in astdb.qtype(d).split() and d.get('init'):
            ks = [c for c in kids(d) if c.get('kind')]
            return _const_of(ks[-1], tu, fbody) if ks else None
    return None


def _local_decl(ref, fbody):
    rid = (ref.get('referencedDecl') or {}).get('id')
    if rid is None or fbody is None:
        return None
    for d in walk(fbody):
        if d.get('kind') == 'VarDecl' and d.get('id') == rid:
            return d
    return None


def _assigned_elsewhere(decl, fbody):
    for x in walk(fbody):
        if x.get('kind') in ('BinaryOperator', 'CompoundAssignOperator') and x.get('opcode', '').endswith('=') and x.get('opcode') not in ('==', '!=', '<=', '>='):
            l = strip(kids(x)[0], casts=True)
            if l.get('kind') == 'DeclRefExpr' and (l.get('referencedDecl') or {}).get('id') == decl.get('id'):
                return True
        if x.get('kind') == 'UnaryOperator' and x.get('opcode') in ('++', '--', '&'):
            l = strip(kids(x)[0], casts=True)
            if l.get('kind') == 'DeclRefExpr' and (l.get('referencedDecl') or {}).get('id') == decl.get('id'):
                return True
    return False


def uint_upper(node, tu, fbody, site, depth=0):
    """largest value of a non-negative integer expression at the statement `site` (a node inside fbody), or None: constants,
    x % K (K-1), x / K, casts (clipped to the target type), locals that are initialised once (their initialiser) - refined by the
    conditions `v < K` / `v <= K` of the if statements whose then-branch contains the site"""
    if depth > 12:
        return None
    n = node
    k = n.get('kind')
    t = tu.desugar(astdb.qtype(n)) if n.get('type') else ''
    info = astdb.int_type_info(t) if t else None
    tmax = None
    if info is not None:
        tmax = (1 << (info[0] - (1 if info[1] else 0))) - 1
    c = astdb.const_int(n, tu)
    if c is not None:
        return c if c >= 0 else None
    if k in ('ParenExpr', 'ImplicitCastExpr', 'CStyleCastExpr', 'ConstantExpr'):
        ks = [c_ for c_ in kids(n) if c_.get('kind')]
        sub = uint_upper(ks[-1], tu, fbody, site, depth + 1) if ks else None
        if sub is None:
            return tmax if info is not None and not info[1] else None
        return sub if tmax is None else min(sub, tmax) if sub <= tmax or not (info and info[1]) else None
    if k == 'BinaryOperator' and n.get('opcode') in ('%', '/'):
        l, r = kids(n)[0], kids(n)[1]
        kv = _const_of(r, tu, fbody)
        lt = astdb.int_type_info(tu.desugar(astdb.qtype(n)))
        if kv is not None and kv > 0 and lt is not None and not lt[1]:
            if n['opcode'] == '%':
                return kv - 1
            lu = uint_upper(l, tu, fbody, site, depth + 1)
            return None if lu is None else lu // kv
        return tmax if info is not None and not info[1] else None
    if k == 'DeclRefExpr':
        best = tmax if info is not None and not info[1] else None
        d = _local_decl(n, fbody)
        if d is not None and d.get('init') and not _assigned_elsewhere(d, fbody):
            ks = [c_ for c_ in kids(d) if c_.get('kind')]
            iv = uint_upper(ks[-1], tu, fbody, site, depth + 1) if ks else None
            if iv is not None:
                best = iv if best is None else min(best, iv)
            # guards: if (v < K) { ... site ... }
            par = _parents(fbody)
            cur = site
            while cur is not None and id(cur) in par:
                up = par[id(cur)]
                if up.get('kind') == 'IfStmt':
                    iks = [c_ for c_ in up.get('inner', []) if c_.get('kind')]
                    if len(iks) >= 2 and iks[1] is cur:
                        cond = strip(iks[0], casts=True)
                        if cond.get('kind') == 'BinaryOperator' and cond.get('opcode') in ('<', '<='):
                            cl = strip(kids(cond)[0], casts=True)
                            kv = _const_of(kids(cond)[1], tu, fbody)
                            if cl.get('kind') == 'DeclRefExpr' and (cl.get('referencedDecl') or {}).get('id') == d.get('id') and kv is not None:
                                g = kv - 1 if cond['opcode'] == '<' else kv
                                if g >= 0:
                                    best = g if best is None else min(best, g)
                cur = up
        return best
    return tmax if info is not None and not info[1] else None


_PARENTS = {}


def _parents(fbody):
    key = id(fbody)
    if key not in _PARENTS:
        par = {}
        for n in walk(fbody):
            for c in n.get('inner', []) or []:
                if isinstance(c, dict):
                    par[id(c)] = n
        _PARENTS[key] = (fbody, par)
    return _PARENTS[key][1]


def worst_length(fmt, args, tu, fbody=None, site=None):
    """(max characters written excluding the terminator, [explanations]) or (None, why)"""
    total = 0
    why = []
    pos = 0
    ai = 0
    for m in SPEC_RE.finditer(fmt):
        total += m.start() - pos
        pos = m.end()
        flags, width, prec, lm, conv = m.groups()
        if conv == '%':
            total += 1
            continue
        if width == '*' or prec == '*':
            return None, 'variable width/precision in %r' % m.group(0)
        if ai >= len(args):
            return None, 'missing argument for %r' % m.group(0)
        a = args[ai]
        ai += 1
        w = int(width) if width else 0
        if conv == 'c':
            n = 1
        elif conv == 's':
            sv = astdb.string_value(a)
            if sv is None:
                return None, '%%s of a non-literal string (%s)' % astdb.expr_text(a)
            n = len(sv) if prec is None else min(len(sv), int(prec))
        elif conv in 'diouxX':
            bits, neg = value_bits(a, tu)
            conv_bits = {'hh': 8, 'h': 16, None: 32, 'l': 64, 'll': 64, 'q': 64, 'j': 64, 'z': 64, 't': 64}[lm]
            if conv in 'di':
                if neg or bits >= conv_bits:
                    n = len(str(1 << (conv_bits - 1))) + 1
                else:
                    n = len(str((1 << bits) - 1))
            else:
                if neg or bits > conv_bits:
                    bits = conv_bits            # a negative value converts to a large unsigned one
                maxv = (1 << bits) - 1
                if not neg and fbody is not None:
                    # interval refinement: remainders and quotients by constants, once-initialised locals, enclosing `v < K` guards
                    ub = uint_upper(a, tu, fbody, site)
                    if ub is not None and ub < maxv:
                        maxv = ub
                        bits = max(1, ub.bit_length())
                n = {'u': len(str(maxv)), 'o': len('%o' % maxv) + ('#' in flags), 'x': len('%x' % maxv) + 2 * ('#' in flags),
                     'X': len('%X' % maxv) + 2 * ('#' in flags)}[conv]
            if prec is not None:
                n = max(n, int(prec) + (1 if conv in 'di' else 0))
            if '+' in flags or ' ' in flags:
                n += 1 if conv in 'di' and not neg else 0
            why.append('%s of %s: <= %d chars (%d value bits%s)' % (m.group(0), astdb.expr_text(a), max(n, w), bits, ', may be negative' if neg else ''))
        elif conv in 'gG':
            p = int(prec) if prec is not None else 6
            p = max(p, 1)
            n = 1 + p + 1 + 1 + 1 + 3      # sign, digits, point, 'e', exponent sign, three exponent digits (double)
            n = max(n, 1 + 2 + 3 + p)      # fixed notation 0.000ddd for exponents down to -4
            if lm == 'L':
                n += 2
        elif conv in 'eE':
            p = int(prec) if prec is not None else 6
            n = 1 + 1 + 1 + p + 1 + 1 + 3
        elif conv == 'p':
            n = 18
        else:
            return None, 'unbounded conversion %r' % m.group(0)
        total += max(n, w)
    total += len(fmt) - pos
    return total, why


def array_size(node, tu):
    """size of the char array a destination expression names, or None"""
    n = strip(node, casts=True)
    if n.get('kind') != 'DeclRefExpr':
        return None
    m = re.match(r'(?:const )?(?:unsigned |signed )?char\s*\[(\d+)\]$', tu.desugar(astdb.qtype(n)))
    return int(m.group(1)) if m else None


def param_array_size(node, f, funcs):
    """destination is a pointer parameter of f: the smallest fixed array any caller passes for it (None if some caller passes
    something else, or if there is no caller)"""
    n = strip(node, casts=True)
    if n.get('kind') != 'DeclRefExpr' or n.get('referencedDecl', {}).get('kind') != 'ParmVarDecl':
        return None
    params = [p.get('id') for p in astdb.fn_params(f)]
    if n['referencedDecl'].get('id') not in params:
        return None
    idx = params.index(n['referencedDecl']['id'])
    sizes = []
    for tu2, g in funcs:
        for c in walk(astdb.fn_body(g)):
            if c.get('kind') == 'CallExpr' and astdb.callee_name(c) == f['name']:
                a = astdb.call_args(c)
                sz = array_size(a[idx], tu2) if idx < len(a) else None
                if sz is None:
                    return None
                sizes.append(sz)
    return min(sizes) if sizes else None


def format_alternatives(node):
    """the string literals a format expression can evaluate to when it is a (nested) conditional between literals; None otherwise"""
    n = strip(node, casts=True)
    if n.get('kind') == 'ConditionalOperator':
        ks = [c for c in kids(n) if c.get('kind')]
        if len(ks) != 3:
            return None
        a, b = format_alternatives(ks[1]), format_alternatives(ks[2])
        return None if a is None or b is None else a + b
    v = astdb.string_value(n)
    return None if v is None else [v]


def check_formatted_writes(chk, funcs):
    n = 0
    for tu, f in funcs:
        for c in walk(astdb.fn_body(f)):
            if c.get('kind') != 'CallExpr':
                continue
            cn = astdb.callee_name(c)
            args = astdb.call_args(c)
            if cn in ('snprintf', '__builtin_snprintf') and len(args) >= 3:
                # bounded by its size argument: that bound must not exceed the destination array
                n += 1
                loc = astdb.loc_str(c)
                site = '%s:sprintf' % f['name']
                size = array_size(args[0], tu)
                if size is None:
                    size = param_array_size(args[0], f, funcs)
                lim = astdb.const_int(strip(args[1], casts=True), tu)
                if lim is None:
                    a1 = strip(args[1], casts=True)
                    if a1.get('kind') == 'UnaryExprOrTypeTraitExpr' and a1.get('name') == 'sizeof':
                        ks_ = [c_ for c_ in kids(a1) if c_.get('kind')]
                        if ks_ and astdb.expr_text(strip(ks_[0], casts=True)) == astdb.expr_text(strip(args[0], casts=True)):
                            lim = size
                chk.expect(size is not None and lim is not None and lim <= size, 'R10.1', site,
                           'snprintf(%s, %s, ...) at %s: the size argument is %r, the destination has %r bytes - the bound must be a constant '
                           'not larger than the destination' % (astdb.expr_text(args[0]), astdb.expr_text(args[1]), loc, lim, size), site, loc,
                           detail_ok='snprintf bounded by %r <= %r bytes' % (lim, size))
                continue
            if cn in PRINTF_DST:
                di, fi = PRINTF_DST[cn]
                n += 1
                loc = astdb.loc_str(c)
                site = '%s:sprintf' % f['name']
                size = array_size(args[di], tu)
                if size is None:
                    size = param_array_size(args[di], f, funcs)
                fmt = astdb.string_value(args[fi])
                alts = None
                if fmt is None:
                    # a choice between string literals (cond ? "fmt1" : "fmt2"): every alternative must fit
                    alts = format_alternatives(args[fi])
                if size is not None and alts:
                    for fmt_ in alts:
                        total, why = worst_length(fmt_, args[fi + 1:], tu, astdb.fn_body(f), c)
                        if total is None:
                            chk.fail('R10.1', site, '%s at %s into %s[%d]: %s' % (cn, loc, astdb.expr_text(args[di]), size, why), site, loc)
                            continue
                        chk.expect(total + 1 <= size, 'R10.1', site,
                                   '%s(%s, "%s", ...) can write %d characters plus the terminator into %s[%d]: %s'
                                   % (cn, astdb.expr_text(args[di]), fmt_, total, astdb.expr_text(args[di]), size, '; '.join(why)), site, loc,
                                   detail_ok='"%s" -> at most %d+1 bytes into [%d]' % (fmt_, total, size))
                    continue
                if size is None or fmt is None:
                    chk.fail('R10.1', site, '%s at %s writes to %s with format %s: destination size or format is not a compile-time constant'
                             % (cn, loc, astdb.expr_text(args[di]), astdb.expr_text(args[fi])), site, loc)
                    continue
                total, why = worst_length(fmt, args[fi + 1:], tu, astdb.fn_body(f), c)
                if total is None:
                    chk.fail('R10.1', site, '%s at %s into %s[%d]: %s' % (cn, loc, astdb.expr_text(args[di]), size, why), site, loc)
                    continue
                chk.expect(total + 1 <= size, 'R10.1', site,
                           '%s(%s, "%s", ...) can write %d characters plus the terminator into %s[%d]: %s'
                           % (cn, astdb.expr_text(args[di]), fmt, total, astdb.expr_text(args[di]), size, '; '.join(why)), site, loc,
                           detail_ok='"%s" -> at most %d+1 bytes into [%d]' % (fmt, total, size))
            # R10.5: hex escapes of name bytes
            if cn in PRINTF_ANY and len(args) > PRINTF_ANY[cn]:
                fmt = astdb.string_value(args[PRINTF_ANY[cn]])
                if fmt and '%02X' in fmt:
                    rest = args[PRINTF_ANY[cn] + 1:]
                    idx = 0
                    for m in SPEC_RE.finditer(fmt):
                        if m.group(5) == '%':
                            continue
                        if m.group(0) == '%02X' and idx < len(rest):
                            bits, neg = value_bits(rest[idx], tu)
                            chk.expect(bits <= 8 and not neg, 'R10.5', '%s:hex-byte' % f['name'],
                                       '%s formats %s with %%02X but the promoted argument has %d value bits%s: a name byte >= 0x80 prints '
                                       'as 8 digits (FFFFFFxx) instead of two' % (f['name'], astdb.expr_text(rest[idx]), bits,
                                                                                   ' and may be negative' if neg else ''),
                                       '%s:hex-byte' % f['name'], astdb.loc_str(c))
                        idx += 1
    return n


# ---- R10.2 ----------------------------------------------------------------------------------------

def base_text(node):
    """text of the object a pointer expression points into (drops casts, +n, &x[i])"""
    n = strip(node, casts=True)
    while True:
        k = n.get('kind')
        if k == 'BinaryOperator' and n.get('opcode') in ('+', '-'):
            n = strip(kids(n)[0], casts=True)
        elif k == 'UnaryOperator' and n.get('opcode') == '&':
            n = strip(kids(n)[0], casts=True)
            if n.get('kind') == 'ArraySubscriptExpr':
                n = strip(kids(n)[0], casts=True)
        else:
            return astdb.expr_text(n)


def derived_locals(body, root_text):
    """ids of local pointers that (transitively) point into root_text"""
    out = {}
    changed = True

    def into(e):
        e = strip(e, casts=True)
        if e.get('kind') == 'CallExpr' and astdb.callee_name(e) in INTO_ARG:
            a = astdb.call_args(e)
            return bool(a) and (base_text(a[0]) == root_text or into(a[0]))
        if e.get('kind') == 'DeclRefExpr' and e['referencedDecl'].get('id') in out:
            return True
        if e.get('kind') == 'BinaryOperator' and e.get('opcode') in ('+', '-'):
            return into(kids(e)[0]) or base_text(e) == root_text
        if e.get('kind') == 'ConditionalOperator':
            return into(kids(e)[1]) or into(kids(e)[2])
        return False
    while changed:
        changed = False
        for n in walk(body):
            if n.get('kind') == 'VarDecl' and n.get('id') not in out and n.get('init'):
                ini = [c for c in kids(n) if c.get('kind')]
                if ini and '*' in astdb.qtype(n) and into(ini[-1]):
                    out[n['id']] = n.get('name')
                    changed = True
            if n.get('kind') == 'BinaryOperator' and n.get('opcode') == '=':
                l = strip(kids(n)[0])
                if l.get('kind') == 'DeclRefExpr' and l['referencedDecl'].get('id') not in out and '*' in astdb.qtype(l) and into(kids(n)[1]):
                    out[l['referencedDecl']['id']] = l['referencedDecl'].get('name')
                    changed = True
    return out, into


def check_overlap(chk, funcs):
    n = 0
    for tu, f in funcs:
        body = astdb.fn_body(f)
        for c in walk(body):
            if c.get('kind') != 'CallExpr':
                continue
            cn = astdb.callee_name(c)
            pairs = []
            args = astdb.call_args(c)
            if cn in COPY_FUNCS:
                pairs = [(args[COPY_FUNCS[cn][0]], args[COPY_FUNCS[cn][1]])]
            elif cn in PRINTF_DST:
                pairs = [(args[0], a) for a in args[PRINTF_DST[cn][1] + 1:] if '*' in astdb.qtype(a)]
            for dst, src in pairs:
                n += 1
                root = base_text(dst)
                locs, into = derived_locals(body, root)
                s = strip(src, casts=True)
                bad = None
                if base_text(src) == root and not (s.get('kind') == 'StringLiteral'):
                    bad = 'the source %s is the destination object itself' % astdb.expr_text(src)
                elif into(src):
                    bad = 'the source %s points into the destination %s' % (astdb.expr_text(src), root)
                site = '%s:%s' % (f['name'], cn)
                chk.expect(bad is None, 'R10.2', '%s@%s' % (site, astdb.loc_str(c).split(':')[-1]),
                           '%s(%s, %s) in %s: %s - overlapping source and destination are undefined for %s (use memmove)'
                           % (cn, astdb.expr_text(dst), astdb.expr_text(src), f['name'], bad, cn), site, astdb.loc_str(c))
    return n


# ---- R10.3 ----------------------------------------------------------------------------------------

def is_buffer_member(n, tu, field):
    n = strip(n, casts=True)
    if n.get('kind') != 'MemberExpr' or n.get('name') != field:
        return None
    base = kids(n)[0]
    bt = tu.desugar(astdb.qtype(strip(base))).replace('const ', '').strip()
    if bt.rstrip(' *') not in ('struct Buffer', 'Buffer'):
        return None
    return astdb.expr_text(strip(base)) + ('->' if n.get('isArrow') else '.')


def buffer_prefix(arg, tu):
    """'buffer->' / 'reader->buffer.' for an expression of type Buffer* passed to a buffer function"""
    a = strip(arg, casts=True)
    if a.get('kind') == 'UnaryOperator' and a.get('opcode') == '&':
        return astdb.expr_text(strip(kids(a)[0])) + '.'
    return astdb.expr_text(a) + '->'


def len_text(n, tu):
    v = astdb.const_int(n, tu)
    if v is not None:
        return str(v)
    s = strip(n, casts=True)
    if s.get('kind') == 'UnaryExprOrTypeTraitExpr' and s.get('name') == 'sizeof':
        at = (s.get('argType') or {})
        ti = ct.tinfo(tu.desugar(at.get('desugaredQualType') or at.get('qualType') or ''))
        if ti[0] in ('int', 'float'):
            return str(ti[1] // 8)
    return astdb.expr_text(s)


def mentions(text):
    return frozenset(re.findall(r'[A-Za-z_]\w*', text))


def field_mods(funcs):
    """function name -> set of field names it (transitively) assigns"""
    direct, calls = {}, {}
    for tu, f in funcs:
        d, cs = set(), set()
        for n in walk(astdb.fn_body(f)):
            k = n.get('kind')
            if k in ('BinaryOperator', 'CompoundAssignOperator') and (n.get('opcode') == '=' or k == 'CompoundAssignOperator'):
                l = strip(kids(n)[0])
                if l.get('kind') == 'MemberExpr':
                    d.add(l.get('name'))
            if k == 'UnaryOperator' and n.get('opcode') in ('++', '--'):
                l = strip(kids(n)[0])
                if l.get('kind') == 'MemberExpr':
                    d.add(l.get('name'))
            if k == 'CallExpr':
                cs.add(astdb.callee_name(n))
        direct[f['name']] = d
        calls[f['name']] = cs
    changed = True
    while changed:
        changed = False
        for fn in direct:
            for c in calls[fn]:
                if c in direct and not direct[c] <= direct[fn]:
                    direct[fn] |= direct[c]
                    changed = True
    return direct


def make_kills(mods):
    def kills(n):
        k = n.get('kind')
        names = set()
        if k == 'VarDecl':
            names.add(n.get('name'))
        elif k in ('BinaryOperator', 'CompoundAssignOperator') and (n.get('opcode') == '=' or k == 'CompoundAssignOperator'):
            l = strip(kids(n)[0])
            if l.get('kind') == 'DeclRefExpr':
                names.add(l['referencedDecl'].get('name'))
            elif l.get('kind') == 'MemberExpr':
                # a direct store to an access path invalidates facts about that same path (distinct access paths inside one
                # function are taken to denote distinct objects; stores inside callees are covered by the field mod-sets)
                lt = astdb.expr_text(l)
                return lambda fact: (fact[0] in ('le', 'le-snap') and fact[2] + 'length' == lt) or lt in fact[1]
            # writes through a subscript or dereference change the pointed-to object, not a tracked length or scalar
        elif k == 'UnaryOperator' and n.get('opcode') in ('++', '--'):
            l = strip(kids(n)[0])
            names.add(l['referencedDecl'].get('name') if l.get('kind') == 'DeclRefExpr' else l.get('name'))
        elif k == 'CallExpr':
            cn = astdb.callee_name(n)
            names |= set(mods.get(cn, ()))
            for a in astdb.call_args(n):
                a = strip(a, casts=True)
                if a.get('kind') == 'UnaryOperator' and a.get('opcode') == '&':
                    t = strip(kids(a)[0])
                    if t.get('kind') == 'DeclRefExpr':
                        names.add(t['referencedDecl'].get('name'))
        names.discard(None)
        if not names:
            return None
        return lambda fact: bool(fact[-1] & names)
    return kills


def check_buffer_access(chk, funcs, mods):
    n_sites = 0
    kills = make_kills(mods)
    by_name = {}
    for tu_, f_ in funcs:
        by_name.setdefault(f_['name'], (tu_, f_))
    summaries = {}
    state = {'in_summary': False}

    def predicate_summary(name):
        """[(constant length text, parameter position, passed by value?)]: k <= <buffer parameter>.length holds at every return of a
        non-zero constant of function `name`"""
        if name in summaries:
            return summaries[name]
        summaries[name] = []
        tu_, g = by_name[name]
        gbody = astdb.fn_body(g)
        params = astdb.fn_params(g)
        bufp = {}
        for i, p_ in enumerate(params):
            t_ = tu_.desugar(astdb.qtype(p_)).replace('const ', '').strip()
            if t_.rstrip(' *') in ('struct Buffer', 'Buffer'):
                bufp[p_.get('name') + ('->' if t_.endswith('*') else '.')] = (i, not t_.endswith('*'))
        if not bufp or gbody is None or cfg.has_goto(gbody):
            return summaries[name]

        true_rets = set()
        n_rets = 0
        for nd in walk(gbody):
            if nd.get('kind') == 'ReturnStmt' and kids(nd):
                n_rets += 1
                v = astdb.const_int(strip(kids(nd)[0], casts=True), tu_)
                if v is not None and v != 0:
                    true_rets.add(id(kids(nd)[0]))
                elif v is None:
                    return summaries[name]      # a computed result: nothing is known when it is true

        def is_true_return(nd):
            return id(nd) in true_rets

        def cf(c, truth):
            out = []
            if c.get('kind') == 'BinaryOperator' and c.get('opcode') in ('<', '<=', '>', '>='):
                a_, b_ = kids(c)
                op = c['opcode']
                pa, pb = is_buffer_member(a_, tu_, 'length'), is_buffer_member(b_, tu_, 'length')
                if pb is not None and pa is None:
                    L, pref, o = len_text(a_, tu_), pb, op
                elif pa is not None and pb is None:
                    L, pref, o = len_text(b_, tu_), pa, {'<': '>', '<=': '>=', '>': '<', '>=': '<='}[op]
                else:
                    return out
                if not re.fullmatch(r'\d+', L):
                    return out
                if ((o in ('<', '<=')) if truth else (o in ('>',))):
                    out.append(('le', L, pref, frozenset({'length'})))
                if o == '<' and truth:
                    out.append(('le', str(int(L) + 1), pref, frozenset({'length'})))
                if o == '>=' and not truth:
                    out.append(('le', str(int(L) + 1), pref, frozenset({'length'})))
            return out
        res_ = cfg.guarded_before(gbody, is_true_return, cf, kills)
        sets = [set((fa[1], fa[2]) for fa in (facts or ())) for _i, (nd, facts) in res_.items() if facts is not None]
        if not sets:
            return summaries[name]
        common = set.intersection(*sets)
        summaries[name] = [(L, bufp[pref][0], bufp[pref][1]) for L, pref in sorted(common) if pref in bufp]
        return summaries[name]
    _in_summary = False
    for tu, f in funcs:
        body = astdb.fn_body(f)
        fname = f['name']

        def le_fact(L, pref):
            return ('le', L, pref, mentions(L) | mentions(pref) | {'length'})

        def cond_facts(c, truth, tu=tu):
            out = []
            if c.get('kind') == 'BinaryOperator' and c.get('opcode') in ('<', '<=', '>', '>='):
                a, b = kids(c)
                op = c['opcode']
                pa, pb = is_buffer_member(a, tu, 'length'), is_buffer_member(b, tu, 'length')
                # normalise to  L (op) B.length
                if pb is not None and pa is None:
                    L, pref, o = len_text(a, tu), pb, op
                elif pa is not None and pb is None:
                    L, pref, o = len_text(b, tu), pa, {'<': '>', '<=': '>=', '>': '<', '>=': '<='}[op]
                else:
                    return out
                holds_le = (o in ('<', '<=')) if truth else (o in ('>',))
                if holds_le:
                    out.append(le_fact(L, pref))
                if o == '<' and truth and re.fullmatch(r'\d+', L):      # k < length  ->  k+1 <= length
                    out.append(le_fact(str(int(L) + 1), pref))
                if o == '>=' and not truth and re.fullmatch(r'\d+', L):
                    out.append(le_fact(str(int(L) + 1), pref))
            if c.get('kind') == 'CallExpr' and astdb.callee_name(c) == 'bufferAtEnd' and not truth:
                out.append(le_fact('1', buffer_prefix(astdb.call_args(c)[0], tu)))
            elif c.get('kind') == 'CallExpr' and truth and astdb.callee_name(c) in by_name and not _in_summary:
                # a predicate of the repository that received the buffer: what it has established about the buffer's length on every
                # `return <true>` holds in the caller's true branch (constant lengths only)
                for L, pos, byval in predicate_summary(astdb.callee_name(c)):
                    args = astdb.call_args(c)
                    if pos < len(args):
                        a_ = strip(args[pos], casts=True)
                        pref_ = (astdb.expr_text(a_) + '.') if byval else buffer_prefix(args[pos], tu)
                        out.append(le_fact(L, pref_))
            return out

        def gen(nd, facts, tu=tu):
            k = nd.get('kind')
            # L = B.length establishes L <= B.length
            if k == 'BinaryOperator' and nd.get('opcode') == '=':
                l, r = kids(nd)
                pr = is_buffer_member(r, tu, 'length')
                if pr is not None and strip(l).get('kind') == 'DeclRefExpr':
                    return [le_fact(astdb.expr_text(strip(l)), pr)]
            if k == 'VarDecl' and nd.get('init'):
                ini = [c for c in kids(nd) if c.get('kind')][-1]
                pr = is_buffer_member(ini, tu, 'length')
                if pr is not None:
                    return [le_fact(nd.get('name'), pr)]
                # minimum idiom: v = p > q ? q : p  (any of the four spellings) gives v <= p and v <= q
                i0 = strip(ini, casts=True)
                if i0.get('kind') == 'ConditionalOperator':
                    c_, a_, b_ = kids(i0)
                    c0 = strip(c_, casts=True)
                    if c0.get('kind') == 'BinaryOperator' and c0.get('opcode') in ('<', '<=', '>', '>='):
                        pt, qt = [astdb.expr_text(strip(x, casts=True)) for x in kids(c0)]
                        at, bt = astdb.expr_text(strip(a_, casts=True)), astdb.expr_text(strip(b_, casts=True))
                        is_min = (c0['opcode'] in ('>', '>=') and (at, bt) == (qt, pt)) or (c0['opcode'] in ('<', '<=') and (at, bt) == (pt, qt))
                        if is_min:
                            out = []
                            for side_node, side_text in ((kids(c0)[0], pt), (kids(c0)[1], qt)):
                                prm = is_buffer_member(side_node, tu, 'length')
                                if prm is not None:
                                    out.append(le_fact(nd.get('name'), prm))
                                for fa in (facts or ()):
                                    if fa[0] == 'le' and fa[1] == side_text:
                                        out.append(le_fact(nd.get('name'), fa[2]))
                            if out:
                                return out
                # snapshot idiom: p = B.data taken while L <= B.length; after consuming from B, `L -= B.data - p` restores L <= B.length
                # (assumes the bytes consumed in between lie inside the first L bytes - module validity)
                pd = is_buffer_member(ini, tu, 'data')
                if pd is not None and facts:
                    return [('le-snap', fa[1], pd, nd.get('name'), mentions(fa[1]) | {nd.get('name')})
                            for fa in facts if fa[0] == 'le' and fa[2] == pd]
            if k == 'CompoundAssignOperator' and nd.get('opcode') == '-=' and facts:
                l, r = kids(nd)
                lt = astdb.expr_text(strip(l))
                r0 = strip(r, casts=True)
                if r0.get('kind') == 'BinaryOperator' and r0.get('opcode') == '-':
                    a, b = [strip(x, casts=True) for x in kids(r0)]
                    pd = is_buffer_member(a, tu, 'data')
                    if pd is not None and b.get('kind') == 'DeclRefExpr':
                        p = b['referencedDecl'].get('name')
                        if any(fa[0] == 'le-snap' and fa[1] == lt and fa[2] == pd and fa[3] == p for fa in facts):
                            return [le_fact(lt, pd)]
            return ()

        snaps = {}      # local pointer initialised from B.data -> prefix of B
        for d in walk(body):
            if d.get('kind') == 'VarDecl' and d.get('init'):
                ini = [c for c in kids(d) if c.get('kind')][-1]
                if is_buffer_member(ini, tu, 'data'):
                    snaps[d.get('id')] = is_buffer_member(ini, tu, 'data')

        def data_prefix(a, tu=tu, snaps=snaps):
            pm = is_buffer_member(a, tu, 'data')
            if pm is not None:
                return pm
            a0 = strip(a, casts=True)
            if a0.get('kind') == 'DeclRefExpr':
                return snaps.get(a0['referencedDecl'].get('id'))
            return None

        def is_target(nd, tu=tu):
            k = nd.get('kind')
            if k == 'UnaryOperator' and nd.get('opcode') == '*' and is_buffer_member(kids(nd)[0], tu, 'data'):
                return True
            if k == 'ArraySubscriptExpr' and is_buffer_member(kids(nd)[0], tu, 'data'):
                return True
            if k == 'CallExpr':
                cn = astdb.callee_name(nd)
                if cn == 'bufferSkipUnchecked':
                    return True
                if cn in ('memcpy', 'strncpy', 'memcmp', 'SHA1', 'SHA1Update', 'fwrite', 'memmove'):
                    return any(data_prefix(a) for a in astdb.call_args(nd))
            return False
        if not any(is_target(nd) for nd in walk(body)):
            continue
        chk.fn(fname)
        if cfg.has_goto(body) and fname not in ('wasmReadCustomSection',):
            pass
        res = cfg.guarded_before(body, is_target, cond_facts, kills, gen)
        for _id, (nd, facts) in res.items():
            n_sites += 1
            k = nd.get('kind')
            loc = astdb.loc_str(nd)
            if facts is None:
                continue
            have = {(fa[1], fa[2]) for fa in facts if fa[0] == 'le'}
            if k == 'UnaryOperator':
                need = [('1', is_buffer_member(kids(nd)[0], tu, 'data'))]
                what = 'dereference of %s' % astdb.expr_text(kids(nd)[0])
            elif k == 'ArraySubscriptExpr':
                pref = is_buffer_member(kids(nd)[0], tu, 'data')
                idx = astdb.expr_text(strip(kids(nd)[1], casts=True))
                need = [('idx:' + idx, pref)]
                what = 'indexing %s[%s]' % (astdb.expr_text(kids(nd)[0]), idx)
            else:
                cn = astdb.callee_name(nd)
                args = astdb.call_args(nd)
                if cn == 'bufferSkipUnchecked':
                    need = [(len_text(args[1], tu), buffer_prefix(args[0], tu))]
                    what = 'bufferSkipUnchecked(%s, %s)' % (astdb.expr_text(args[0]), astdb.expr_text(args[1]))
                else:
                    pref = [data_prefix(a) for a in args if data_prefix(a)][0]
                    lidx = {'SHA1': 1, 'fwrite': None}.get(cn, 2)
                    if cn == 'fwrite':
                        # size * count bytes: fwrite(p, 1, n, f) and fwrite(p, n, 1, f) read the same n bytes
                        L = len_text(args[2], tu) if astdb.const_int(args[1], tu) == 1 else (len_text(args[1], tu) if astdb.const_int(args[2], tu) == 1 else '?')
                    else:
                        L = len_text(args[lidx], tu)
                    need = [(L, pref)]
                    what = '%s(... %sdata ..., %s)' % (cn, pref, L)
            for L, pref in need:
                ok = (L, pref) in have or L == pref + 'length'
                if not ok and k == 'CallExpr' and astdb.callee_name(nd) == 'bufferSkipUnchecked':
                    ok = _is_min_with_length(astdb.call_args(nd)[1], pref, body, tu)
                if L.startswith('idx:'):
                    # index i with loop bound i < N where N <= B.length or N is B.length itself: accept `i < B.length`-style bounds
                    ok = any(fa[0] == 'le' and fa[2] == pref for fa in facts) or _index_bounded(nd, body, pref, tu)
                chk.expect(ok, 'R10.3', '%s:%s' % (fname, what),
                           '%s in %s (%s) is not dominated by a check that %s <= %slength on the same buffer (facts here: %s): a truncated or '
                           'short input makes it read past the end of the file buffer'
                           % (what, fname, loc, L, pref, sorted('%s<=%slength' % h for h in have) or 'none'), '%s:raw-buffer-access' % fname, loc)
    return n_sites


def _is_min_with_length(arg, pref, body, tu):
    """arg is min(x, <pref>length) written as a conditional - (a < b) ? a : b, (a > b) ? b : a, with <= / >= likewise - where a or b is
    the buffer's length or a once-initialised local holding it: the value never exceeds the length"""
    e = strip(arg, casts=True)
    if e.get('kind') != 'ConditionalOperator':
        return False
    ks = [c for c in kids(e) if c.get('kind')]
    if len(ks) != 3:
        return False
    cond = strip(ks[0], casts=True)
    if cond.get('kind') != 'BinaryOperator' or cond.get('opcode') not in ('<', '<=', '>', '>='):
        return False
    txt = lambda n: astdb.expr_text(strip(n, casts=True)).replace(' ', '')
    x, y = txt(kids(cond)[0]), txt(kids(cond)[1])
    t, f = txt(ks[1]), txt(ks[2])
    smaller_first = cond['opcode'] in ('<', '<=')
    if not ((smaller_first and (t, f) == (x, y)) or (not smaller_first and (t, f) == (y, x))):
        return False

    def is_length(n):
        n0 = strip(n, casts=True)
        if astdb.expr_text(n0).replace(' ', '') == (pref + 'length').replace(' ', ''):
            return True
        if n0.get('kind') == 'DeclRefExpr':
            d = _local_decl(n0, body)
            if d is not None and d.get('init') and not _assigned_elsewhere(d, body):
                iks = [c for c in kids(d) if c.get('kind')]
                return bool(iks) and astdb.expr_text(strip(iks[-1], casts=True)).replace(' ', '') == (pref + 'length').replace(' ', '')
        return False
    return is_length(kids(cond)[0]) or is_length(kids(cond)[1])


def _index_bounded(nd, body, pref, tu):
    """`X.data[i]` inside `for (; i < n; ..)` where n was initialised from X.length (possibly clamped by a minimum)"""
    idx = strip(kids(nd)[1], casts=True)
    if idx.get('kind') != 'DeclRefExpr':
        return False
    iname = idx['referencedDecl'].get('name')
    for loop in walk(body):
        if loop.get('kind') != 'ForStmt' or not any(x is nd for x in walk(loop)):
            continue
        cond = loop['inner'][2]
        if cond.get('kind') == 'BinaryOperator' and cond.get('opcode') == '<' and astdb.expr_text(strip(kids(cond)[0], casts=True)) == iname:
            bound = strip(kids(cond)[1], casts=True)
            if is_buffer_member(bound, tu, 'length') == pref:
                return True
            if bound.get('kind') == 'DeclRefExpr':
                bid = bound['referencedDecl'].get('id')
                for d in walk(body):
                    if d.get('kind') == 'VarDecl' and d.get('id') == bid and d.get('init'):
                        ini = [c for c in kids(d) if c.get('kind')][-1]
                        if any(is_buffer_member(x, tu, 'length') == pref for x in walk(ini)) and not any(
                                x.get('kind') == 'BinaryOperator' and x.get('opcode') in ('+', '*', '<<') for x in walk(ini)):
                            return True
    return False


# ---- R10.4 ----------------------------------------------------------------------------------------

NULLABLE_SEEDS = [
    # (kind, record, field, reason)
    ('field', 'WasmCImplementationWriterTask', 'debugLines', 'set to NULL when the writer runs with more than one thread'),
    ('elem', 'WasmNames', 'names', 'one slot per function, NULL for functions the name section does not name (and after duplicate removal)'),
]
NONNULL_OK_EXTERNS = {'free', 'wasmNamesFree', 'realloc', 'printf', 'fprintf'}     # accept NULL (printf family checked per %s below)


def record_of(node, tu):
    t = tu.desugar(astdb.qtype(strip(node))).replace('const ', '').replace('struct ', '').strip()
    return t.rstrip(' *').strip()


class NullFlow:
    def __init__(self, chk, funcs):
        self.chk = chk
        self.funcs = funcs
        self.by_name = {}
        for tu, f in funcs:
            self.by_name.setdefault(f['name'], (tu, f))
        self.tainted = set()

    def loc_of(self, e, tu, fname):
        e = strip(e, casts=True)
        k = e.get('kind')
        if k == 'DeclRefExpr':
            rd = e['referencedDecl']
            if rd.get('kind') in ('ParmVarDecl', 'VarDecl'):
                return ('var', fname, rd.get('name'))
        if k == 'MemberExpr':
            return ('field', record_of(kids(e)[0], tu), e.get('name'))
        if k == 'ArraySubscriptExpr':
            b = self.loc_of(kids(e)[0], tu, fname)
            if b and b[0] == 'field':
                return ('elem', b[1], b[2])
            if b and b[0] == 'var':
                return ('elemvar', b[1], b[2])
        if k == 'CallExpr':
            cn = astdb.callee_name(e)
            if cn in self.by_name:
                return ('ret', cn)
        if k == 'ConditionalOperator':
            return None
        return None

    def rhs_tainted(self, e, tu, fname):
        e0 = strip(e, casts=True)
        if e0.get('kind') == 'ConditionalOperator':
            return self.rhs_tainted(kids(e0)[1], tu, fname) or self.rhs_tainted(kids(e0)[2], tu, fname)
        l = self.loc_of(e0, tu, fname)
        return l is not None and l in self.tainted

    def propagate(self):
        for kind, rec, field, _ in NULLABLE_SEEDS:
            self.tainted.add((kind, rec, field))
        changed = True
        while changed:
            changed = False
            for tu, f in self.funcs:
                fname = f['name']
                params = [p.get('name') for p in astdb.fn_params(f)]
                for n in walk(astdb.fn_body(f)):
                    k = n.get('kind')
                    new = None
                    if k == 'VarDecl' and n.get('init'):
                        ini = [c for c in kids(n) if c.get('kind')]
                        if ini and '*' in astdb.qtype(n) and self.rhs_tainted(ini[-1], tu, fname):
                            new = ('var', fname, n.get('name'))
                    elif k == 'BinaryOperator' and n.get('opcode') == '=':
                        l, r = kids(n)
                        if '*' in tu.desugar(astdb.qtype(l)) and self.rhs_tainted(r, tu, fname):
                            new = self.loc_of(l, tu, fname)
                    elif k == 'CallExpr':
                        cn = astdb.callee_name(n)
                        if cn in self.by_name:
                            ctu, cf = self.by_name[cn]
                            cps = astdb.fn_params(cf)
                            for i, a in enumerate(astdb.call_args(n)):
                                if i < len(cps) and '*' in ctu.desugar(astdb.qtype(cps[i])) and self.rhs_tainted(a, tu, fname):
                                    loc = ('var', cn, cps[i].get('name'))
                                    if loc not in self.tainted:
                                        self.tainted.add(loc)
                                        changed = True
                    elif k == 'ReturnStmt':
                        ex = [c for c in kids(n) if c.get('kind')]
                        if ex and self.rhs_tainted(ex[0], tu, fname):
                            new = ('ret', fname)
                    if new is not None and new not in self.tainted:
                        self.tainted.add(new)
                        changed = True

    def seeds_justified(self):
        """each seed location is still stored NULL / tested against NULL somewhere in the current source"""
        found = {}
        for tu, f in self.funcs:
            for n in walk(astdb.fn_body(f)):
                if n.get('kind') == 'BinaryOperator' and n.get('opcode') in ('=', '==', '!='):
                    l, r = kids(n)
                    r0 = strip(r, casts=True)
                    nullish = astdb.const_int(r0, tu) == 0 or (n['opcode'] == '=' and r0.get('kind') == 'ConditionalOperator' and any(
                        astdb.const_int(strip(x, casts=True), tu) == 0 for x in kids(r0)[1:]))
                    if nullish and '*' in tu.desugar(astdb.qtype(l)):
                        loc = self.loc_of(l, tu, f['name'])
                        if loc in [(s[0], s[1], s[2]) for s in NULLABLE_SEEDS]:
                            found.setdefault(loc, []).append('%s %s at %s' % ('stored NULL' if n['opcode'] == '=' else 'compared with NULL', f['name'], astdb.loc_str(n)))
        return found

    def check(self):
        chk = self.chk
        n_sinks = 0
        for tu, f in self.funcs:
            fname = f['name']
            body = astdb.fn_body(f)

            def tainted_expr(e, tu=tu, fname=fname):
                return self.rhs_tainted(e, tu, fname)

            def is_target(nd, tu=tu):
                k = nd.get('kind')
                if k == 'MemberExpr' and nd.get('isArrow') and tainted_expr(kids(nd)[0]):
                    return True
                if k == 'UnaryOperator' and nd.get('opcode') == '*' and tainted_expr(kids(nd)[0]):
                    return True
                if k == 'ArraySubscriptExpr' and tainted_expr(kids(nd)[0]):
                    return True
                if k == 'CallExpr':
                    cn = astdb.callee_name(nd)
                    if cn is None or cn in self.by_name or cn in ('free',):
                        return False
                    return any(tainted_expr(a) for a in astdb.call_args(nd))
                return False
            if not any(is_target(nd) for nd in walk(body)):
                continue
            chk.fn(fname)

            def nn(text):
                return ('nonnull', text, mentions(text))

            def cond_facts(c, truth):
                out = []
                if c.get('kind') == 'BinaryOperator' and c.get('opcode') in ('==', '!='):
                    a, b = kids(c)
                    if astdb.const_int(strip(b, casts=True), tu) == 0 and '*' in tu.desugar(astdb.qtype(a)):
                        if (c['opcode'] == '!=') == truth:
                            out.append(nn(astdb.expr_text(strip(a, casts=True))))
                    elif astdb.const_int(strip(a, casts=True), tu) == 0 and '*' in tu.desugar(astdb.qtype(b)):
                        if (c['opcode'] == '!=') == truth:
                            out.append(nn(astdb.expr_text(strip(b, casts=True))))
                elif '*' in tu.desugar(astdb.qtype(c)) and truth:
                    out.append(nn(astdb.expr_text(c)))
                return out

            def kills(n):
                k = n.get('kind')
                names = set()
                if k == 'VarDecl':
                    names.add(n.get('name'))
                elif k in ('BinaryOperator', 'CompoundAssignOperator') and (n.get('opcode') == '=' or k == 'CompoundAssignOperator'):
                    l = strip(kids(n)[0])
                    if l.get('kind') == 'DeclRefExpr':
                        names.add(l['referencedDecl'].get('name'))
                    elif l.get('kind') == 'MemberExpr':
                        names.add(l.get('name'))
                elif k == 'UnaryOperator' and n.get('opcode') in ('++', '--'):
                    l = strip(kids(n)[0])
                    if l.get('kind') == 'DeclRefExpr':
                        names.add(l['referencedDecl'].get('name'))
                names.discard(None)
                return (lambda fact: bool(fact[-1] & names)) if names else None
            res = cfg.guarded_before(body, is_target, cond_facts, kills)
            for _id, (nd, facts) in res.items():
                if facts is None:
                    continue
                k = nd.get('kind')
                have = {fa[1] for fa in facts if fa[0] == 'nonnull'}
                if k == 'CallExpr':
                    cn = astdb.callee_name(nd)
                    exprs = [a for a in astdb.call_args(nd) if tainted_expr(a)]
                    what = 'passed to %s' % cn
                else:
                    exprs = [kids(nd)[0]]
                    what = 'dereferenced'
                for e in exprs:
                    n_sinks += 1
                    text = astdb.expr_text(strip(e, casts=True))
                    loc = self.loc_of(e, tu, fname)
                    chk.expect(text in have, 'R10.4', '%s:%s %s' % (fname, text, what),
                               '%s may be NULL here (flows from %s) but is %s in %s at %s without a dominating NULL test; elsewhere the '
                               'code stores or tests NULL for this location, so one of the two beliefs is wrong'
                               % (text, self.origin(loc), what, fname, astdb.loc_str(nd)), '%s:null-%s' % (fname, text), astdb.loc_str(nd))
        return n_sinks

    def origin(self, loc):
        for kind, rec, field, why in NULLABLE_SEEDS:
            if loc == (kind, rec, field):
                return '%s.%s%s: %s' % (rec, field, '[]' if kind == 'elem' else '', why)
        return '%r, reached from %s' % (loc, ' / '.join('%s.%s' % (s[1], s[2]) for s in NULLABLE_SEEDS))


# ---- R10.7 ----------------------------------------------------------------------------------------

def lin_ast(n, tu):
    """linear form {atom text: coefficient, 1: constant} of an integer expression"""
    n = strip(n, casts=True)
    v = astdb.const_int(n, tu)
    if v is not None:
        return {1: v}
    k = n.get('kind')
    if k == 'UnaryExprOrTypeTraitExpr' and n.get('name') == 'sizeof':
        t = len_text(n, tu)
        if re.fullmatch(r'\d+', t):
            return {1: int(t)}
    if k == 'BinaryOperator' and n.get('opcode') in ('+', '-'):
        a, b = lin_ast(kids(n)[0], tu), lin_ast(kids(n)[1], tu)
        out = dict(a)
        for key, c in b.items():
            out[key] = out.get(key, 0) + (c if n['opcode'] == '+' else -c)
        return {key: c for key, c in out.items() if c != 0 or key == 1}
    if k == 'BinaryOperator' and n.get('opcode') == '*':
        a, b = lin_ast(kids(n)[0], tu), lin_ast(kids(n)[1], tu)
        for x, y in ((a, b), (b, a)):
            if set(x) <= {1}:
                c = x.get(1, 0)
                return {key: c * v_ for key, v_ in y.items()}
    return {astdb.expr_text(n): 1}


def lin_diff_const(a, b):
    """a - b if it is a constant, else None"""
    keys = set(a) | set(b)
    d = {key: a.get(key, 0) - b.get(key, 0) for key in keys}
    if any(v for key, v in d.items() if key != 1):
        return None
    return d.get(1, 0)


def check_allocation_bounds(chk, funcs):
    n_sites = 0
    for tu, f in funcs:
        body = astdb.fn_body(f)
        fname = f['name']
        allocs = {}     # var name -> (count node, size node, alloc node)
        for n in walk(body):
            tgt, call = None, None
            if n.get('kind') == 'VarDecl' and n.get('init'):
                ini = strip([c for c in kids(n) if c.get('kind')][-1], casts=True)
                if ini.get('kind') == 'CallExpr':
                    tgt, call = n.get('name'), ini
                    ptype = tu.desugar(astdb.qtype(n))
            elif n.get('kind') == 'BinaryOperator' and n.get('opcode') == '=':
                l = strip(kids(n)[0])
                r = strip(kids(n)[1], casts=True)
                if l.get('kind') == 'DeclRefExpr' and r.get('kind') == 'CallExpr':
                    tgt, call = l['referencedDecl'].get('name'), r
                    ptype = tu.desugar(astdb.qtype(l))
            if call is None:
                continue
            cn = astdb.callee_name(call)
            args = astdb.call_args(call)
            if cn == 'calloc' and len(args) == 2:
                allocs[tgt] = (args[0], args[1], call, ptype)
            elif cn == 'malloc' and len(args) == 1:
                allocs[tgt] = (args[0], None, call, ptype)
        if not allocs:
            continue
        chk.fn(fname)
        par = None
        for pname, (cnt, size, call, ptype) in sorted(allocs.items()):
            site = '%s:alloc:%s' % (fname, pname)
            A = lin_ast(cnt, tu)
            pointee = ptype.rstrip().rstrip('*').replace('const ', '').strip() if ptype.rstrip().endswith('*') else None
            esize = None
            if pointee:
                ti = ct.tinfo(pointee)
                if ti[0] in ('int', 'float'):
                    esize = ti[1] // 8
            if size is not None and pointee not in (None, 'void'):
                s0 = strip(size, casts=True)
                if s0.get('kind') == 'UnaryExprOrTypeTraitExpr' and s0.get('name') == 'sizeof' and s0.get('argType'):
                    at = tu.desugar((s0['argType'].get('desugaredQualType') or s0['argType'].get('qualType'))).replace('const ', '').strip()
                    n_sites += 1
                    chk.expect(at == pointee or (at.replace('struct ', '') == pointee.replace('struct ', '')), 'R10.7', site + ':element-size',
                               '%s allocates %s elements of sizeof(%s) for a pointer to %s at %s: the element size does not match the array type'
                               % (fname, astdb.expr_text(cnt), at, pointee, astdb.loc_str(call)), site, astdb.loc_str(call))
                elif astdb.const_int(s0, tu) is not None and esize is not None:
                    n_sites += 1
                    chk.expect(astdb.const_int(s0, tu) == esize, 'R10.7', site + ':element-size',
                               '%s allocates elements of %d bytes for %s at %s' % (fname, astdb.const_int(s0, tu), ptype, astdb.loc_str(call)), site, astdb.loc_str(call))
            if size is None:
                # malloc(bytes): only byte arrays are bounded here
                if esize != 1:
                    continue
            # uses
            for u in walk(body):
                k = u.get('kind')
                if k == 'ArraySubscriptExpr':
                    b = strip(kids(u)[0], casts=True)
                    if b.get('kind') != 'DeclRefExpr' or b['referencedDecl'].get('name') != pname:
                        continue
                    idx = kids(u)[1]
                    n_sites += 1
                    I = lin_ast(idx, tu)
                    d = lin_diff_const(A, I)
                    ok = d is not None and d >= 1
                    why = ''
                    if not ok:
                        # index = loop variable + constant offset
                        off = I.get(1, 0)
                        vars_ = [key for key, c in I.items() if key != 1 and c]
                        if len(vars_) == 1 and I[vars_[0]] == 1 and re.fullmatch(r'\w+', vars_[0]):
                            iname = vars_[0]
                            for loop in walk(body):
                                if loop.get('kind') not in ('ForStmt', 'WhileStmt') or not any(x is u for x in walk(loop)):
                                    continue
                                cond = loop['inner'][2] if loop['kind'] == 'ForStmt' else loop['inner'][-2]
                                for cc in _conjuncts(cond):
                                    if cc.get('kind') != 'BinaryOperator' or cc.get('opcode') not in ('<', '!='):
                                        continue
                                    # loop condition  i + c0 < N  (c0 a constant, usually 0)
                                    E = lin_ast(kids(cc)[0], tu)
                                    evars = [key for key, c in E.items() if key != 1 and c]
                                    if evars == [iname] and E[iname] == 1:
                                        c0 = E.get(1, 0)
                                        d2 = lin_diff_const(A, lin_ast(kids(cc)[1], tu))
                                        low_ok = off >= 0 or _loop_start(loop, iname, tu) is not None and _loop_start(loop, iname, tu) + off >= 0
                                        if d2 is not None and d2 + c0 - off >= 0 and cc['opcode'] == '<' and low_ok:
                                            ok = True
                                        else:
                                            why = ' (loop bound %s vs allocated count %s)' % (astdb.expr_text(kids(cc)[1]), astdb.expr_text(cnt))
                    chk.expect(ok, 'R10.7', '%s:%s[%s]' % (site, pname, astdb.expr_text(strip(idx, casts=True))),
                               '%s indexes %s[%s] at %s but %s was allocated with %s elements: the index is not provably below the count%s'
                               % (fname, pname, astdb.expr_text(strip(idx, casts=True)), astdb.loc_str(u), pname, astdb.expr_text(cnt), why),
                               site + ':index', astdb.loc_str(u))
                elif k == 'CallExpr' and astdb.callee_name(u) in ('memcpy', 'strncpy', 'memset', 'memmove', 'strcpy'):
                    a = astdb.call_args(u)
                    d0 = strip(a[0], casts=True)
                    if d0.get('kind') != 'DeclRefExpr' or d0['referencedDecl'].get('name') != pname:
                        continue
                    n_sites += 1
                    cn = astdb.callee_name(u)
                    if cn == 'strcpy':
                        src = astdb.expr_text(strip(a[1], casts=True))
                        want = {'strlen(%s)' % src: 1, 1: 1}
                        d = lin_diff_const(A, want)
                        ok = d is not None and d >= 0
                        ntext = 'strlen(%s) + 1' % src
                    else:
                        N = lin_ast(a[2], tu)
                        tot = A if (size is None or esize == 1) else {key: c * (esize or 1) for key, c in A.items()}
                        d = lin_diff_const(tot, N)
                        ok = d is not None and d >= 0
                        ntext = astdb.expr_text(strip(a[2], casts=True))
                    chk.expect(ok, 'R10.7', '%s:%s(%s)' % (site, cn, ntext),
                               '%s copies %s bytes into %s at %s, which was allocated with %s element(s): not provably within the allocation'
                               % (fname, ntext, pname, astdb.loc_str(u), astdb.expr_text(cnt)), site + ':copy', astdb.loc_str(u))
    return n_sites


def _conjuncts(cond):
    c = strip(cond, casts=True)
    if c.get('kind') == 'BinaryOperator' and c.get('opcode') == '&&':
        return _conjuncts(kids(c)[0]) + _conjuncts(kids(c)[1])
    return [c]


def _loop_start(loop, iname, tu):
    """constant the loop variable is set to in the for-init, or None"""
    if loop.get('kind') != 'ForStmt':
        return None
    init = loop['inner'][0]
    for n in walk(init) if init.get('kind') else ():
        if n.get('kind') == 'BinaryOperator' and n.get('opcode') == '=' and astdb.expr_text(strip(kids(n)[0])) == iname:
            return astdb.const_int(strip(kids(n)[1], casts=True), tu)
        if n.get('kind') == 'VarDecl' and n.get('name') == iname and n.get('init'):
            return astdb.const_int(strip([c for c in kids(n) if c.get('kind')][-1], casts=True), tu)
    return None


# ---- R10.8 ----------------------------------------------------------------------------------------

def set_partitions(n):
    """all assignments of n items to blocks, as restricted growth strings"""
    def rec(prefix, m):
        if len(prefix) == n:
            yield list(prefix)
            return
        for b in range(m + 1):
            for r in rec(prefix + [b], max(m, b + 1)):
                yield r
    return rec([], 0)


def check_name_dedup(chk, tier, rule='R10.8'):
    from .. import pe, emit
    from ..pe import Ptr
    tu = astdb.dump_ast(astdb.src('w2c2/reader.c'))
    fn = 'wasmFunctionNamesRemoveDuplicates'
    chk.require(fn in tu.functions, 'anchor %s not found' % fn)
    chk.fn(fn)
    site = fn + ':lifetime'
    nmax = 5 if tier == 'thorough' else 4
    n_cases = 0
    bad = []
    for n in range(0, nmax + 1):
        for blocks in set_partitions(n):
            for nulls in ([()] + [(k,) for k in range(n)]):
                # names: block b -> string "n<b>"; slots in `nulls` are unnamed functions (NULL)
                strs = []
                for k, b in enumerate(blocks):
                    strs.append(0 if k in nulls else Ptr([ord(ch) for ch in 'n%d' % b] + [0], 0))
                label = 'names=%r' % (['-' if k in nulls else 'n%d' % b for k, b in enumerate(blocks)],)
                problems = []

                def alive(interp, p, what, node, problems=problems):
                    if isinstance(p, Ptr) and id(p.c) in interp.path.state['freed']:
                        problems.append('%s of a freed name string at %s' % (what, astdb.loc_str(node)))
                        return False
                    return True

                def free(interp, args, node, problems=problems):
                    p = args[0]
                    if isinstance(p, Ptr) and isinstance(p.c, list):
                        if id(p.c) in interp.path.state['freed']:
                            problems.append('double free at %s' % astdb.loc_str(node))
                        interp.path.state['freed'].add(id(p.c))
                    return None

                def strcmp(interp, args, node):
                    for a in args[:2]:
                        if a == 0:
                            raise pe.PEError('strcmp(NULL)')
                        alive(interp, a, 'strcmp', node)
                    a, b = emit._cstr(interp, args[0]), emit._cstr(interp, args[1])
                    return (a > b) - (a < b)

                def fprintf(interp, args, node):
                    for a in args[2:]:
                        alive(interp, a, 'fprintf("%s")', node)
                    return 0

                def qsort(interp, args, node):
                    base, count, size, cmp_ = args
                    items = base.c[base.k:base.k + count]
                    import functools

                    def c(x, y):
                        r = interp.call(cmp_.name, [Ptr({'v': x}, 'v'), Ptr({'v': y}, 'v')], node)
                        if not isinstance(r, int):
                            raise pe.PEError('comparator returned %r' % (r,))
                        return r
                    items.sort(key=functools.cmp_to_key(c))
                    base.c[base.k:base.k + count] = items
                    return None
                leafs = dict(emit.base_leafs())
                leafs.update({'free': free, 'strcmp': strcmp, 'fprintf': fprintf, 'qsort': qsort,
                              'calloc': lambda interp, args, node: Ptr([{'name': 0, 'functionIndex': 0} for _ in range(args[0])] or [0], 0)})
                it = pe.Interp([tu], leafs)
                it.strict_bounds = True

                def setup(strs=strs):
                    names = {'v': {'length': len(strs), 'capacity': len(strs), 'names': Ptr(list(strs), 0) if strs else 0}}
                    err = {'v': 0}
                    return (fn, [Ptr(names, 'v'), Ptr(err, 'v')], {'freed': set(), 'names': names['v'], 'stream': emit.Stream([])})
                n_cases += 1
                try:
                    paths = [p for p in it.explore(setup) if not p.aborted]
                except pe.OutOfBounds as e:
                    bad.append('%s: %s' % (label, e))
                    continue
                except pe.PEError as e:
                    if 'strcmp(NULL)' in str(e):
                        bad.append('%s: strcmp on an unnamed (NULL) slot' % label)
                        continue
                    raise AnalysisBroken('R10.8 %s: %s' % (label, e))
                if len(paths) != 1:
                    raise AnalysisBroken('R10.8 %s: %d paths' % (label, len(paths)))
                if problems:
                    bad.append('%s: %s' % (label, '; '.join(sorted(set(problems)))))
                    continue
                # result: duplicated names cleared, unique names kept
                out = paths[0].state['names']['names']
                got = out.c[out.k:out.k + n] if isinstance(out, Ptr) else []
                cnt = {}
                for k, b in enumerate(blocks):
                    if k not in nulls:
                        cnt[b] = cnt.get(b, 0) + 1
                for k, b in enumerate(blocks):
                    want_kept = k not in nulls and cnt[b] == 1
                    is_kept = got[k] != 0 and got[k] is not None and isinstance(got[k], Ptr) and got[k].c is strs[k].c if want_kept else got[k] == 0
                    if not is_kept:
                        bad.append('%s: slot %d is %s, expected %s' % (label, k, 'kept' if got[k] != 0 else 'cleared', 'kept' if want_kept else 'cleared'))
                        break
    chk.expect(not bad, rule, 'name-dedup-lifetime',
               '%s mishandles %d of %d name patterns, e.g. %s' % (fn, len(bad), n_cases, ' | '.join(bad[:3])), site,
               detail_ok='%d equality patterns of up to %d names: no read/free after free, duplicates cleared, unique names kept' % (n_cases, nmax))
    return n_cases


# ---- R10.9 ----------------------------------------------------------------------------------------

def check_growable(chk):
    from .. import pe
    from ..pe import Ptr
    ctu = astdb.dump_ast(astdb.src('w2c2/c.c'))
    sbtu = astdb.dump_ast(astdb.src('w2c2/stringbuilder.c'))
    atu = astdb.dump_ast(astdb.src('w2c2/array.c'))
    for t in (sbtu, atu):
        chk.unit(t)
    state = {'itemsize': 1}

    def calloc(interp, args, node):
        n, sz = args
        if not isinstance(n, int) or n > 100000:
            raise pe.PEError('calloc(%r)' % (n,))
        state['itemsize'] = sz
        return Ptr([0] * n, 0)

    def malloc(interp, args, node):
        if not isinstance(args[0], int):
            raise pe.PEError('malloc(%r)' % (args[0],))
        return Ptr([('uninit',)] * args[0], 0)

    def realloc(interp, args, node):
        p, nbytes = args
        if not isinstance(nbytes, int) or nbytes % state['itemsize']:
            raise pe.PEError('realloc(%r) with element size %r' % (nbytes, state['itemsize']))
        n = nbytes // state['itemsize']
        old = p.c[p.k:] if isinstance(p, Ptr) else []
        return Ptr(list(old[:n]) + [('uninit',)] * max(0, n - len(old)), 0)

    def strncpy(interp, args, node):
        d, s_, n = args
        src = s_ if isinstance(s_, str) else None
        for i in range(n):
            ch = (ord(src[i]) if i < len(src) else 0) if src is not None else interp.load(s_.c, s_.k + i)
            interp.store(d.c, d.k + i, ch)
        return d

    def memcpy(interp, args, node):
        d, s_, n = args
        if not isinstance(n, int):
            raise pe.PEError('memcpy of %r bytes' % (n,))
        src = s_ if isinstance(s_, str) else None
        if src is not None and n > len(src) + 1:
            raise pe.PEError('memcpy of %d bytes from the %d-byte string %r' % (n, len(src) + 1, src))
        for i in range(n):
            ch = (ord(src[i]) if i < len(src) else 0) if src is not None else interp.load(s_.c, s_.k + i)
            interp.store(d.c, d.k + i, ch)
        return d

    def on_call(name, args, node):
        if name in ('arrayEnsureCapacity', 'arrayEnsureCapacitySlowPath') and isinstance(args[3], int):
            state['itemsize'] = args[3]
    leafs = {'calloc': calloc, 'malloc': malloc, 'realloc': realloc, 'strncpy': strncpy, '__builtin_strncpy': strncpy,
             'memcpy': memcpy, '__builtin_memcpy': memcpy, 'memmove': memcpy,
             'free': lambda i, a, n: None, '__assert_fail': pe.leaf_abort('assert')}

    def machine(tus):
        it = pe.Interp(tus, dict(leafs))
        it.strict_bounds = True
        it.strict_store_bounds = True
        it.on_call = on_call
        return it
    bad = []
    n_ops = 0

    def run_seq(label, it, init_state, ops, invariant):
        """ops: [(function, args builder(state))]; one PE run per prefix would be quadratic - instead one driver run per op"""
        nonlocal n_ops
        st = init_state
        for k, (fn, mkargs) in enumerate(ops):
            n_ops += 1

            def setup(fn=fn, mkargs=mkargs):
                return (fn, mkargs(st), {'st': st})
            try:
                paths = [p for p in it.explore(setup) if not p.aborted]
            except pe.OutOfBounds as e:
                bad.append('%s, operation %d (%s): %s' % (label, k, fn, e))
                return
            except pe.PEError as e:
                if 'subscript of 0' in str(e) or 'NULL dereference' in str(e):
                    bad.append('%s, operation %d (%s): NULL array used (%s)' % (label, k, fn, e))
                    return
                raise AnalysisBroken('R10.9 %s op %d %s: %s' % (label, k, fn, e))
            if len(paths) != 1:
                raise AnalysisBroken('R10.9 %s op %d %s: %d paths' % (label, k, fn, len(paths)))
            pr = invariant(st, fn, paths[0].ret)
            if pr:
                bad.append('%s, after operation %d (%s): %s' % (label, k, fn, pr))
                return
    # --- string builder
    it = machine([sbtu])
    sb = {'string': 0, 'length': 0, 'capacity': 0}
    cell = {'v': sb}
    text = []

    def sb_inv(st, fn, ret):
        s_ = sb['string']
        if not isinstance(s_, Ptr):
            return 'no string'
        if len(s_.c) != sb['capacity']:
            return 'capacity %r but %d bytes allocated' % (sb['capacity'], len(s_.c))
        if sb['length'] + 1 > sb['capacity']:
            return 'length %d + terminator exceeds capacity %d' % (sb['length'], sb['capacity'])
        if s_.c[sb['length']] != 0:
            return 'missing terminator at %d' % sb['length']
        if ''.join(chr(x) for x in s_.c[:sb['length']]) != ''.join(text):
            return 'contents %r, expected %r' % (s_.c[:sb['length']], ''.join(text))
        return None
    ops = [('stringBuilderInitialize', lambda st: [Ptr(cell, 'v')])]
    for i in range(40):
        ch = chr(ord('a') + i % 26)
        ops.append(('stringBuilderAppendChar', lambda st, ch=ch: (text.append(ch), [Ptr(cell, 'v'), ord(ch)])[1]))
    for ln in (0, 1, 7, 8, 9, 33, 64, 2):
        chunk = ('0123456789' * 7)[:ln]
        ops.append(('stringBuilderAppendSized', lambda st, chunk=chunk: (text.append(chunk), [Ptr(cell, 'v'), chunk, len(chunk)])[1]))
    ops.append(('stringBuilderReset', lambda st: (text.clear(), [Ptr(cell, 'v')])[1]))
    ops.append(('stringBuilderAppendSized', lambda st: (text.append('xyz'), [Ptr(cell, 'v'), 'xyz', 3])[1]))
    chk.fn('stringBuilderEnsureCapacity')
    run_seq('string builder', it, None, ops, sb_inv)
    # one large append on a nearly empty builder (growth by more than the current capacity), at several fill levels
    for fill in (0, 1, 6, 7):
        for ln in (7, 8, 9, 15, 16, 17, 22, 31, 32, 33, 100, 1000):
            sb.update(string=0, length=0, capacity=0)
            text.clear()
            ops2 = [('stringBuilderInitialize', lambda st: [Ptr(cell, 'v')])]
            for i in range(fill):
                ops2.append(('stringBuilderAppendChar', lambda st: (text.append('q'), [Ptr(cell, 'v'), ord('q')])[1]))
            chunk = ('abcdefghij' * 101)[:ln]
            ops2.append(('stringBuilderAppendSized', lambda st, chunk=chunk: (text.append(chunk), [Ptr(cell, 'v'), chunk, len(chunk)])[1]))
            ops2.append(('stringBuilderAppendChar', lambda st: (text.append('!'), [Ptr(cell, 'v'), ord('!')])[1]))
            run_seq('string builder (fill %d, then one append of %d bytes)' % (fill, ln), it, None, ops2, sb_inv)
    # --- type stack / label stack (real arrayEnsureCapacity + slow path)
    it = machine([ctu, atu])
    ts = {'length': 0, 'capacity': 0, 'valueTypes': 0}
    tcell = {'v': ts}

    def ts_inv(st, fn, ret):
        v = ts['valueTypes']
        if ts['capacity'] and (not isinstance(v, Ptr) or len(v.c) != ts['capacity']):
            return 'capacity %r but %r elements allocated' % (ts['capacity'], len(v.c) if isinstance(v, Ptr) else None)
        if ts['length'] > ts['capacity']:
            return 'length %d exceeds capacity %d' % (ts['length'], ts['capacity'])
        if isinstance(v, Ptr) and any(x == ('uninit',) for x in v.c[:ts['length']]):
            return 'uninitialised entries below length: %r' % (v.c[:ts['length']],)
        return None
    ops = []
    for idx in (0, 1, 2, 5, 3, 17, 16, 40, 39, 41):
        ops.append(('wasmTypeStackSet', lambda st, idx=idx: [Ptr(tcell, 'v'), idx, idx % 4]))
    ops += [('wasmTypeStackDrop', lambda st: [Ptr(tcell, 'v'), 3]), ('wasmTypeStackDrop', lambda st: [Ptr(tcell, 'v'), 100]),
            ('wasmTypeStackSet', lambda st: [Ptr(tcell, 'v'), 4, 1]), ('wasmTypeStackClear', lambda st: [Ptr(tcell, 'v')]),
            ('wasmTypeStackSet', lambda st: [Ptr(tcell, 'v'), 0, 2]), ('wasmTypeStackIsSet', lambda st: [Ptr(tcell, 'v'), 0, 2]),
            ('wasmTypeStackIsSet', lambda st: [Ptr(tcell, 'v'), 1, 2])]
    chk.fn('wasmTypeStackSet')
    run_seq('type stack', it, None, ops, ts_inv)
    ls = {'labels': {'length': 0, 'capacity': 0, 'labels': 0}, 'nextLabelIndex': 0}
    lcell = {'v': ls}

    def ls_inv(st, fn, ret):
        L = ls['labels']
        v = L['labels']
        if L['capacity'] and (not isinstance(v, Ptr) or len(v.c) != L['capacity']):
            return 'capacity %r but %r elements allocated' % (L['capacity'], len(v.c) if isinstance(v, Ptr) else None)
        if L['length'] > L['capacity']:
            return 'length %d exceeds capacity %d' % (L['length'], L['capacity'])
        return None
    ops = []
    for i in range(20):
        ops.append(('wasmLabelStackPush', lambda st, i=i: [Ptr(lcell, 'v'), i, 0, Ptr({'v': {'index': 0, 'typeStackLength': 0, 'type': 0}}, 'v')]))
    ops += [('wasmLabelStackPop', lambda st: [Ptr(lcell, 'v')])] * 22
    ops += [('wasmLabelStackPush', lambda st: [Ptr(lcell, 'v'), 1, 0, Ptr({'v': {'index': 0, 'typeStackLength': 0, 'type': 0}}, 'v')]),
            ('wasmLabelStackClear', lambda st: [Ptr(lcell, 'v')])]
    chk.fn('wasmLabelStackPush')
    run_seq('label stack', it, None, ops, ls_inv)
    chk.expect(not bad, 'R10.9', 'growable-containers',
               'a growable container reads or writes outside its allocation or breaks its invariant: %s' % ' | '.join(bad[:3]),
               'growable-containers', detail_ok='%d operations on string builder, type stack and label stack stay inside their allocations' % n_ops)
    return n_ops


# ---- R10.10 ---------------------------------------------------------------------------------------

def check_count_array_pairs(chk, funcs):
    n = 0
    for tu, f in funcs:
        if not (astdb.file_of(f) or '').endswith('reader.c'):
            continue
        body = astdb.fn_body(f)
        count_stores, array_stores, ensured = {}, set(), set()
        for a in walk(body):
            if a.get('kind') in ('BinaryOperator', 'CompoundAssignOperator') and (a.get('opcode') == '=' or a.get('kind') == 'CompoundAssignOperator'):
                l = strip(kids(a)[0])
                if l.get('kind') != 'MemberExpr':
                    continue
                owner = astdb.expr_text(strip(kids(l)[0]))
                if 'module->' not in owner and not owner.startswith('module'):
                    continue
                if not re.match(r'Wasm\w+s$|WasmNames$', record_of(kids(l)[0], tu)):
                    continue        # not a (count, array) container
                lt = tu.desugar(astdb.qtype(l))
                if l.get('name') in ('count', 'length') and ct.tinfo(lt)[0] == 'int':
                    zero = astdb.const_int(strip(kids(a)[1], casts=True), tu) == 0
                    if not zero:
                        count_stores.setdefault(owner, a)
                elif lt.rstrip().endswith('*'):
                    array_stores.add(owner)
            if a.get('kind') == 'CallExpr' and (astdb.callee_name(a) or '').endswith('EnsureCapacity'):
                for x in astdb.call_args(a)[:1]:
                    x0 = strip(x, casts=True)
                    if x0.get('kind') == 'UnaryOperator' and x0.get('opcode') == '&':
                        ensured.add(astdb.expr_text(strip(kids(x0)[0])))
        for owner, node in sorted(count_stores.items()):
            n += 1
            chk.expect(owner in array_stores or owner in ensured, 'R10.10', '%s:%s' % (f['name'], owner),
                       '%s stores the element count of %s at %s but neither stores nor ensures its array in the same function: until some later '
                       'code sets the array, every loop over this container indexes a NULL/stale array (for instance when the file ends in '
                       'between)' % (f['name'], owner, astdb.loc_str(node)), '%s:count-without-array' % f['name'], astdb.loc_str(node))
    return n


# ---- R10.12 ---------------------------------------------------------------------------------------

def check_names_subscripts(chk, funcs):
    """the debug-name table (WasmNames: names[], length) is sized by the name section, not by the function count - its length depends
    on where the section sits in the file - so every subscript must be bounded by the length of *the same table*: the index is
    compared (<) with that table's length, a local that was copied from it, or a local that the length was stored from, on every
    path to the subscript; indices carried in a record field are bounded where the field is stored"""
    from .. import cfg
    n_sites = 0
    for tu, f in funcs:
        body = astdb.fn_body(f)
        if body is None:
            continue
        subs = []
        for x in walk(body):
            if x.get('kind') == 'ArraySubscriptExpr':
                b0 = strip(kids(x)[0], casts=True)
                if b0.get('kind') == 'MemberExpr' and b0.get('name') == 'names' and record_of(kids(b0)[0], tu) == 'WasmNames':
                    subs.append((x, b0))
        if not subs:
            continue
        ps_ = astdb.fn_params(f)
        if ps_ and record_of(ps_[0], tu) == 'WasmNames' and f['name'] == ps_[0].get('name', '') + 'Append':
            continue        # the container's own append primitive (ARRAY_TYPE): index == old length after EnsureCapacity(length + 1), see R10.9
        # aliases of <owner>.length
        def owner_text(member):
            return astdb.expr_text(strip(kids(member)[0])).replace(' ', '')

        def defs_of(vid):
            out = []
            for x in walk(body):
                if x.get('kind') == 'VarDecl' and x.get('id') == vid and x.get('init'):
                    out.append([c for c in kids(x) if c.get('kind')][-1])
                elif x.get('kind') in ('BinaryOperator', 'CompoundAssignOperator', 'UnaryOperator') and \
                        x.get('opcode') in ('=', '+=', '-=', '++', '--', '*=', '&'):
                    l = strip(kids(x)[0])
                    if l.get('kind') == 'DeclRefExpr' and l['referencedDecl'].get('id') == vid:
                        out.append(kids(x)[1] if x.get('opcode') == '=' else None)
            return out

        def length_aliases(owner):
            al = {owner + '.length', owner + '->length'}
            for x in walk(body):
                # local copied from the length
                if x.get('kind') == 'VarDecl' and x.get('init'):
                    ini = strip([c for c in kids(x) if c.get('kind')][-1], casts=True)
                    if ini.get('kind') == 'MemberExpr' and ini.get('name') == 'length' and owner_text(ini) == owner:
                        ds = defs_of(x['id'])
                        if len(ds) == 1:
                            al.add(x['name'])
                # length stored from an unmodified local
                if x.get('kind') == 'BinaryOperator' and x.get('opcode') == '=':
                    l = strip(kids(x)[0])
                    r = strip(kids(x)[1], casts=True)
                    if l.get('kind') == 'MemberExpr' and l.get('name') == 'length' and owner_text(l) == owner and r.get('kind') == 'DeclRefExpr' \
                            and r['referencedDecl'].get('kind') in ('VarDecl', 'ParmVarDecl'):
                        ds = [d for d in defs_of(r['referencedDecl']['id'])]
                        if len(ds) <= 1 and None not in ds:
                            al.add(r['referencedDecl']['name'])
            return al

        def cond_facts(c, truth):
            if c.get('kind') != 'BinaryOperator' or c.get('opcode') not in ('<', '>', '<=', '>='):
                return ()
            a_, b_ = [astdb.expr_text(strip(x, casts=True)).replace(' ', '') for x in kids(c)]
            op = c['opcode']
            if not truth:
                op = {'<': '>=', '>': '<=', '<=': '>', '>=': '<'}[op]
            if op == '<':
                return [('lt', a_, b_)]
            if op == '>':
                return [('lt', b_, a_)]
            return ()

        def kills(nd):
            tgt = None
            if nd.get('kind') in ('BinaryOperator', 'CompoundAssignOperator') and (nd.get('opcode') == '=' or nd.get('kind') == 'CompoundAssignOperator'):
                tgt = astdb.expr_text(strip(kids(nd)[0])).replace(' ', '')
            elif nd.get('kind') == 'UnaryOperator' and nd.get('opcode') in ('++', '--'):
                tgt = astdb.expr_text(strip(kids(nd)[0])).replace(' ', '')
            elif nd.get('kind') == 'CallExpr':
                outs = [astdb.expr_text(strip(kids(strip(a_, casts=True))[0])).replace(' ', '') for a_ in astdb.call_args(nd)
                        if strip(a_, casts=True).get('kind') == 'UnaryOperator' and strip(a_, casts=True).get('opcode') == '&']
                if outs:
                    return lambda fa: any(re.search(r'(?<![\w.>])%s(?![\w])' % re.escape(o), fa[1]) or re.search(r'(?<![\w.>])%s(?![\w])' % re.escape(o), fa[2]) for o in outs)
            if tgt is None:
                return None
            # a loop increment of the index keeps `index < bound` only through the loop condition: the fact is re-established there
            return lambda fa: re.search(r'(?<![\w.>])%s(?![\w])' % re.escape(tgt), fa[1]) is not None or \
                re.search(r'(?<![\w.>])%s(?![\w])' % re.escape(tgt), fa[2]) is not None
        targets = {id(x): (x, b0) for x, b0 in subs}
        field_stores = []      # (store node, field name, rhs text)
        for x in walk(body):
            if x.get('kind') == 'BinaryOperator' and x.get('opcode') == '=' and strip(kids(x)[0]).get('kind') == 'MemberExpr':
                field_stores.append(x)
        fs_ids = {id(x) for x in field_stores}
        res = cfg.guarded_before(body, lambda nd: id(nd) in targets or id(nd) in fs_ids, cond_facts, kills)
        facts_at = {i: facts for i, (nd, facts) in res.items()}
        for x, b0 in subs:
            n_sites += 1
            owner = owner_text(b0)
            al = length_aliases(owner)
            idx_node = strip(kids(x)[1], casts=True)
            idx = astdb.expr_text(idx_node).replace(' ', '')
            facts = facts_at.get(id(x))
            site = '%s:names[%s]' % (f['name'], idx)
            if facts is None:
                chk.ok('R10.12', site, 'unreachable')
                continue
            ok = any(fa[0] == 'lt' and fa[1] == idx and fa[2] in al for fa in facts)
            why = ''
            if not ok and idx_node.get('kind') == 'MemberExpr':
                # index carried in a record field: every store to that field in this function stores a bounded value
                fld = idx_node.get('name')
                sts = [st for st in field_stores if strip(kids(st)[0]).get('name') == fld]
                if sts:
                    ok = True
                    for st in sts:
                        rhs = astdb.expr_text(strip(kids(st)[1], casts=True)).replace(' ', '')
                        ff = facts_at.get(id(st)) or ()
                        if not any(fa[0] == 'lt' and fa[1] == rhs and fa[2] in al for fa in ff):
                            ok = False
                            why = ' (field %s is stored from %s without that bound at %s)' % (fld, rhs, astdb.loc_str(st))
            chk.expect(ok, 'R10.12', site,
                       '%s indexes %s.names with %s, which is not bounded by the length of that table on every path%s (established: %r): the table '
                       'is sized when the name section is read and may be shorter than the function count'
                       % (f['name'], owner, idx, why, sorted(fa for fa in facts if fa[0] == 'lt')[:6]),
                       '%s:names-index' % f['name'], astdb.loc_str(x))
    return n_sites


# ---- R10.13 ---------------------------------------------------------------------------------------

def check_index_space_split(chk, funcs):
    """module index spaces are concatenations (imports first, then definitions; parameters first, then locals).  Every subtraction
    `index - <number of imports / parameters>` is unsigned: it must be dominated by a comparison of the same two operands that
    establishes index >= count (the false branch of `index < count`, or `index >= count`), otherwise an index into the first part
    wraps around and addresses memory far outside the second array (a valid module may export an imported function)"""
    from .. import cfg
    n_sites = 0
    for tu, f in funcs:
        body = astdb.fn_body(f)
        if body is None:
            continue

        def is_count(node, depth=0, body=body, f=f, tu=tu):
            """the expression denotes the size of an imports container or a parameter count (through single-definition locals,
            value-preserving wrappers, and a parameter that every caller passes such a count for)"""
            n = strip(node, casts=True)
            k = n.get('kind')
            if k == 'DeclRefExpr' and n['referencedDecl'].get('kind') == 'ParmVarDecl' and depth < 3:
                ps = [p_.get('id') for p_ in astdb.fn_params(f)]
                if n['referencedDecl'].get('id') not in ps:
                    return False
                pi = ps.index(n['referencedDecl']['id'])
                verdicts = []
                for tu2, g in funcs:
                    gb = astdb.fn_body(g)
                    if gb is None or g is f:
                        continue
                    for c in walk(gb):
                        if c.get('kind') == 'CallExpr' and astdb.callee_name(c) == f.get('name') and len(astdb.call_args(c)) > pi:
                            verdicts.append(is_count(astdb.call_args(c)[pi], depth + 1, gb, g, tu2))
                return bool(verdicts) and all(verdicts) and (verdicts[0] if all(v == verdicts[0] for v in verdicts) else True)
            if k == 'MemberExpr':
                if n.get('name') == 'parameterCount':
                    return 'param'
                if n.get('name') in ('length', 'count') and re.search(r'Wasm\w*Imports$', record_of(kids(n)[0], tu)):
                    return True
                return False
            if k == 'CallExpr' and (astdb.callee_name(n) or '').startswith('assertSize') and astdb.call_args(n):
                return is_count(astdb.call_args(n)[0], depth, body, f, tu)
            if k == 'DeclRefExpr' and n['referencedDecl'].get('kind') == 'VarDecl' and depth < 3:
                vid = n['referencedDecl']['id']
                defs = []
                for x in walk(body):
                    if x.get('kind') == 'VarDecl' and x.get('id') == vid and x.get('init'):
                        defs.append([c for c in kids(x) if c.get('kind')][-1])
                    elif x.get('kind') in ('BinaryOperator', 'CompoundAssignOperator', 'UnaryOperator') and \
                            x.get('opcode') in ('=', '+=', '-=', '++', '--'):
                        l = strip(kids(x)[0])
                        if l.get('kind') == 'DeclRefExpr' and l['referencedDecl'].get('id') == vid:
                            defs.append(None)
                return len(defs) == 1 and defs[0] is not None and is_count(defs[0], depth + 1, body, f, tu)
            return False
        subs = []
        for n in walk(body):
            if n.get('kind') in ('BinaryOperator', 'CompoundAssignOperator') and n.get('opcode') in ('-', '-='):
                a_, b_ = kids(n)
                kind_ = is_count(b_)
                a0_ = strip(a_, casts=True)
                if kind_ == 'param' and not (a0_.get('kind') == 'DeclRefExpr' and a0_['referencedDecl'].get('kind') == 'ParmVarDecl'):
                    continue        # stack-height arithmetic of the call emitters (operands are on the stack by validity), not an index split
                if kind_ and astdb.const_int(a0_, tu) is None:
                    subs.append(n)
        if not subs:
            continue
        ids = {id(n) for n in subs}

        def txt(x):
            return astdb.expr_text(strip(x, casts=True)).replace(' ', '')

        def cond_facts(c, truth, depth=0):
            if c.get('kind') == 'DeclRefExpr' and c.get('referencedDecl', {}).get('kind') == 'VarDecl' and depth < 2:
                # a flag that holds the outcome of the comparison (single definition, e.g. `const bool isImport = index < count;`)
                vid = c['referencedDecl']['id']
                defs = []
                for x in walk(body):
                    if x.get('kind') == 'VarDecl' and x.get('id') == vid and x.get('init'):
                        defs.append([k_ for k_ in kids(x) if k_.get('kind')][-1])
                    elif x.get('kind') in ('BinaryOperator', 'CompoundAssignOperator', 'UnaryOperator') and \
                            x.get('opcode') in ('=', '+=', '-=', '++', '--', '|=', '&='):
                        l = strip(kids(x)[0])
                        if l.get('kind') == 'DeclRefExpr' and l['referencedDecl'].get('id') == vid:
                            defs.append(None)
                if len(defs) == 1 and defs[0] is not None:
                    return cond_facts(strip(defs[0], casts=True), truth, depth + 1)
                return ()
            if c.get('kind') != 'BinaryOperator' or c.get('opcode') not in ('<', '>', '<=', '>='):
                return ()
            a_, b_ = [txt(x) for x in kids(c)]
            op = c['opcode']
            if not truth:
                op = {'<': '>=', '>': '<=', '<=': '>', '>=': '<'}[op]
            if op in ('>=', '>'):
                return [('ge', a_, b_)]
            return [('ge', b_, a_)]

        def kills(nd):
            tgt = None
            if nd.get('kind') in ('BinaryOperator', 'CompoundAssignOperator') and (nd.get('opcode') == '=' or nd.get('kind') == 'CompoundAssignOperator'):
                if id(nd) in ids:
                    return None          # the subtraction itself is the target, evaluated before its own effect
                tgt = txt(kids(nd)[0])
            elif nd.get('kind') == 'UnaryOperator' and nd.get('opcode') in ('++', '--'):
                tgt = txt(kids(nd)[0])
            if tgt is None:
                return None
            return lambda fa: tgt in (fa[1], fa[2])
        res = cfg.guarded_before(body, lambda nd: id(nd) in ids, cond_facts, kills)
        for n in subs:
            n_sites += 1
            a_, b_ = [txt(x) for x in kids(n)]
            ent = res.get(id(n))
            facts = ent[1] if ent else None
            site = '%s:%s-%s' % (f['name'], a_, b_)
            if facts is None:
                chk.ok('R10.13', site, 'unreachable')
                continue
            ok = any(fa[0] == 'ge' and fa[1] == a_ and fa[2] == b_ for fa in facts)
            chk.expect(ok, 'R10.13', site,
                       '%s computes %s - %s (unsigned) without having established %s >= %s on every path (known here: %r): for an index below '
                       'the count the difference wraps around and the following array access lands far outside the array'
                       % (f['name'], a_, b_, a_, b_, sorted(fa for fa in facts if fa[0] == 'ge')[:5]), '%s:index-space-split' % f['name'], astdb.loc_str(n))
    return n_sites


# ---- R10.11 ---------------------------------------------------------------------------------------

def check_exact_end(chk, rule='R10.11'):
    from .. import pe
    from ..pe import Ptr
    tu = astdb.dump_ast(astdb.src('w2c2/reader.c'))
    chk.unit(tu)

    def memcpy(interp, args, node):
        d, s_, k = args
        if not isinstance(k, int):
            raise pe.PEError('copy of symbolic length')
        for i in range(k):
            interp.store(d.c, d.k + i, interp.load(s_.c, s_.k + i))
        return d

    def memcmp(interp, args, node):
        a, b, k = args
        for i in range(k):
            x, y = interp.load(a.c, a.k + i), interp.load(b.c, b.k + i)
            if x != y:
                return -1 if x < y else 1
        return 0

    def calloc(interp, args, node):
        return Ptr([0] * (args[0] * max(1, args[1] if isinstance(args[1], int) else 1)), 0)
    leafs = {'memcpy': memcpy, '__builtin_memcpy': memcpy, 'strncpy': memcpy, '__builtin_strncpy': memcpy, 'memcmp': memcmp,
             'calloc': calloc, 'free': lambda i, a, n: None}

    def leb(v, pad=0):
        out = []
        while True:
            b = v & 0x7f
            v >>= 7
            if v or pad:
                out.append(b | 0x80)
                pad -= 1 if not v and pad else 0
                if not v and pad == 0:
                    out.append(0) if False else None
            else:
                out.append(b)
                return out

    def run(fn, data, extra_args, short):
        buf_bytes = list(data[:-1] if short else data)
        it = pe.Interp([tu], dict(leafs))
        it.strict_bounds = True
        it.strict_store_bounds = True
        it.union_endian = 'little'
        res = {'v': 0}

        def setup():
            buf = {'v': {'data': Ptr(buf_bytes, 0) if buf_bytes else Ptr([], 0), 'length': len(buf_bytes)}}
            return (fn, [Ptr(buf, 'v')] + extra_args(res), {'buf': buf['v'], 'res': res})
        paths = [p for p in it.explore(setup) if not p.aborted]
        if len(paths) != 1:
            raise AnalysisBroken('%s %s: %d paths' % (rule, fn, len(paths)))
        p = paths[0]
        return p.ret, p.state['buf']['length'], p.state['res']['v']
    cases = [
        ('bufferReadByte', [0x7B], lambda res: [Ptr(res, 'v')]),
        ('bufferReadF32', [1, 2, 3, 4], lambda res: [Ptr(res, 'v')]),
        ('bufferReadF64', [1, 2, 3, 4, 5, 6, 7, 8], lambda res: [Ptr(res, 'v')]),
        ('bufferReadEqual', [0, 0x61, 0x73, 0x6D], lambda res: [Ptr([0, 0x61, 0x73, 0x6D], 0), 4]),
        ('leb128ReadU32', [0x05], lambda res: [Ptr(res, 'v')]),
        ('leb128ReadU32', [0x85, 0x80, 0x80, 0x80, 0x00], lambda res: [Ptr(res, 'v')]),
        ('leb128ReadI32', [0xFF, 0xFF, 0xFF, 0xFF, 0x7F], lambda res: [Ptr(res, 'v')]),
        ('leb128ReadU64', [0x85] + [0x80] * 8 + [0x00], lambda res: [Ptr(res, 'v')]),
        ('leb128ReadI64', [0x7F], lambda res: [Ptr(res, 'v')]),
        ('wasmReadName', [3, 0x61, 0x62, 0x63], lambda res: [Ptr(res, 'v')]),
        ('wasmReadName', [0], lambda res: [Ptr(res, 'v')]),
        ('wasmReadBytes', [2, 9, 8], lambda res: [Ptr({'v': {'data': 0, 'length': 0}}, 'v')]),
        ('wasmReadBytes', [0], lambda res: [Ptr({'v': {'data': 0, 'length': 0}}, 'v')]),
    ]
    n = 0
    for fn, data, extra in cases:
        if fn not in tu.functions:
            raise AnalysisBroken('%s: reader primitive %s not found' % (rule, fn))
        chk.fn(fn)
        label = '%s[%d bytes]' % (fn, len(data))
        site = fn + ':exact-end'
        n += 1
        try:
            ret, left, _ = run(fn, data, extra, False)
            ok = bool(ret) and left == 0
            chk.expect(ok, rule, label + ':accepts', '%s on a buffer that holds exactly its %d bytes returns %r with %r bytes left: input that ends '
                       'exactly at the end of the file (a name, LEB128 number or byte vector in the last section) is rejected or not consumed'
                       % (fn, len(data), ret, left), site)
        except pe.OutOfBounds as e:
            chk.fail(rule, label + ':accepts', '%s on a buffer that holds exactly its %d bytes: %s' % (fn, len(data), e), site)
        try:
            ret, left, _ = run(fn, data, extra, True)
            # one byte short: failure (0/false) - the LEB decoders report the bytes they could read, which is fine as long as nothing is over-read
            chk.ok(rule, label + ':short-input-safe', 'returns %r' % (ret,))
        except pe.OutOfBounds as e:
            chk.fail(rule, label + ':short-input-safe', '%s on a buffer one byte too short: %s' % (fn, e), site + ':over-read')
    return n


# ---- R10.6 ----------------------------------------------------------------------------------------

def check_writer_bounds(chk):
    from .. import render as R, pe
    from . import c06
    tus = R.sequential_tus(chk)
    it = c06.make(tus)
    mk = lambda: R.sample_module(it)
    K = 6
    n = 0
    for static, dynamic in ((list(range(K)), []), ([0, 2, 4], [1, 3, 5]), ([5], [4, 3, 2, 1, 0]), ([], list(range(K))), ([1, 0], [2])):
        for fpf in range(0, K + 2):
            label = 'f=%d,static=%r,dynamic=%r' % (fpf, static, dynamic)
            n += 1
            try:
                R.render(it, mk, fpf, static, dynamic, 0, 0)
                chk.ok('R10.6', label)
            except pe.OutOfBounds as e:
                chk.fail('R10.6', label, 'translating a 6-function module with functions-per-file %d, static IDs %r, dynamic IDs %r (as produced by '
                         '-r): %s' % (fpf, static, dynamic, e), 'module-writers:out-of-bounds-read')
    return n


OWNED_ARRAYS = {'valueTypes': 'typestack.h', 'labels': 'labelstack.h'}


def check_owned_array_stores(chk, funcs, rule='R10.17'):
    """the growable tables of the translator (type stack / stack declarations: `valueTypes`; label stack: `labels`) are written only by
    their owner helpers, which grow and clear the storage before they store (decided on concrete call sequences by the growable-array
    rule) - a store `table->valueTypes[i] = / |= ...` anywhere else indexes storage whose capacity that code never established (the
    stack-declaration table is as long as the deepest slot *declared* so far, not as the operand stack)"""
    n_owner = 0
    n_seen = 0
    for tu, f in funcs:
        body = astdb.fn_body(f)
        if body is None:
            continue
        for x in walk(body):
            k = x.get('kind')
            lhs = None
            if k in ('BinaryOperator', 'CompoundAssignOperator') and x.get('opcode', '').endswith('=') and x.get('opcode') not in ('==', '!=', '<=', '>='):
                lhs = strip(kids(x)[0], casts=True)
            elif k == 'UnaryOperator' and x.get('opcode') in ('++', '--'):
                lhs = strip(kids(x)[0], casts=True)
            if lhs is None or lhs.get('kind') != 'ArraySubscriptExpr':
                continue
            base = strip(kids(lhs)[0], casts=True)
            if base.get('kind') != 'MemberExpr' or base.get('name') not in OWNED_ARRAYS:
                continue
            rec = record_of(kids(base)[0], tu)
            if not re.search(r'TypeStack|LabelStack|WasmLabels', rec or ''):
                continue
            n_seen += 1
            owner = OWNED_ARRAYS[base['name']]
            here = (astdb.file_of(f) or '')
            if here.endswith(owner):
                n_owner += 1
                continue
            # a store under a guard that compares the index with the table's own length / capacity is covered
            idx_t = astdb.expr_text(strip(kids(lhs)[1], casts=True)).replace(' ', '')
            tab_t = astdb.expr_text(strip(kids(base)[0], casts=True)).replace(' ', '')
            par = _parents(body)
            cur, guarded = x, False
            while cur is not None and id(cur) in par:
                up = par[id(cur)]
                if up.get('kind') == 'IfStmt':
                    iks = [c_ for c_ in up.get('inner', []) if c_.get('kind')]
                    if len(iks) >= 2 and iks[1] is cur:
                        ct_ = astdb.expr_text(strip(iks[0], casts=True)).replace(' ', '')
                        if re.search(re.escape(idx_t) + r'<' + re.escape(tab_t) + r'(->|\.)(length|capacity)\b', ct_):
                            guarded = True
                cur = up
            if guarded:
                chk.ok(rule, '%s:%s-store' % (f['name'], base['name']), 'store guarded by a comparison with the table\'s length / capacity')
                continue
            chk.fail(rule, '%s:%s-store' % (f['name'], base['name']),
                     '%s (%s) stores into %s directly: only the helpers of %s write this table - they grow and clear it first; here the '
                     'index is not covered by any capacity the function established, so a valid module whose slot was never declared '
                     '(an operand produced by a block that ends in unreachable code) makes the translator write outside the table'
                     % (f['name'], astdb.loc_str(x), astdb.expr_text(lhs), owner), '%s:owned-array-store' % f['name'], astdb.loc_str(x))
    chk.require(n_owner >= 4, 'only %d stores into the type/label stack tables found in their owner headers (anchor drifted)' % n_owner)
    chk.ok(rule, 'owner-only-stores', '%d stores into valueTypes / labels, all in the owner helpers' % n_owner)
    return n_seen


def check_hash_update(chk, rule='R10.16'):
    """every function body is hashed (SHA1 over the body bytes, any length): the block loop of SHA1Update reads whole 64-byte blocks
    from the input and copies the rest into the context buffer.  SHA1Update is evaluated on concrete lengths around the block
    boundaries (0..2 blocks and more, tails of 0, 1, 62, 63 bytes) for every fill state of the context buffer, with SHA1Transform and
    memcpy as observers: every block read and every copy lies inside the input (len bytes) and inside the 64-byte context buffer, and
    the bytes consumed are exactly the input, in order"""
    from .. import pe
    from ..pe import Ptr
    tu = astdb.dump_ast(astdb.src('w2c2/sha1.c'))
    chk.unit(tu)
    chk.require('SHA1Update' in tu.functions and astdb.fn_body(tu.functions['SHA1Update']) is not None, 'anchor SHA1Update not found in sha1.c')
    chk.fn('SHA1Update')
    n = 0
    bad = None
    lens = [0, 1, 2, 55, 56, 62, 63, 64, 65, 119, 126, 127, 128, 129, 190, 191, 192, 193, 255, 256, 319]
    for fill in (0, 1, 8, 55, 56, 63):
        for ln in lens:
            consumed = []
            problem = []

            def span(ptr, cnt, what):
                if not isinstance(cnt, int) or cnt < 0 or cnt >= 1 << 62:
                    problem.append('%s of %r bytes' % (what, cnt))
                    return None
                if not (isinstance(ptr, Ptr) and isinstance(ptr.c, list) and isinstance(ptr.k, int)):
                    problem.append('%s through %r' % (what, ptr))
                    return None
                if ptr.k < 0 or ptr.k + cnt > len(ptr.c):
                    problem.append('%s of %d bytes at offset %d of an object of %d bytes' % (what, cnt, ptr.k, len(ptr.c)))
                    return None
                return ptr

            def transform(interp, args, node):
                src = span(args[1], 64, 'SHA1Transform reads a block')
                if src is None:
                    raise pe.PathAbort('out-of-bounds')
                consumed.extend(src.c[src.k:src.k + 64])
                return 0

            def memcpy(interp, args, node):
                d, s_, cnt = args
                if span(s_, cnt, 'memcpy reads') is None or span(d, cnt, 'memcpy writes') is None:
                    raise pe.PathAbort('out-of-bounds')
                for k_ in range(cnt):
                    d.c[d.k + k_] = s_.c[s_.k + k_]
                return d
            it = pe.Interp([tu], {'SHA1Transform': transform, 'memcpy': memcpy, '__builtin_memcpy': memcpy})
            it.cur_tu = tu
            data = [('d', k_) for k_ in range(ln)]
            buf = [('old', k_) for k_ in range(fill)] + [None] * (64 - fill)
            ctx = {'v': {'state': [0] * 5, 'count': fill * 8, 'buffer': buf}}
            try:
                paths = it.explore(lambda: ('SHA1Update', [Ptr(ctx, 'v'), Ptr(data, 0), ln], {}))
            except (pe.PEError, IndexError, TypeError) as e:
                raise AnalysisBroken('SHA1Update(fill=%d, len=%d): %s' % (fill, ln, e))
            n += 1
            what = 'SHA1Update with %d bytes already buffered and %d bytes of input' % (fill, ln)
            if problem or len(paths) != 1 or paths[0].aborted:
                bad = bad or '%s: %s' % (what, '; '.join(problem) or 'aborted (%r)' % (paths[0].aborted if paths else None))
                continue
            c2 = paths[0].state if False else ctx['v']
            total = fill + ln
            rest = c2['buffer'][:total % 64]
            stream = [('old', k_) for k_ in range(fill)] + data
            if consumed + rest != stream or c2['count'] != total * 8:
                bad = bad or '%s: hashes %d block bytes and keeps %d - not the %d input bytes in order (bit count %r)' % (
                    what, len(consumed), len(rest), total, c2['count'])
    chk.expect(bad is None, rule, 'sha1-update-bounds',
               '%s - every function body is hashed, so a body of that length makes the translator read or write outside an object' % bad,
               'SHA1Update:block-loop', detail_ok='%d (buffer fill, input length) combinations: every block and copy inside the input and the '
               'context buffer, input consumed in order' % n)
    return n


def run(chk):
    chk.explanation = (
        'Whole-translator syntactic/dataflow rules over the clang ASTs of every translator source file: worst-case output length of each '
        'sprintf against its destination array using value ranges of the promoted arguments; source-derived-from-destination analysis for '
        'restrict-qualified copy functions; branch-sensitive must-analysis (structured dominance with facts from comparison outcomes, killed '
        'by writes and by calls that modify the compared fields) for raw Buffer.data accesses and for pointers that flow - through fields, '
        'locals, parameters and returns, interprocedurally - from locations the code itself treats as possibly NULL. These are necessary '
        'conditions for the absence of the corresponding memory errors on every module; termination and the full memory safety of index '
        'arithmetic that relies on module validity are not decided.')
    chk.assumptions = ['PATH_MAX bounds command-line paths (the OS rejects longer ones)', 'allocation failure is outside the property',
                       'the locals declarations of a function body lie inside its code entry (module validity)']
    tus = load_units(chk)
    funcs = all_functions(tus)
    chk.extra['functions_scanned'] = len(funcs)
    n_fmt = check_formatted_writes(chk, funcs)
    n_cp = check_overlap(chk, funcs)
    mods = field_mods(funcs)
    n_buf = check_buffer_access(chk, funcs, mods)
    nf = NullFlow(chk, funcs)
    just = nf.seeds_justified()
    for kind, rec, field, why in NULLABLE_SEEDS:
        chk.require((kind, rec, field) in just, 'R10.4 anchor: no site stores or tests NULL for %s.%s any more - re-derive the nullable locations' % (rec, field))
    nf.propagate()
    n_null = nf.check()
    n_wr = check_writer_bounds(chk)
    n_al = check_allocation_bounds(chk, funcs)
    n_nm = check_name_dedup(chk, chk.tier)
    n_gr = check_growable(chk)
    n_ca = check_count_array_pairs(chk, funcs)
    n_ns = check_names_subscripts(chk, funcs)
    n_is = check_index_space_split(chk, funcs)
    chk.require(n_is >= 5, 'only %d index-space subtractions found (expected >= 5): anchor drifted' % n_is)
    chk.require(n_ns >= 5, 'only %d subscripts of a WasmNames table found (expected >= 5): anchor drifted' % n_ns)
    n_ee = check_exact_end(chk)
    # R10.14: the translator does not stop (abort / failed assertion) on a valid module: the data-segment blob writer evaluated on modules
    # with empty and non-empty segments with fwrite's return-value semantics (decision shared with C06 R06.3)
    from . import c06
    from .. import emit as _emit
    tus6 = _emit.translator_tus(('c.c', 'opcode.c', 'instruction.c'), chk=chk)
    it6 = c06.make(tus6)
    modes6 = dict(tus6[0].enum_decls.get('WasmDataSegmentMode', []))
    chk.require('wasmDataSegmentModeGNULD' in modes6, 'enum WasmDataSegmentMode not found')
    bad6 = c06.concrete_blob_writer(it6, modes6['wasmDataSegmentModeGNULD'])
    chk.expect(bad6 is None, 'R10.14', 'blob-writer-valid-modules', 'the data-segment blob writer: %s' % bad6, 'wasmCWriteDataSegmentsFromSection:blob',
               detail_ok='modules with empty and non-empty segments are written completely, without abort')
    chk.floor('R10.14', 1)
    # R10.15: no abort / failed assertion on valid input in dead code: every instruction in dead code is skipped with the immediates of
    # its encoding consumed; dead branches whose label depth reaches beyond the live labels included (rule shared with C03 R03.3)
    from . import c03 as _c03
    it15 = _emit.make_interp(tus6)
    n_before = len(chk.obligations)
    _c03.check_ignore_equivalence(chk, it15, rule_dead='R10.15')
    chk.floor('R10.15', 4)
    check_hash_update(chk)
    chk.floor('R10.16', 1)
    check_owned_array_stores(chk, funcs)
    chk.floor('R10.17', 1)
    chk.extra['sites'] = dict(sprintf=n_fmt, copies=n_cp, raw_buffer=n_buf, nullable_sinks=n_null,
                              tainted_locations=sorted(map(str, nf.tainted)), seed_evidence={str(k): v[:3] for k, v in just.items()})
    chk.floor('R10.1', 10)
    chk.floor('R10.2', 10)
    chk.floor('R10.3', 12)
    chk.floor('R10.4', 6)
    chk.floor('R10.5', 2)
    chk.floor('R10.6', 30)
    chk.floor('R10.7', 30)
