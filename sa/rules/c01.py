"""C01  Integer instruction semantics and integer traps survive translation.

R01.1  dispatch exhaustiveness: every integer numeric encoding has an enumerator, reaches an emitter and the
       opcode type tables agree with the specification signature
R01.2  stack effect and result slot of every template
R01.3  semantic descriptor of the typed template equals the specification row; independently, the typed expression is evaluated
       exactly (C semantics per node type, traps as outcomes, undefined behaviour detected) on a grid of boundary operands against
       reference semantics of the instruction - for an accepted row as a second decision, for a shape the descriptors do not
       recognise as the refutation engine (disagreement = violation with its witness, agreement = not decided)
R01.4  trap plumbing (TRAP -> trap(enumerator); distinct codes)
"""
from .. import astdb, pe, emit, oracle, templates, ctyperules as ct, semrules as sr
from ..astdb import AnalysisBroken

INT_CLASSES = ('eqz', 'icmp', 'clz', 'ctz', 'popcnt', 'bin', 'div', 'rem', 'shift', 'rot', 'wrap', 'extend')
FILLER = ['i64']
TABLE_FNS = ('wasmOpcodeResultType', 'wasmOpcodeParameter1Type')


def int_rows():
    return [r for r in oracle.ROWS if r['sem'].get('cls') in INT_CLASSES
            and (r['sem'].get('type', 'i32') in ('i32', 'i64'))]


def value_types(it):
    from .c07 import decode_valuetypes
    return decode_valuetypes(it)


def slot_name(vt_tables, t, idx):
    return 's%s%d' % (vt_tables['letter'][t], idx)


def read_type_tables(chk, ctu, it, vts, rule='R01.2'):
    """valueTypeNames / valueTypeStackNames of c.c, indexed by wasm type; checked against the C typedefs"""
    def glob(name):
        vd = ctu.vars.get(name)
        chk.require(vd is not None, 'anchor table %s not found in c.c' % name)
        it.cur_tu = ctu
        it.globals = {}
        it.frame = {}
        cell = it.global_cell({'id': vd['id'], 'name': name, 'kind': 'VarDecl'}, vd)
        return it.load(cell[0], cell[1])
    names = glob('valueTypeNames')
    letters = glob('valueTypeStackNames')
    out = {'ctype': {}, 'letter': {}}
    want = {'i32': ('int', 32, False), 'i64': ('int', 64, False), 'f32': ('float', 32), 'f64': ('float', 64)}
    for t, v in vts.items():
        cname = names[v]
        letter = chr(letters[v]) if isinstance(letters[v], int) else letters[v]
        out['ctype'][t] = cname
        out['letter'][t] = letter
        ti = ct.tinfo(ctu.desugar(cname))
        chk.expect(ti == want[t], rule, 'slot-type:' + t,
                   'operand slots of wasm type %s are declared as %s (%r); the specification needs %r'
                   % (t, cname, ti, want[t]), 'valueTypeNames/' + t,
                   detail_ok='%s slots are %s, prefix letter %s' % (t, cname, letter))
    chk.expect(len(set(out['letter'].values())) == 4, rule, 'slot-letters-distinct',
               'two value types share a slot-name letter: %r' % out['letter'], 'valueTypeStackNames')
    return out


def run_rows(chk, rows, configs, matcher, rule_prefix, tier, header_configs=None):
    """shared driver for C01/C02: extraction, R0x.1, R0x.2, harness, R0x.3 via matcher(row, rhs, ops, ctx)"""
    tus = emit.translator_tus(('c.c', 'opcode.c', 'instruction.c'), chk=chk)
    ctu = tus[0]
    it = emit.make_interp(tus)
    vts = value_types(it)
    tabs = read_type_tables(chk, ctu, it, vts, rule_prefix + '.2')
    enum = {}
    for name in ('WasmOpcode', 'WasmMiscOpcode', 'WasmThreadsOpcode'):
        enum[name] = dict((v, k) for k, v in ctu.enum_decls.get(name, []))
    chk.require(enum['WasmOpcode'], 'enum WasmOpcode not found')
    R1, R2, R3 = rule_prefix + '.1', rule_prefix + '.2', rule_prefix + '.3'
    harness = templates.Harness()
    planned = []
    for row in rows:
        enc = row['enc']
        nm = row['name']
        site = 'dispatch/' + nm
        table = enum['WasmOpcode'] if len(enc) == 1 else enum['WasmMiscOpcode' if enc[0] == 0xFC else 'WasmThreadsOpcode']
        if not chk.expect(enc[-1] in table, R1, nm + ':enumerator',
                          'no enumerator with value 0x%X for %s' % (enc[-1], nm), site):
            continue
        stack = FILLER + row['params']
        base = len(FILLER)
        ops = [slot_name(tabs, t, base + k) for k, t in enumerate(row['params'])]
        res_t = row['results'][0]
        res_slot = slot_name(tabs, res_t, base)
        for (pretty, multiple) in configs:
            inst = '%s[p%d,m%d]' % (nm, pretty, multiple)
            consulted = set()
            it.on_call = lambda name, args, node: consulted.add(name) if name in TABLE_FNS else None
            try:
                tpls = templates.extract(it, row, stack, pretty, multiple)
            finally:
                it.on_call = None
            # opcode type tables: checked exactly where an emitter consults them for this opcode
            if pretty == 0 and multiple == 0 and len(enc) == 1:
                for fn in sorted(consulted):
                    want_t = row['results'][0] if fn == 'wasmOpcodeResultType' else row['params'][0]
                    r = it.explore(lambda fn=fn: (fn, [enc[0]], {}))[0].ret
                    chk.expect(r == vts[want_t], R1, '%s:%s' % (nm, fn),
                               '%s(0x%02X) = %r is consulted by the emitter; the specification signature says %s (%d)'
                               % (fn, enc[0], r, want_t, vts[want_t]), '%s/0x%02X' % (fn, enc[0]))
            good = [t for t in tpls if t.ok]
            if not chk.expect(len(tpls) == 1 and len(good) == 1 and good[0].parts, R1, inst + ':emits',
                              'dispatch of 0x%s yields %d paths (%d successful) - expected exactly one emitting path; %s'
                              % ('%02X' % enc[0] if len(enc) == 1 else '%02X %d' % enc, len(tpls), len(good),
                                 '; '.join(t.cond for t in tpls)[:300]), site):
                continue
            t = good[0]
            text = t.text()
            chk.require(not t.has_unknown_parts(), 'template of %s has unresolved parts: %r' % (nm, text))
            want_after = FILLER + row['results']
            chk.expect(t.stack_after == want_after, R2, inst + ':stack',
                       'type stack after %s is %r, specification: %r -> %r' % (nm, t.stack_after, stack, want_after), site,
                       detail_ok='%r -> %r' % (stack, t.stack_after))
            # the slot that becomes the new top must be declared with the result type
            d = t.decls.get(base, set())
            chk.expect(res_t in d, R2, inst + ':decl',
                       'result slot %s is not recorded in stackDeclarations (recorded: %r) - it would be undeclared in C'
                       % (res_slot, t.decls), site)
            chk.expect(t.ignore_after == 0, R2, inst + ':no-ignore', 'emitter switched to ignore mode', site)
            fname = 'T_%s_p%d_m%d' % (nm.replace('.', '_'), pretty, multiple)
            harness.add(fname, text)
            planned.append((row, fname, inst, ops, res_slot, res_t, text))
            if pretty == 0 and multiple == 0:
                chk.sample(dict(op=nm, enc=list(enc), template=text.strip()))
    results = {}
    for hc_name, hc_flags in (header_configs or [('default', [])]):
        tu = harness.parse(hc_name, hc_flags)
        chk.unit(tu)
        for row, fname, inst, ops, res_slot, res_t, text in planned:
            nm = row['name']
            site = 'template/' + nm
            stmts = ct.statements(tu.fn(fname))
            stmts = [s for s in stmts if s.get('kind') != 'NullStmt']
            if len(stmts) != 1:
                raise AnalysisBroken('template of %s is not a single statement: %r' % (nm, text))
            e = ct.simplify(stmts[0], tu)
            if e.k != 'assign' or e.a[0].k != 'var':
                raise AnalysisBroken('template of %s is not an assignment to a slot: %r' % (nm, text))
            iname = inst if hc_name == 'default' else '%s@%s' % (inst, hc_name)
            chk.expect(e.a[0].x == res_slot, R2, iname + ':dest',
                       'result is written to %s, the new top of the stack is %s' % (e.a[0].x, res_slot), site, e.loc())
            mres = matcher(row, e.a[1], ops, dict(tu=tu, res_t=res_t, config=hc_name, tier=tier, chk=chk))
            probs, decided = mres[0], mres[1]
            R3x = mres[2] if len(mres) > 2 else R3
            if not decided:
                chk.note('%s [%s]: agrees with the specification on the operand grid (portable implementation without builtins; not decided for all operands)' % (nm, hc_name))
                continue
            if probs:
                for p in probs:
                    chk.fail(R3x, iname, '%s: %s   [template: %s]' % (nm, p, text.strip()), site, e.loc(),
                             template=text.strip())
            else:
                chk.ok(R3x, iname, repr(e)[:400])
    return dict(tus=tus, it=it, vts=vts, tabs=tabs)


def _header_call_hook(tu_):
    """calls of functions defined in the runtime header, evaluated by the partial evaluator on concrete arguments"""
    def hook(name, args):
        f_ = tu_.functions.get(name)
        if f_ is None or astdb.fn_body(f_) is None or not (astdb.file_of(f_) or '').endswith('w2c2_base.h'):
            return None
        it_ = pe.Interp([tu_], {})
        it_.cur_tu = tu_
        ps_ = [p_ for p_ in it_.explore(lambda: (name, list(args), {})) if not p_.aborted]
        if len(ps_) != 1 or not isinstance(ps_[0].ret, int):
            return None
        return ps_[0].ret
    return hook


def int_matcher(row, rhs, ops, ctx):
    """descriptor match; a shape the descriptors do not recognise is evaluated exactly on a grid of boundary operands - a
    disagreement with the specification is a definite violation (with its witness), agreement leaves the row undecided (exit 2)"""
    fallback = ctx.get('config') == 'fallback' and row['sem']['cls'] in sr.BITCOUNT_BUILTINS
    if fallback:
        # a bit-counting function of the header without compiler builtins: its body is evaluated by the partial evaluator on the
        # grid operands (through the call hook of the expression evaluator); a disagreement is a violation, agreement on the
        # grid is reported as what it is - not a decision for all operands
        ct.CALL_HOOK[0] = _header_call_hook(ctx['tu'])
    try:
        return _int_matcher_grid(row, rhs, ops, ctx, fallback)
    finally:
        ct.CALL_HOOK[0] = None


def _int_matcher_grid(row, rhs, ops, ctx, fallback):
    try:
        res = _int_matcher(row, rhs, ops, ctx)
        if not res[1] and not res[0]:
            bad = sr.refute_on_grid(row, rhs, ops, sr.W_OF[ctx['res_t']])
            if bad:
                return ['implementation without compiler builtins: %s' % bad], True
            return res
        if not res[0]:
            # second, independent decision of the same row: exact evaluation on the boundary grid (also a self-test of the evaluator)
            try:
                bad = sr.refute_on_grid(row, rhs, ops, sr.W_OF[ctx['res_t']], small=ctx.get('tier') != 'thorough')
            except AnalysisBroken:
                bad = None
            if bad:
                return ['descriptor accepted the template but %s' % bad], True
        return res
    except AnalysisBroken as ex:
        bad = sr.refute_on_grid(row, rhs, ops, sr.W_OF[ctx['res_t']])
        if bad is None:
            if fallback:
                return [], False        # agrees on the grid; the arithmetic of the portable implementation is not decided for all operands
            if ctx.get('chk') is not None:
                # not decided - but the other rows still are: a definite violation elsewhere must not be hidden by this one
                ctx['chk'].undecide('%s (agrees with the specification on the boundary grid, which does not decide all operands)' % ex)
                return [], False
            raise AnalysisBroken('%s (agrees with the specification on the boundary grid, which does not decide all operands)' % ex)
        return ['%s (shape not recognised: %s)' % (bad, str(ex)[:160])], True


def _int_matcher(row, rhs, ops, ctx):
    cls = row['sem']['cls']
    if cls == 'bin':
        return sr.descr_bin(row, rhs, ops), True
    if cls == 'icmp':
        return sr.descr_icmp(row, rhs, ops), True
    if cls == 'eqz':
        return sr.descr_eqz(row, rhs, ops), True
    if cls == 'shift':
        return sr.descr_shift(row, rhs, ops), True
    if cls == 'rot':
        return sr.descr_rot(row, rhs, ops), True
    if cls in ('div', 'rem'):
        return sr.descr_divrem(row, rhs, ops), True
    if cls in ('clz', 'ctz', 'popcnt'):
        return sr.descr_bitcount(row, rhs, ops)
    if cls in ('wrap', 'extend'):
        return sr.descr_castchain(row, rhs, ops, sr.W_OF[ctx['res_t']]), True
    raise AnalysisBroken('no matcher for class %s' % cls)


def check_trap_plumbing(chk, tu):
    vals = dict(tu.enum_decls.get('Trap', []))
    chk.require(vals, 'enum Trap not found in w2c2_base.h')
    need = [sr.TRAP_DIVZERO, sr.TRAP_OVERFLOW, sr.TRAP_INVALID]
    ok = all(n in vals for n in need) and len({vals.get(n) for n in need}) == len(need)
    chk.expect(ok, 'R01.4', 'trap-codes-distinct',
               'enum Trap does not give divide-by-zero, integer-overflow and invalid-conversion distinct codes: %r' % vals,
               'enum Trap')
    d = tu.decls.get('trap')
    chk.expect(d is not None and d.get('kind') == 'FunctionDecl', 'R01.4', 'trap-declared',
               'no function trap(Trap) declared by w2c2_base.h', 'trap')


def run(chk):
    chk.explanation = (
        'For each of the integer numeric encodings the emitter is partially evaluated on its dispatch-table row; the '
        'emitted statement is parsed against the current w2c2_base.h and its typed AST (macros expanded) is reduced '
        'to a semantic descriptor - operator, operand order, bit-slice interpretation (signed/unsigned, width) of '
        'each operand through all casts, shift masks, rotate counts as affine forms mod W, guard/trap structure of '
        'div/rem - which must equal the specification row. Decides the per-instruction translation, not the host '
        'compiler nor the composition over nestings (that induction is C03).')
    chk.assumptions = ['clang front end typing/macro expansion is correct',
                       'two\'s complement, 8-bit bytes, int = 32 bits, long long = 64 bits (checked for the slot typedefs)',
                       'the portable bit-counting functions of the header (compilers without __has_builtin) are evaluated exactly on about 400 operand '
                       'patterns per function (every single bit, every run of ones, byte patterns) - refuted when wrong there, not proved for all operands']
    rows = int_rows()
    chk.require(len(rows) == 66, 'oracle lists %d integer numeric rows, expected 66' % len(rows))
    configs = [(0, 0), (1, 0)] if chk.tier == 'quick' else [(0, 0), (1, 0), (0, 1), (1, 1)]
    # the second configuration is the header as a compiler without the GNU builtins sees it (portable fallback implementations)
    header_configs = [('default', []), ('fallback', ['-U__GNUC__', '-U__clang__', '-U__has_builtin', '-D__inline__=inline', '-D__builtin_va_list=void*']),
                      ('ndebug', ['-DNDEBUG', '-D__OPTIMIZE__=1'])]      # release builds of the generated code: same semantics, same traps
    ctx = run_rows(chk, rows, configs, int_matcher, 'R01', chk.tier, header_configs)
    htu = astdb.header_tu('w2c2/w2c2_base.h', ['-std=gnu89'])
    check_trap_plumbing(chk, htu)
    n = len(rows) * len(configs)
    chk.floor('R01.1', len(rows) + n)
    chk.floor('R01.2', 3 * n)
    chk.floor('R01.3', n - 12)
    chk.exhaustive = True
    chk.extra['rows'] = len(rows)
    chk.extra['configurations'] = ['pretty=%d,multipleModules=%d' % c for c in configs]
