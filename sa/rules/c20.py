"""C20  The translator touches only its own output files.

R20.1  who may create: every file-creating / -mutating libc call in w2c2/*.c is enumerated; each write-mode fopen
       name must come (through parameters, struct fields and local copies, followed interprocedurally) from a
       basename() copy of the output path (optionally with its extension replaced by ".h"), from the
       "%c%010u.c" sprintf whose prefix flows from the literals 's'/'d', or from the literal "datasegments";
       inputs are opened read-only
R20.5  the names handed to the header and implementation writers are functions of the LAST component of the output path only:
       wasmCWriteModule's string manipulation is partially evaluated (strcpy/strrchr/basename/memmove/strlen modelled on
       character arrays) for a family of paths with dotted directories, missing extensions and several dots; the
       implementation name must be the last component and the header name that component with its extension replaced by .h
R20.6  the directory change really happens: changeToOutputDirectory is partially evaluated on a family of output paths (relative,
       dot-prefixed, parent-relative, absolute, bare names); it must succeed only after chdir(d) with d = dirname(path), or without
       any chdir only when dirname(path) is the current directory itself
R20.2  all those names are separator-free and chdir(dirname(output)) dominates the writer and the cleaner
R20.3  who may delete: remove() is called only by the cleaner, which runs only under the clean flag
R20.4  the delete filter equals the naming scheme: the set of names reaching remove() (computed by partial
       evaluation over symbolic characters for every length 0..20) equals [sd][0-9]{10}\\.c, and the writer's
       format produces exactly that shape with a buffer of matching size
"""
import re

from .. import astdb, pe, emit, cfg
from ..astdb import kids, walk, AnalysisBroken
from ..pe import Ptr, unk, is_sym, Sym

UNITS = ['array.c', 'c.c', 'compat.c', 'debug.c', 'export.c', 'file.c', 'instruction.c', 'main.c', 'opcode.c',
         'reader.c', 'section.c', 'sha1.c', 'stringbuilder.c', 'valuetype.c']
CREATORS = {'fopen', 'freopen', 'open', 'open64', 'creat', 'remove', 'unlink', 'rename', 'mkdir', 'rmdir', 'tmpfile',
            'system', 'popen', 'mkstemp', 'mktemp', 'truncate', 'ftruncate', 'symlink', 'link', 'chmod', 'fdopen',
            'openat', 'unlinkat', 'renameat', 'mkdirat', 'execv', 'execvp', 'execl', 'fork'}
SEP = ('/', '\\')


class Prov:
    """string provenance by backward def-use search through locals, parameters (all call sites) and struct fields"""

    def __init__(self, tus):
        self.tus = tus
        self.fn_of = {}          # function name -> (decl, tu)
        self.calls = {}          # callee name -> [(call node, caller decl, tu)]
        self.field_stores = {}   # field name -> [(rhs node, fn decl, tu)]
        for tu in tus:
            for name, f in tu.functions.items():
                if not (astdb.file_of(f) or '').startswith(astdb.REPO):
                    continue
                self.fn_of.setdefault(name, (f, tu))
                for n in walk(astdb.fn_body(f)):
                    if n.get('kind') == 'CallExpr':
                        cn = astdb.callee_name(n)
                        if cn:
                            self.calls.setdefault(cn, []).append((n, f, tu))
                    elif n.get('kind') == 'BinaryOperator' and n.get('opcode') == '=':
                        l = astdb.strip(kids(n)[0])
                        if l.get('kind') == 'MemberExpr':
                            self.field_stores.setdefault(l.get('name'), []).append((kids(n)[1], f, tu))

    def of(self, node, fn, depth=0, seen=None):
        seen = seen if seen is not None else set()
        key = (id(node), fn.get('name'))
        if depth > 12 or key in seen:
            return set()
        seen.add(key)
        n = astdb.strip(node, casts=True)
        k = n.get('kind')
        if k == 'StringLiteral':
            return {'lit:' + astdb.c_unescape(n['value'])}
        if k == 'CharacterLiteral':
            return {'chr:' + chr(int(n['value']))}
        if k == 'CallExpr':
            cn = astdb.callee_name(n)
            if cn in ('basename', '__xpg_basename', '__gnu_basename'):
                return {'basename'}
            if cn in ('dirname', '__xpg_dirname'):
                return {'dirname'}
            return {'call:%s' % cn}
        if k == 'MemberExpr':
            out = set()
            for rhs, f2, tu2 in self.field_stores.get(n.get('name'), []):
                out |= self.of(rhs, f2, depth + 1, seen)
            return out or {'field:' + str(n.get('name'))}
        if k == 'ArraySubscriptExpr':
            return {'elem-of:' + astdb.expr_text(kids(n)[0])}
        if k == 'DeclRefExpr':
            rd = n['referencedDecl']
            if rd['kind'] == 'ParmVarDecl':
                params = astdb.fn_params(fn)
                idx = [i for i, p in enumerate(params) if p['id'] == rd['id']]
                if not idx:
                    return {'param?'}
                sites = self.calls.get(fn.get('name'), [])
                if fn.get('name') == 'main':
                    return {'argv'}
                out = set()
                for call, caller, tu2 in sites:
                    args = astdb.call_args(call)
                    if idx[0] < len(args):
                        out |= self.of(args[idx[0]], caller, depth + 1, seen)
                if not sites:
                    # functions used through pointers (thread entry): parameters come from fields
                    out |= {'param-of-uncalled:%s' % fn.get('name')}
                return out
            if rd['kind'] == 'VarDecl':
                return self.local(rd, fn, depth, seen)
        if k == 'ConditionalOperator':
            return self.of(kids(n)[1], fn, depth + 1, seen) | self.of(kids(n)[2], fn, depth + 1, seen)
        return {'expr:' + str(k)}

    def local(self, rd, fn, depth, seen):
        """everything written into local variable rd (array or pointer) inside fn"""
        out = set()
        vid = rd['id']
        body = astdb.fn_body(fn)
        derived = {vid}          # pointers derived from the variable (strrchr(v, ..), v + n)
        for n in walk(body):
            if n.get('kind') == 'VarDecl' and n.get('id') == vid:
                ini = [c for c in kids(n) if c.get('kind')]
                if ini and n.get('init'):
                    out |= self.of(ini[-1], fn, depth + 1, seen)
        changed = True
        while changed:
            changed = False
            for n in walk(body):
                if n.get('kind') == 'VarDecl' and n.get('id') not in derived:
                    ini = [c for c in kids(n) if c.get('kind')]
                    if ini and n.get('init') and self._mentions(ini[-1], derived):
                        derived.add(n['id'])
                        changed = True
                if n.get('kind') == 'BinaryOperator' and n.get('opcode') == '=':
                    l = astdb.strip(kids(n)[0])
                    if l.get('kind') == 'DeclRefExpr' and l['referencedDecl']['id'] not in derived \
                            and self._mentions(kids(n)[1], derived):
                        derived.add(l['referencedDecl']['id'])
                        changed = True
        for n, conditional in self._ordered(body):
            if n.get('kind') == 'BinaryOperator' and n.get('opcode') == '=':
                l = astdb.strip(kids(n)[0])
                if l.get('kind') == 'DeclRefExpr' and l['referencedDecl']['id'] == vid:
                    if not conditional:
                        out = set()
                    out |= self.of(kids(n)[1], fn, depth + 1, seen)
            if n.get('kind') == 'CallExpr':
                cn = astdb.callee_name(n)
                args = astdb.call_args(n)
                if cn in ('strcpy', 'strcat', 'strncpy', 'memcpy', 'memmove', '__builtin_strcpy', '__builtin_memmove') and args:
                    d = astdb.strip(args[0], casts=True)
                    if d.get('kind') == 'DeclRefExpr':
                        did = d['referencedDecl']['id']
                        if did == vid:
                            src = self.of(args[1], fn, depth + 1, seen)
                            whole = cn in ('strcpy', '__builtin_strcpy') or (
                                cn in ('memmove', '__builtin_memmove', 'memcpy') and len(args) == 3 and self._strlen_plus_one(args[2], args[1], body))
                            if whole and not conditional:
                                out = set()      # a straight-line strcpy (or memmove of strlen+1 bytes) replaces the whole string
                            out |= src
                        elif did in derived:
                            src = self.of(args[1], fn, depth + 1, seen)
                            out |= {('ext:' + t[4:]) if t.startswith('lit:') else 'tail:' + t for t in src}
                if cn in self.fn_of and depth < 6:
                    # the variable is handed to a helper that fills it through its parameter (out-parameter)
                    g, gtu = self.fn_of[cn]
                    gparams = astdb.fn_params(g)
                    for ai, a_ in enumerate(args):
                        d_ = astdb.strip(a_, casts=True)
                        if d_.get('kind') == 'DeclRefExpr' and d_['referencedDecl'].get('id') == vid and ai < len(gparams) \
                                and 'const' not in gtu.desugar(astdb.qtype(gparams[ai])).split('*')[0]:
                            w = self.local(gparams[ai], g, depth + 1, seen)
                            w = {t for t in w if not t.startswith('uninit-local:')}
                            if w:
                                if not conditional:
                                    out = set()
                                out |= w
                if cn in ('sprintf', 'snprintf') and args:
                    d = astdb.strip(args[0], casts=True)
                    if d.get('kind') == 'DeclRefExpr' and d['referencedDecl']['id'] == vid:
                        fi = 1 if cn == 'sprintf' else 2
                        fmt = astdb.string_value(args[fi])
                        if not conditional:
                            out = set()
                        out.add('sprintf:%s' % fmt)
                        for j, a in enumerate(args[fi + 1:]):
                            for t in self.of(a, fn, depth + 1, seen):
                                out.add('sprintf-arg%d:%s' % (j, t))
        return out or {'uninit-local:' + rd.get('name', '?')}

    @staticmethod
    def _ordered(body):
        """(node, conditional?) in source order; conditional = nested in a branch/loop of the function"""
        out = []

        def rec(n, cond):
            if not isinstance(n, dict) or not n.get('kind'):
                return
            k = n['kind']
            out.append((n, cond))
            if k in ('IfStmt', 'ForStmt', 'WhileStmt', 'DoStmt', 'SwitchStmt', 'ConditionalOperator'):
                inner = n.get('inner', [])
                for i, c in enumerate(inner):
                    rec(c, cond or not (k == 'IfStmt' and i == 0))
            else:
                for c in n.get('inner', []):
                    rec(c, cond)
        rec(body, False)
        return out

    @staticmethod
    def _strlen_plus_one(n, src, body=None):
        """n is strlen(src) + 1 (directly, or through a local that is defined exactly once with that value)"""
        n = astdb.strip(n, casts=True)
        if n.get('kind') == 'DeclRefExpr' and n['referencedDecl'].get('kind') == 'VarDecl' and body is not None:
            vid = n['referencedDecl']['id']
            defs = []
            for x in walk(body):
                if x.get('kind') == 'VarDecl' and x.get('id') == vid and x.get('init'):
                    defs.append([c for c in kids(x) if c.get('kind')][-1])
                elif x.get('kind') == 'BinaryOperator' and x.get('opcode') == '=':
                    l = astdb.strip(kids(x)[0])
                    if l.get('kind') == 'DeclRefExpr' and l['referencedDecl'].get('id') == vid:
                        defs.append(kids(x)[1])
                elif x.get('kind') in ('CompoundAssignOperator', 'UnaryOperator') and x.get('opcode') in ('+=', '-=', '++', '--', '&'):
                    l = astdb.strip(kids(x)[0])
                    if l.get('kind') == 'DeclRefExpr' and l['referencedDecl'].get('id') == vid:
                        return False
            # a NULL/0 initialiser followed by the one real definition is the repository's declaration style
            real = [d for d in defs if astdb.const_int(astdb.strip(d, casts=True)) != 0]
            if len(real) != 1:
                return False
            n = astdb.strip(real[0], casts=True)
        if n.get('kind') != 'BinaryOperator' or n.get('opcode') != '+':
            return False
        a, b = [astdb.strip(x, casts=True) for x in kids(n)]
        if astdb.const_int(a) == 1:
            a, b = b, a
        if astdb.const_int(b) != 1 or a.get('kind') != 'CallExpr' or astdb.callee_name(a) not in ('strlen', '__builtin_strlen'):
            return False
        return astdb.expr_text(astdb.call_args(a)[0]) == astdb.expr_text(src)

    @staticmethod
    def _mentions(node, ids):
        return any(x.get('kind') == 'DeclRefExpr' and x['referencedDecl'].get('id') in ids for x in walk(node))


def allowed_write_name(tags):
    """-> (ok, reason)"""
    core = {t for t in tags if not t.startswith('sprintf-arg')}
    args = {t for t in tags if t.startswith('sprintf-arg')}
    if core == {'lit:datasegments'}:
        return True, 'literal "datasegments"'
    if core and core <= {'basename', 'ext:.h'} and 'basename' in core:
        return True, 'basename copy of the output path' + (' with extension .h' if 'ext:.h' in core else '')
    fm = [t for t in core if t.startswith('sprintf:')]
    if len(core) == 1 and fm:
        fmt = fm[0][8:]
        if any(s in fmt for s in SEP) or '%s' in fmt:
            return False, 'format %r can produce a path separator' % fmt
        chars = {t[len('sprintf-arg0:'):] for t in args if t.startswith('sprintf-arg0:')}
        bad = [c for c in chars if not (c.startswith('chr:') and c[4:] in ('s', 'd'))]
        if bad or not chars:
            return False, 'prefix argument of %r comes from %r, expected the literals \'s\' / \'d\'' % (fmt, sorted(chars))
        return True, 'format %r with prefix from %s' % (fmt, sorted(chars))
    return False, 'name comes from %s' % sorted(tags)


def check_creators(chk, tus, prov):
    n_sites = 0
    deferred = []
    for tu in tus:
        for fname, f in sorted(tu.functions.items()):
            if not (astdb.file_of(f) or '').startswith(astdb.REPO):
                continue
            if tu.functions.get(fname) is not f:
                continue
            for n in walk(astdb.fn_body(f)):
                if n.get('kind') != 'CallExpr':
                    continue
                cn = astdb.callee_name(n)
                if cn not in CREATORS:
                    continue
                # count each definition once (headers are included in several units)
                if (astdb.file_of(f) or '').endswith('.h') and not tu.path.endswith('c.c'):
                    continue
                n_sites += 1
                site = '%s/%s:%s' % (astdb.file_of(f).split('/')[-1], fname, cn)
                loc = astdb.loc_str(n)
                args = astdb.call_args(n)
                if cn == 'fopen':
                    mode = astdb.string_value(args[1])
                    if mode is None:
                        chk.fail('R20.1', site, 'fopen mode is not a string literal', site, loc)
                        continue
                    if mode in ('r', 'rb'):
                        chk.ok('R20.1', site + ':read-only', 'mode %r' % mode)
                        continue
                    tags = prov.of(args[0], f)
                    ok, why = allowed_write_name(tags)
                    if not ok and fname in ('wasmCWriteModuleHeader', 'wasmCWriteModuleImplementation') and tags and \
                            all(t.startswith(('uninit-local:', 'expr:', 'ext:', 'lit:')) for t in tags):
                        # the name is computed by a helper into a local of wasmCWriteModule (out-parameter) or by pointer arithmetic over the
                        # output path (a hand-written basename): the set-based provenance cannot see through it; R20.5 evaluates exactly
                        # these two names on a family of output paths instead
                        chk.note('R20.1 %s: name provenance %r not followed through the helper; decided by R20.5' % (site, sorted(tags)))
                        deferred.append(site)
                        chk.ok('R20.1', site + ':name-by-evaluation', 'decided by R20.5 on the output-path family')
                        continue
                    chk.expect(ok, 'R20.1', site + ':name',
                               '%s creates/overwrites a file (mode %r) whose name is not one of the translator\'s own outputs: %s'
                               % (fname, mode, why), site, loc, detail_ok=why)
                    sepfree = ok
                    chk.expect(sepfree, 'R20.2', site + ':separator-free',
                               'file name may contain a directory separator (%s)' % why, site, loc)
                    chk.sample(dict(rule='R20.1', site=site, mode=mode, provenance=sorted(tags), verdict=why))
                elif cn == 'remove':
                    chk.expect(fname == 'cleanImplementationFiles', 'R20.3', site,
                               '%s deletes files; only the implementation-file cleaner may' % fname, site, loc)
                else:
                    chk.fail('R20.1', site, '%s calls %s, which creates/changes files or runs programs outside the enumerated '
                             'output set' % (fname, cn), site, loc)
    chk.require(n_sites >= 6, 'only %d file-affecting call sites found (expected >= 6)' % n_sites)


def call_graph(prov):
    g = {}
    for callee, sites in prov.calls.items():
        for node, f, tu in sites:
            if callee in ('fopen', 'freopen') and astdb.string_value(astdb.call_args(node)[1]) in ('r', 'rb'):
                continue        # opening for reading creates nothing
            g.setdefault(f.get('name'), set()).add(callee)
    return g


def reaches(graph, start, leaves, _seen=None):
    """does a call of `start` reach (through direct callees) one of `leaves`?"""
    seen = _seen if _seen is not None else set()
    if start in leaves:
        return True
    if start in seen:
        return False
    seen.add(start)
    return any(reaches(graph, c, leaves, seen) for c in graph.get(start, ()))


def directory_changer(chk, prov):
    """the function that performs the chdir - found by the call, not by its name"""
    fns = sorted({f.get('name') for node, f, tu in prov.calls.get('chdir', [])})
    if len(fns) > 1:
        raise AnalysisBroken('chdir is called from %r: more than one directory changer is not a recognised shape' % fns)
    return fns[0] if fns else None


def check_effect_order(chk, prov, graph, changer, fname, depth=0, trail=()):
    """every call in `fname` that reaches a file-creating/deleting primitive is dominated by the directory change"""
    f, tu = prov.fn_of[fname]
    body = astdb.fn_body(f)
    chk.require(not cfg.has_goto(body), '%s uses goto' % fname)
    change = {changer, 'chdir'}

    def is_effect(n):
        if n.get('kind') != 'CallExpr':
            return False
        cn = astdb.callee_name(n)
        return bool(cn) and cn not in change and reaches(graph, cn, CREATORS)
    res = cfg.must_before(body, cfg.calls_gen, is_effect)
    found = set()
    for node, facts in res.values():
        cn = astdb.callee_name(node)
        found.add(cn)
        inst = '/'.join(trail + (fname, cn))
        if facts is not None and any('call:' + c in facts for c in change):
            chk.ok('R20.2', 'chdir-dominates:' + inst)
            continue
        through = [x[5:] for x in (facts or ()) if x.startswith('call:') and x[5:] not in change and reaches(graph, x[5:], {'chdir'})]
        if through:
            raise AnalysisBroken('%s: the directory change before %s happens inside %r - wrapper shape not recognised' % (fname, cn, through))
        if cn in prov.fn_of and reaches(graph, cn, {'chdir'}) and depth < 3:
            # the callee changes directory itself: the order must hold inside it
            found |= check_effect_order(chk, prov, graph, changer, cn, depth + 1, trail + (fname,))
            continue
        chk.fail('R20.2', 'chdir-dominates:' + inst,
                 '%s reaches %s (which creates or deletes files) on a path that has not changed into the output directory: its file '
                 'names are then resolved against the caller\'s working directory' % (fname, cn), fname + ':' + cn, astdb.loc_str(node))
    return found


def check_main_order(chk, main_tu, prov):
    f = main_tu.fn('main')
    body = astdb.fn_body(f)
    graph = call_graph(prov)
    changer = directory_changer(chk, prov)
    if changer is None:
        chk.fail('R20.2', 'chdir-exists', 'no function of the translator calls chdir: outputs and the -c cleaner act on the working directory',
                 'main:no-chdir')
        return None
    found = check_effect_order(chk, prov, graph, changer, 'main')
    targets = {'wasmCWriteModule', 'cleanImplementationFiles'}
    chk.require(targets <= found, 'main does not call %r' % (targets - found,))
    # the changer: chdir(dirname(copy of its parameter)), failure leaves the function with false
    g, gtu = prov.fn_of[changer]
    ch = [n for n in walk(astdb.fn_body(g)) if n.get('kind') == 'CallExpr' and astdb.callee_name(n) == 'chdir']
    chk.require(len(ch) == 1, '%s has %d chdir calls' % (changer, len(ch)))
    tags = prov.of(astdb.call_args(ch[0])[0], g)
    chk.expect('dirname' in tags, 'R20.2', 'chdir-target', 'chdir target comes from %s, expected dirname(output path)' % sorted(tags),
               changer + ':chdir', astdb.loc_str(ch[0]))
    # every caller must give up when the change fails
    sites = prov.calls.get(changer, []) if changer != 'main' else []
    chk.require(changer == 'main' or sites, '%s is never called' % changer)
    for node, caller, ctu in sites:
        ifs = [n for n in walk(astdb.fn_body(caller)) if n.get('kind') == 'IfStmt' and any(x is node for x in walk(n['inner'][0]))]
        ok = bool(ifs) and any(x.get('kind') == 'ReturnStmt' for x in walk(ifs[0]['inner'][1]))
        chk.expect(ok, 'R20.2', 'chdir-failure-exits:' + caller.get('name'), '%s continues after a failed change of directory' % caller.get('name'),
                   caller.get('name') + ':chdir-failure')
    # R20.3: the cleaner runs only under the clean flag, and only main calls it
    callers = prov.calls.get('cleanImplementationFiles', [])
    chk.expect(len(callers) == 1 and callers[0][1].get('name') == 'main', 'R20.3', 'cleaner-callers',
               'cleanImplementationFiles is called from %r' % [c[1].get('name') for c in callers], 'cleanImplementationFiles:callers')
    guarded = False
    for n in walk(body):
        if n.get('kind') == 'IfStmt':
            cond = astdb.strip(n['inner'][0])
            if astdb.ref_name(cond) == 'clean' and any(x.get('kind') == 'CallExpr' and astdb.callee_name(x) == 'cleanImplementationFiles'
                                                       for x in walk(n['inner'][1])):
                guarded = True
    chk.expect(guarded, 'R20.3', 'cleaner-under-flag', 'cleanImplementationFiles is not guarded by the clean option', 'main:clean-guard')
    # clean is set only by the -c option
    sets = [n for n in walk(body) if n.get('kind') == 'BinaryOperator' and n.get('opcode') == '=' and astdb.ref_name(kids(n)[0]) == 'clean']
    chk.expect(len(sets) == 1, 'R20.3', 'clean-flag-single-source', 'the clean flag is assigned at %d places' % len(sets), 'main:clean-flag')
    # ... and that place is reached for one option letter only: no other option's arm falls through into it
    for sw in [n for n in walk(body) if n.get('kind') == 'SwitchStmt']:
        runs = switch_arm_runs(sw, main_tu)
        for labels, st in runs:
            if any(x is y for x in walk(st) for y in sets):
                names = sorted(('-%s' % chr(v)) if isinstance(v, int) and 32 < v < 127 else str(v) for v in labels)
                chk.expect(len(labels) == 1, 'R20.3', 'clean-flag-one-option',
                           'the clean flag is set on the arms of the options %s of main\'s option switch (an arm falls through into the next one): '
                           'a run without the clean option deletes the implementation files in the output directory' % ', '.join(names),
                           'main:option-switch', astdb.loc_str(st))


def switch_arm_runs(sw, tu):
    """[(set of case values whose execution reaches the statement - fall-through included, statement)] for the top-level statements of
    a switch body; a case value is a character constant's number, 'default' for the default label"""
    body = kids(sw)[-1]
    stmts = body.get('inner', []) if body.get('kind') == 'CompoundStmt' else [body]
    out = []
    active = set()

    def terminates(st):
        k = st.get('kind')
        if k in ('BreakStmt', 'ReturnStmt', 'GotoStmt', 'ContinueStmt'):
            return True
        if k == 'CallExpr' and astdb.callee_name(st) in ('abort', 'exit', '_exit'):
            return True
        if k == 'CompoundStmt':
            inner = [c for c in st.get('inner', []) if c.get('kind')]
            return bool(inner) and terminates(inner[-1])
        if k == 'IfStmt':
            ks = [c for c in st.get('inner', []) if c.get('kind')]
            return len(ks) == 3 and terminates(ks[1]) and terminates(ks[2])
        return False
    for st in stmts:
        cur = st
        while cur.get('kind') in ('CaseStmt', 'DefaultStmt'):
            if cur.get('kind') == 'CaseStmt':
                v = astdb.const_int(kids(cur)[0], tu)
                active.add(v if v is not None else astdb.expr_text(kids(cur)[0]))
            else:
                active.add('default')
            cur = kids(cur)[-1]
        out.append((set(active), cur))
        if terminates(cur):
            active = set()
    return out


def check_mode_option(chk, main_tu):
    """R20.7: an option that selects one of several named modes (-d arrays | gnu-ld | ...) sets the mode variable for every recognised
    name, so that the last occurrence on the command line decides - a branch that relies on the initial value lets an earlier
    occurrence stick (`-d gnu-ld -d arrays` would still create the datasegments file of the gnu-ld mode)"""
    body = astdb.fn_body(main_tu.fn('main'))
    n = 0
    # where to look: the arms of main's option switch, and the functions of main.c outside main (a helper that maps the name to the mode
    # and stores it through a pointer parameter)
    regions = []
    for sw in [x for x in walk(body) if x.get('kind') == 'SwitchStmt']:
        for labels, st in switch_arm_runs(sw, main_tu):
            regions.append(('/'.join(sorted(('-%s' % chr(v)) if isinstance(v, int) and 32 < v < 127 else str(v) for v in labels)), st))
    for opt, st in list(regions):
        for c in walk(st):
            fname = astdb.callee_name(c) if c.get('kind') == 'CallExpr' else None
            fdecl = main_tu.functions.get(fname) if fname and fname != 'main' else None
            fb = astdb.fn_body(fdecl) if fdecl is not None else None
            if fb is not None and all(r[1] is not fb for r in regions):
                regions.append(('%s (%s())' % (opt, fname), fb))
    for opt, st in regions:
            branches = []       # (mode name, then-statement)
            for i_ in walk(st):
                if i_.get('kind') != 'IfStmt':
                    continue
                ks = [c for c in i_.get('inner', []) if c.get('kind')]
                cmpc = [c for c in walk(ks[0]) if c.get('kind') == 'CallExpr' and astdb.callee_name(c) in ('strcmp', '__builtin_strcmp')]
                if len(cmpc) != 1:
                    continue
                lits = [astdb.string_value(a) for a in astdb.call_args(cmpc[0])]
                lits = [l for l in lits if l is not None]
                if len(lits) == 1:
                    branches.append((lits[0], ks[1]))
            if len(branches) < 3:
                continue
            assigned = {}
            for name, then in branches:
                vs = {astdb.expr_text(astdb.strip(kids(x)[0])).replace(' ', '') for x in walk(then)
                      if x.get('kind') == 'BinaryOperator' and x.get('opcode') == '='}
                assigned[name] = vs
            common = {}
            for vs in assigned.values():
                for v in vs:
                    common[v] = common.get(v, 0) + 1
            if not common:
                continue
            var = max(sorted(common), key=common.get)
            for name, vs in sorted(assigned.items()):
                returns = any(x.get('kind') == 'ReturnStmt' for x in walk(dict(branches)[name]))
                if returns and var not in vs:
                    continue        # e.g. "help": prints and leaves
                n += 1
                chk.expect(var in vs, 'R20.7', 'mode-option-sets-mode[%s %s]' % (opt, name),
                           'the option %s %s does not assign %s (the other mode names do): it relies on the initial value, so an earlier %s on the same '
                           'command line stays in effect - e.g. `%s gnu-ld %s %s` still runs in the earlier mode and creates that mode\'s files'
                           % (opt, name, var, opt, opt, opt, name), 'main:option-switch')
    chk.require(n >= 3, 'no mode-selecting option (a chain of string comparisons with the mode names) found in main.c (expected -d)')


def remove_language(chk, main_tu, L):
    """cubes (per-position sets of byte values) of names of length L that reach remove()"""
    removed = []
    chars = [unk('ch%d' % i, 'char') for i in range(L)]

    def leafs():
        def glob_leaf(interp, args, node):
            pat = args[0]
            interp.event('glob', (pat,), node)
            res = args[3]
            path = Ptr(list(chars) + [0], 0)
            interp.store(res.c, res.k, {'gl_pathc': 1, 'gl_pathv': Ptr([path], 0), 'gl_offs': 0})
            return 0

        def strlen_leaf(interp, args, node):
            return L

        def remove_leaf(interp, args, node):
            interp.event('remove', (pe._hashable(args[0]),), node)
            return 0
        return {'glob': glob_leaf, 'globfree': pe.leaf_event('globfree'), 'strlen': strlen_leaf, 'remove': remove_leaf,
                'fprintf': pe.leaf_event('fprintf', 0)}
    it = pe.Interp([main_tu], leafs(), max_paths=5000)
    it.cur_tu = main_tu
    paths = it.explore(lambda: ('cleanImplementationFiles', [], {}))
    pats = set()
    for p in paths:
        for name, args, loc in p.events:
            if name == 'glob':
                pats.add(args[0])
        if not any(e[0] == 'remove' for e in p.events):
            continue
        cube = [set(range(1, 256)) for _ in range(L)]
        for cond, taken, loc in p.decisions:
            c = pe.norm_cond(cond)
            vars_ = [s for s in pe.sym_walk(c) if s.op == 'unk' and str(s.args[0]).startswith('ch')]
            if not vars_:
                raise AnalysisBroken('cleaner decides on %r' % (c,))
            if len(set(vars_)) != 1:
                raise AnalysisBroken('cleaner condition relates two characters: %r' % (c,))
            v = vars_[0]
            i = int(str(v.args[0])[2:])
            keep = set()
            for b in cube[i]:
                sv = b - 256 if b >= 128 else b      # plain char is signed on this target
                if bool(pe.sym_eval(c, {v: sv})) == taken:
                    keep.add(b)
            cube[i] = keep
        removed.append(cube)
    return removed, pats


def covered(target, cubes):
    n = len(target)
    if any(not t for t in target):
        return True
    cubes = [c for c in cubes if all(c[i] & target[i] for i in range(n))]
    if not cubes:
        return False
    c = cubes[0]
    for i in range(n):
        if not target[i] <= c[i]:
            inside = list(target)
            inside[i] = target[i] & c[i]
            outside = list(target)
            outside[i] = target[i] - c[i]
            return covered(inside, cubes) and covered(outside, cubes[1:])
    return True


def spec_cube(L, suffix):
    if L != 13:
        return None
    digits = set(range(48, 58))
    return [{ord('s'), ord('d')}] + [set(digits) for _ in range(10)] + [{ord('.')}, {ord('c')}]


def glob_cube(pat, L):
    """per-position byte sets of the names of length L a glob(3) pattern matches (literals, ?, [sets] with ranges and !/^ negation, at
    most one *), or None when no name of that length matches"""
    if not isinstance(pat, str):
        raise AnalysisBroken('glob pattern %r is not a string literal' % (pat,))
    anyb = set(range(1, 256)) - {ord('/')}
    elems = []
    i = 0
    while i < len(pat):
        ch = pat[i]
        if ch == '*':
            elems.append('*')
            i += 1
        elif ch == '?':
            elems.append(set(anyb))
            i += 1
        elif ch == '[':
            j = pat.find(']', i + 2)
            if j < 0:
                raise AnalysisBroken('unrecognised glob pattern %r' % (pat,))
            body = pat[i + 1:j]
            neg = body[:1] in ('!', '^')
            if neg:
                body = body[1:]
            st = set()
            k = 0
            while k < len(body):
                if k + 2 < len(body) and body[k + 1] == '-':
                    st |= set(range(ord(body[k]), ord(body[k + 2]) + 1))
                    k += 3
                else:
                    st.add(ord(body[k]))
                    k += 1
            elems.append((anyb - st) if neg else st)
            i = j + 1
        elif ch == '\\' and i + 1 < len(pat):
            elems.append({ord(pat[i + 1])})
            i += 2
        else:
            elems.append({ord(ch)})
            i += 1
    stars = [k for k, e in enumerate(elems) if e == '*']
    if len(stars) > 1:
        raise AnalysisBroken('glob pattern %r has several *' % (pat,))
    if not stars:
        return [set(e) for e in elems] if len(elems) == L else None
    pre, suf = elems[:stars[0]], elems[stars[0] + 1:]
    mid = L - len(pre) - len(suf)
    if mid < 0:
        return None
    return [set(e) for e in pre] + [set(anyb) for _ in range(mid)] + [set(e) for e in suf]


def check_filter(chk, main_tu, c_tu, it_c):
    total = 0
    pats = set()
    for L in range(0, 21):
        cubes, ps = remove_language(chk, main_tu, L)
        pats |= ps
        total += len(cubes)
        spec = spec_cube(L, '.c')
        # the directory scan only yields names matching the glob pattern: intersect with its literal suffix
        if len(ps) > 1:
            raise AnalysisBroken('several glob patterns: %r' % (sorted(ps),))
        for pat in ps:
            g = glob_cube(pat, L)
            if g is None:
                cubes = []          # no name of this length matches the pattern: the scan never yields one
            else:
                for cube in cubes:
                    for pos in range(L):
                        cube[pos] &= g[pos]
        cubes = [c for c in cubes if all(c)]
        if spec is None:
            chk.expect(not cubes, 'R20.4', 'filter:length-%d' % L,
                       'with -c a file name of length %d can be deleted (e.g. %r); implementation files have 13 characters'
                       % (L, _example(cubes[0]) if cubes else ''), 'cleanImplementationFiles:filter')
        else:
            sub = all(all(c[i] <= spec[i] for i in range(L)) for c in cubes)
            ex = ''
            if not sub:
                for c in cubes:
                    for i in range(L):
                        if not c[i] <= spec[i]:
                            w = [min(c[k] & spec[k]) if c[k] & spec[k] else min(c[k]) for k in range(L)]
                            w[i] = min(c[i] - spec[i])
                            ex = ''.join(chr(x) for x in w)
            chk.expect(sub, 'R20.4', 'filter-subset-of-pattern',
                       'with -c a file that is not an implementation file can be deleted, e.g. %r (pattern: [sd][0-9]{10}.c)' % ex,
                       'cleanImplementationFiles:filter')
            chk.expect(covered(spec, cubes), 'R20.4', 'pattern-subset-of-filter',
                       'some implementation-file names ([sd][0-9]{10}.c) are not removed by the cleaner', 'cleanImplementationFiles:filter')
    chk.extra['filter_cubes'] = total
    chk.sample(dict(rule='R20.4', glob=sorted(pats), lengths_explored='0..20', cubes=total))
    # the writer's format
    sp, f = naming_sprintf(c_tu)
    chk.require(len(sp) == 1, 'c.c has %d sprintf calls that build an implementation file name' % len(sp))
    args = astdb.call_args(sp[0])
    fmt = astdb.string_value(args[1])
    site = 'wasmCWriteImplementationFile:format'
    mconv = re.fullmatch(r'%c%0?(\d+|\*)(hh|h|l|ll|z)?([xXo])\.c', fmt or '')
    if mconv is not None:
        chk.fail('R20.4', 'writer-format-shape',
                 'implementation files are named with format %r: the index is printed in %s, so names contain characters outside [0-9] (index 10 '
                 'gives "%s") - the cleaner pattern [sd][0-9]{10}.c and the sorted file list no longer cover what the writer creates, stale '
                 'files survive -c' % (fmt, 'octal' if mconv.group(3) == 'o' else 'hexadecimal', ('%010' + mconv.group(3)) % 10), site, astdb.loc_str(sp[0]))
        return
    m = re.fullmatch(r'%c%0(\d+|\*)(l|ll)?u\.c', fmt or '')
    if m is None:
        raise AnalysisBroken('implementation files are named with format %r - unrecognised naming scheme' % fmt)
    vi = 3
    if m.group(1) == '*':
        width = astdb.const_int(args[3], c_tu)
        if width is None:
            raise AnalysisBroken('field width argument of %r is not a constant' % fmt)
        vi = 4
    else:
        width = int(m.group(1))
    at = c_tu.desugar(astdb.qtype(astdb.strip(args[vi])))
    ti = astdb.int_type_info(at)
    maxdigits = len(str((1 << ti[0]) - 1)) if ti else 99
    chk.expect(width == 10 and maxdigits <= 10 and not m.group(2), 'R20.4', 'writer-format-shape',
               'format %r with a %s index prints between %d and %d digits; the naming scheme needs exactly 10' % (fmt, at, width, max(width, maxdigits)),
               site, astdb.loc_str(sp[0]))
    buf = astdb.strip(args[0], casts=True)
    bt = c_tu.desugar(astdb.qtype(buf))
    bsize = naming_buffer_size(c_tu)
    mm = re.search(r'\[(\d+)\]', 'char[%d]' % (bsize + 1)) if bsize is not None else None
    outlen = 1 + max(width, maxdigits) + 2
    chk.expect(mm is not None and int(mm.group(1)) >= outlen + 1, 'R20.4', 'writer-buffer',
               'file name buffer %s cannot hold the %d-character name and its terminator' % (bt, outlen), site, astdb.loc_str(sp[0]))
    macro = it_c
    chk.expect(macro == outlen == 13, 'R20.4', 'length-constant',
               'W2C2_IMPL_FILENAME_LENGTH is %r, the format produces %d characters, the pattern has 13' % (macro, outlen), site)


def naming_sprintf(c_tu):
    """([sprintf call that formats an implementation file name], enclosing function) - wherever the translator keeps it"""
    hits = []
    for name, f in c_tu.functions.items():
        body = astdb.fn_body(f)
        if body is None:
            continue
        for n in walk(body):
            if n.get('kind') == 'CallExpr' and astdb.callee_name(n) in ('sprintf', '__builtin_sprintf'):
                a = astdb.call_args(n)
                fmt = astdb.string_value(a[1]) if len(a) > 1 else None
                if fmt and re.fullmatch(r'%c%0?(\d+|\*)(hh|h|l|ll|z)?[uxXodi]\.c', fmt):
                    hits.append((n, f))
    return [h[0] for h in hits], (hits[0][1] if hits else None)


def naming_buffer_size(c_tu):
    """capacity minus one of the array that receives the implementation file name (a local array, or the arrays callers pass)"""
    from . import c10
    sp, f = naming_sprintf(c_tu)
    if len(sp) != 1:
        return None
    dst = astdb.call_args(sp[0])[0]
    size = c10.array_size(dst, c_tu)
    if size is None:
        funcs = [(c_tu, g) for g in c_tu.functions.values() if astdb.fn_body(g) is not None]
        size = c10.param_array_size(dst, f, funcs)
    return size - 1 if size is not None else None


def filename_length_macro(c_tu):
    """value of W2C2_IMPL_FILENAME_LENGTH as used in the declaration char filename[LEN+1] of the name buffer"""
    return naming_buffer_size(c_tu)


def _example(cube):
    return ''.join(chr(min(s)) if s else '?' for s in cube)


# ---- R20.5 ----------------------------------------------------------------------------------------

PATH_FAMILY = ['out.c', 'out', 'dir/out.c', 'dir/out', 'a.b/out', 'a.b/out.c', 'a.b/c.d/e', './x.y/z.w.c', '/abs/p.q/r', 'rel/../q.r/s.t',
               'name.with.dots.c', 'd/.hidden', 'v1.2/lib',
               # trailing and doubled separators: dirname() (used for the directory change) ignores them, so the name must, too
               'gen/m.c/', 'gen//m.c//', '/abs/gen/m.c/', 'gen//m.c']


def string_leafs():
    from ..emit import _cstr
    from ..pe import Ptr

    def put(interp, d, text):
        for i, ch in enumerate(text):
            interp.store(d.c, d.k + i, ord(ch))
        interp.store(d.c, d.k + len(text), 0)

    def strcpy(interp, args, node):
        s_ = _cstr(interp, args[1])
        if not isinstance(s_, str) or not isinstance(args[0], Ptr):
            raise pe.PEError('strcpy of a non-concrete string')
        put(interp, args[0], s_)
        return args[0]

    def strrchr(interp, args, node):
        s_ = _cstr(interp, args[0])
        if not isinstance(s_, str):
            raise pe.PEError('strrchr of a non-concrete string')
        i = s_.rfind(chr(args[1] & 0xff))
        if i < 0:
            return 0
        return Ptr(args[0].c, args[0].k + i) if isinstance(args[0], Ptr) else s_[i:]

    def strchr(interp, args, node):
        s_ = _cstr(interp, args[0])
        if not isinstance(s_, str):
            raise pe.PEError('strchr of a non-concrete string')
        ch = args[1] & 0xff
        i = len(s_) if ch == 0 else s_.find(chr(ch))
        if i < 0:
            return 0
        return Ptr(args[0].c, args[0].k + i) if isinstance(args[0], Ptr) else s_[i:]

    def basename(interp, args, node):
        p = args[0]
        s_ = _cstr(interp, p)
        if not isinstance(s_, str):
            raise pe.PEError('basename of a non-concrete string')
        if s_ == '':
            return '.'
        t = s_.rstrip('/')
        if t == '':
            return '/'
        if len(t) != len(s_):
            interp.store(p.c, p.k + len(t), 0)       # POSIX basename may cut trailing separators
        i = t.rfind('/')
        return Ptr(p.c, p.k + i + 1) if isinstance(p, Ptr) else t[i + 1:]

    def memmove(interp, args, node):
        d, s_, n = args
        if not isinstance(n, int):
            raise pe.PEError('memmove of a symbolic length')
        src = [interp.load(s_.c, s_.k + i) if isinstance(s_, Ptr) else (ord(s_[i]) if i < len(s_) else 0) for i in range(n)]
        for i, v in enumerate(src):
            interp.store(d.c, d.k + i, v)
        return d

    def strlen(interp, args, node):
        s_ = _cstr(interp, args[0])
        if not isinstance(s_, str):
            raise pe.PEError('strlen of a non-concrete string')
        return len(s_)

    def strcat(interp, args, node):
        a, b = _cstr(interp, args[0]), _cstr(interp, args[1])
        put(interp, args[0], a + b)
        return args[0]
    return {'strcpy': strcpy, '__builtin_strcpy': strcpy, 'strrchr': strrchr, '__builtin_strrchr': strrchr, 'strchr': strchr,
            '__builtin_strchr': strchr, 'basename': basename,
            '__xpg_basename': basename, '__gnu_basename': basename, 'memmove': memmove, '__builtin_memmove': memmove, 'memcpy': memmove,
            'strlen': strlen, '__builtin_strlen': strlen, 'strcat': strcat}


def check_writer_names(chk, c_tu, changer=None):
    from ..emit import _cstr
    chk.require('wasmCWriteModule' in c_tu.functions, 'anchor wasmCWriteModule not found')
    chk.fn('wasmCWriteModule')
    for path in PATH_FAMILY:
        got = {}

        def header(interp, args, node, got=got):
            got['header'] = _cstr(interp, args[2])
            return 1

        def impl(interp, args, node, got=got):
            got['output'] = _cstr(interp, args[2])
            got['include'] = _cstr(interp, args[3])
            return 1
        leafs = string_leafs()
        leafs.update({'wasmCWriteModuleHeader': header, 'wasmCWriteModuleImplementation': impl})
        if changer and changer != 'wasmCWriteModule':
            leafs[changer] = lambda i, a_, n: 1       # the directory change itself is decided by R20.6
        it = pe.Interp([c_tu], leafs)

        def setup(path=path):
            opts = {'outputPath': path, 'threadCount': 1, 'functionsPerFile': 0, 'pretty': 0, 'debug': 0, 'multipleModules': 0, 'dataSegmentMode': 0}
            empty = {'length': 0, 'capacity': 0, 'functionIDs': 0}
            return ('wasmCWriteModule', [pe.unk('module'), 'mod', opts, empty, dict(empty)], {})
        paths = [p for p in it.explore(setup) if not p.aborted]
        site = 'wasmCWriteModule:names'
        if not chk.expect(len(paths) == 1 and paths[0].ret == 1 and set(got) == {'header', 'output', 'include'}, 'R20.5', 'evaluated[%s]' % path,
                          'wasmCWriteModule(%r): %d paths, writers called with %r' % (path, len(paths), got), site):
            continue
        last = path.rstrip('/').rsplit('/', 1)[-1]
        stem = last[:last.rindex('.')] if '.' in last else last
        want_header = stem + '.h'
        chk.expect(got['output'] == last, 'R20.5', 'output-name[%s]' % path,
                   'for output path %r the implementation is written to %r in the output directory; expected the last component %r'
                   % (path, got['output'], last), site)
        chk.expect(got['header'] == want_header and got['include'] == want_header, 'R20.5', 'header-name[%s]' % path,
                   'for output path %r the header is written to %r (included as %r); expected %r - the last component with its extension replaced: '
                   'anything else names a file that is not one of the translator\'s outputs' % (path, got['header'], got['include'], want_header), site)


# ---- R20.6 ----------------------------------------------------------------------------------------

DIR_FAMILY = PATH_FAMILY + ['./m.c', './gen/m.c', '../gen/m.c', '.gen/m.c', '..hidden/x.c', './.x/y.c', 'a/./b.c', '/m.c', 'gen//m.c']


def posix_dirname(path):
    if path == '':
        return '.'
    t = path.rstrip('/')
    if t == '':
        return '/'
    i = t.rfind('/')
    if i < 0:
        return '.'
    d = t[:i].rstrip('/')
    return d if d else '/'


def check_directory_change(chk, prov):
    from ..emit import _cstr
    fn = directory_changer(chk, prov)
    if fn is None:
        return          # reported by R20.2
    main_tu = prov.fn_of[fn][1]
    chk.fn(fn)
    site = fn + ':chdir'
    for path in DIR_FAMILY:
        calls = []
        leafs = string_leafs()

        def dirname(interp, args, node):
            p = args[0]
            s_ = _cstr(interp, p)
            d = posix_dirname(s_)
            if isinstance(p, Ptr) and s_.startswith(d) and d not in ('.',) and '/' in s_:
                interp.store(p.c, p.k + len(d), 0)          # dirname may cut its argument in place
                return Ptr(p.c, p.k)
            return d

        def chdir(interp, args, node, calls=calls):
            calls.append(_cstr(interp, args[0]))
            return 0

        def scmp(n_):
            def f(interp, args, node):
                a, b = _cstr(interp, args[0]), _cstr(interp, args[1])
                if n_:
                    k = args[2]
                    a, b = a[:k], b[:k]
                return (a > b) - (a < b)
            return f
        leafs.update({'dirname': dirname, '__xpg_dirname': dirname, 'chdir': chdir, 'strcmp': scmp(False), 'strncmp': scmp(True),
                      'fprintf': lambda i, a, n: 0})
        it = pe.Interp([main_tu], leafs)
        paths = [p for p in it.explore(lambda path=path: (fn, [path], {})) if not p.aborted]
        if not chk.expect(len(paths) == 1, 'R20.6', 'evaluated[%s]' % path, '%s(%r): %d paths' % (fn, path, len(paths)), site):
            continue
        ret = paths[0].ret
        want = posix_dirname(path)
        if calls:
            ok = ret == 1 and len(calls) == 1 and calls[0] == want
        else:
            ok = ret == 1 and want == '.'
        chk.expect(ok, 'R20.6', 'chdir[%s]' % path,
                   'for output path %r the function returns %r after chdir calls %r; the files must be written in %r - otherwise the outputs, the '
                   'datasegments file and the -c cleaner act on another directory' % (path, ret, calls, want), site)


def run(chk):
    chk.explanation = (
        'Who-may-create / who-may-delete rules over all fourteen translator units with interprocedural string provenance for every '
        'file name; structured must-execute analysis for "chdir dominates writer and cleaner"; the deletion filter is extracted by '
        'partial evaluation of cleanImplementationFiles over symbolic file-name characters for every length 0..20 and compared, as a '
        'set of character cubes, with the naming pattern [sd][0-9]{10}.c in both directions (so that -c removes every implementation '
        'file and nothing else). Symlinks, glob() behaviour and races with other processes are not decided.')
    chk.assumptions = ['basename() returns a separator-free component', 'glob("*.c") yields only names ending in ".c"',
                       'plain char is signed on the analysed target (both signednesses give the same digit/prefix sets)']
    tus = [astdb.dump_ast(astdb.src('w2c2/' + u)) for u in UNITS]
    for t in tus:
        chk.unit(t)
    prov = Prov(tus)
    main_tu = [t for t in tus if t.path.endswith('main.c')][0]
    c_tu = [t for t in tus if t.path.endswith('/c.c')][0]
    check_creators(chk, tus, prov)
    check_main_order(chk, main_tu, prov)
    check_mode_option(chk, main_tu)
    chk.floor('R20.7', 3)
    # R20.8: option string and option switch agree on which options take an argument - otherwise the operands shift and the output is
    # written over the file named as input (rule shared with C09 R09.12)
    from . import c09 as _c09
    _c09.check_option_string(chk, 'R20.8')
    chk.floor('R20.8', 6)
    check_filter(chk, main_tu, c_tu, filename_length_macro(c_tu))
    check_writer_names(chk, c_tu, directory_changer(chk, prov))
    check_directory_change(chk, prov)
    chk.floor('R20.1', 5)
    chk.floor('R20.2', 6)
    chk.floor('R20.3', 4)
    chk.floor('R20.4', 24)
    chk.floor('R20.5', 30)
    chk.floor('R20.6', 30)
    chk.exhaustive = True
