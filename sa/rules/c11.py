"""C11  Generated C is well-defined: same results for every compiler and -O level.

Decided over all statement templates (every dispatch row x formatting mode, plus control-flow scripts and calls)
and over every w2c2_base.h function they reach:

R11.1  no signed overflow: + - * unary-minus ++ -- have unsigned or floating computation type (exceptions: constant
       operands; operands promoted from 8/16-bit unsigned types)
R11.2  shifts: the count is `e & m` with m < width or a constant < width (width of the promoted left operand); the
       left operand of << is unsigned
R11.3  every integer / and % sits in the else-position of guards excluding a zero divisor and, for signed
       operands, MIN / -1
R11.4  every float->int conversion is guarded exactly (decided point-wise in C02 R02.5, which reports an unguarded
       conversion as undefined behaviour; here: each such cast is inside a conditional chain)
R11.8  count-leading/trailing-zero builtins are undefined for a zero argument: the argument, as converted to the builtin's
       parameter width, must be the value that the dominating non-zero test examined (a 64-bit test does not protect a 32-bit builtin)
R11.9  every declared local of an emitted function carries its own `= 0` initialiser (no read of an indeterminate object)
R11.10 declaration and use writers spell every identifier alike (shared twin-emitter rule; a mismatch does not compile)
R11.12 no memcpy between two linear-memory locations (possibly overlapping ranges: undefined; memmove is required)
R11.11 every operand-stack variable the branch emitters mention is declared (shared with C03 R03.5; otherwise: undeclared identifier)
R11.5  no typed dereference of linear memory in the little-endian configuration (only byte copies / atomics)
R11.6  compile witness: one translation unit containing every template compiles without errors with gcc and clang
       as -std=gnu89 (thorough: gnu99, gnu11, gnu17) with implicit declarations and incompatible pointers as errors
R11.7  module-controlled strings placed inside C string literals (import module/field names in resolve(),
       export names in the FuncExports table) are emitted as valid C string-literal contents denoting the same bytes
"""
import os
import re
import subprocess
import tempfile

from .. import astdb, pe, emit, oracle, templates, runtime, modules as M, ctyperules as ct
from ..astdb import AnalysisBroken, kids, walk
from ..pe import Ptr
from .. import memrules as mr, semrules as sr
from . import c01, c03, c06

V = oracle.VALTYPE_ENC


BULK_IMM = {'memory.copy': {'memidx1': 0, 'memidx2': 0}, 'memory.fill': {'imm0': 0}, 'memory.init': {'dataidx': 7, 'memidx': 0},
            'memory.size': {'imm0': 0}, 'memory.grow': {'imm0': 0}, 'atomic.fence': {'imm0': 0}}
SKIP_CLS = ('block', 'loop', 'if', 'else', 'end', 'call', 'call_indirect', 'local.get', 'local.set', 'local.tee', 'global.get',
            'global.set', 'br', 'br_if', 'br_table', 'return', 'data.drop', 'nop', 'drop', 'select', 'unreachable')


def all_templates(chk, it, tabs, configs):
    """(function name, text, row) of every single-instruction template with generic operands"""
    out = []
    for row in oracle.ROWS:
        cls = row['sem'].get('cls')
        nm = re.sub(r'\W', '_', row['name'])
        if cls in SKIP_CLS:
            continue
        if 'access' in row['sem']:
            mt = mr.extract_mem(it, row, tabs, configs)
            # every successful emitting path, not one per formatting mode: an emitter may choose another runtime function depending on
            # the alignment hint or the offset, and each of them must be well-defined for every address
            seen_txt = set()
            per_key = {}
            for key, t in mt.all:
                if not t.has_unknown_parts() and (key, t.text()) not in seen_txt:
                    seen_txt.add((key, t.text()))
                    k_ = per_key.get(key, 0)
                    per_key[key] = k_ + 1
                    out.append(('M_%s_p%d_m%d_%s%s' % (nm, key[0], key[1], key[2].replace('-', '_'), '_%d' % k_ if k_ else ''), t.text(), row))
            continue
        imm = BULK_IMM.get(row['name'])
        if cls == 'const':
            if row['sem']['type'] in ('f32', 'f64'):
                continue        # float constants: spelling decided in C07
            imm = {'imm0': 1234}
        for pretty, multiple in configs:
            tpls = [t for t in templates.extract(it, row, mr.FILLER + row['params'], pretty, multiple, imm=imm) if t.ok and t.parts]
            for k, t in enumerate(tpls):
                if not t.has_unknown_parts():
                    out.append(('T_%s_p%d_m%d_%d' % (nm, pretty, multiple, k), t.text(), row))
    return out


def control_scripts(it):
    S = c03.script
    c = c03.const
    scripts = {
        'block_br': S(('block', {'imm0': V['i32']}), c('i64', 5), c('i32', 7), ('br', {'imm0': 0}), 'end'),
        'loop_brif': S(('loop', {'imm0': oracle.BLOCKTYPE_VOID}), c('i32', 1), ('br_if', {'imm0': 0}), 'end'),
        'if_else': S(c('i32', 1), ('if', {'imm0': V['i32']}), c('i32', 1), 'else', c('i32', 2), 'end'),
        'br_table': S(('block', {'imm0': oracle.BLOCKTYPE_VOID}), ('block', {'imm0': oracle.BLOCKTYPE_VOID}), c('i32', 0),
                      ('br_table', {'labels': [1, 0], 'default': 1}), 'end', 'end'),
        'select': S(c('i32', 1), c('i32', 2), c('i32', 0), 'select'),
        'unreachable': S('unreachable'),
        # conditional branches that carry a value from a deeper slot: the move and the jump are both conditional
        'brif_carry': S(('block', {'imm0': V['i32']}), c('i64', 1), c('i32', 7), c('i32', 0), ('br_if', {'imm0': 0}), 'drop', 'drop', c('i32', 1), 'end'),
        'brif_carry_i64': S(('block', {'imm0': V['i64']}), c('i32', 1), c('i64', 7), c('i32', 0), ('br_if', {'imm0': 0}), 'drop', 'drop', c('i64', 1), 'end'),
        'brtable_carry': S(('block', {'imm0': V['i32']}), c('i64', 1), c('i32', 7), c('i32', 0), ('br_table', {'labels': [0, 0], 'default': 0}), 'end'),
        'if_br_carry': S(('block', {'imm0': V['i64']}), c('i32', 1), c('i32', 1), ('if', {'imm0': oracle.BLOCKTYPE_VOID}), c('i64', 9), ('br', {'imm0': 1}), 'end',
                         'drop', c('i64', 2), 'end'),
        'nested_loop': S(('block', {'imm0': oracle.BLOCKTYPE_VOID}), ('loop', {'imm0': oracle.BLOCKTYPE_VOID}), c('i32', 1), ('br_if', {'imm0': 1}), c('i32', 0),
                         ('br_if', {'imm0': 0}), 'end', 'end'),
        'return_carry': S(c('i64', 1), c('i32', 2), 'return'),
    }
    out = []
    for name, toks in scripts.items():
        for pretty in (0, 1):
            t = [x for x in c03.run_script(it, toks, ['i64'], pretty=pretty) if x.ok]
            if len(t) == 1:
                out.append(('S_%s_p%d' % (name, pretty), t[0].text(), None))
    return out


ARITH = ('+', '-', '*')


def small_unsigned(e):
    """operand whose value fits in 16 bits (promoted from U8/U16, or a small constant)"""
    v = ct.iabs(e)
    if v[0] == 'const':
        return abs(v[1]) < (1 << 16)
    if v[0] == 'slice':
        return v[2] <= 16 and v[3] == 'z'
    return False


def ub_scan(chk, rule_prefix, fname, stmt_nodes, tu, site, template=None):
    """type-based undefined-behaviour scan of a list of statement nodes"""
    n_ops = 0
    for st in stmt_nodes:
        for node in walk(st):
            k = node.get('kind')
            if k not in ('BinaryOperator', 'CompoundAssignOperator', 'UnaryOperator'):
                continue
            op = node.get('opcode', '')
            try:
                e = ct.simplify(node, tu)
            except AnalysisBroken:
                continue
            loc = astdb.loc_str(node)
            if k == 'UnaryOperator':
                if op in ('-', '++', '--'):
                    ti = ct.tinfo(tu.desugar(astdb.qtype(node)))
                    n_ops += 1
                    if ti[0] == 'int' and ti[2]:
                        sub = ct.simplify(kids(node)[0], tu)
                        if ct.const_value(sub) is None:
                            chk.fail(rule_prefix + '.1', '%s:%s' % (fname, loc.split(':')[-1]),
                                     'signed %s in %s (type %s): overflow is undefined%s' % (op, fname, tu.desugar(astdb.qtype(node)),
                                                                                             ' [template: %s]' % template.strip() if template else ''),
                                     site + ':signed-arith', loc)
                continue
            base = op[:-1] if k == 'CompoundAssignOperator' else op
            if k == 'CompoundAssignOperator':
                cty = tu.desugar((node.get('computeResultType') or {}).get('desugaredQualType') or (node.get('computeResultType') or {}).get('qualType') or '')
            else:
                cty = tu.desugar(astdb.qtype(node))
            ti = ct.tinfo(cty)
            ks = kids(node)
            if base in ARITH and ti[0] == 'int':
                n_ops += 1
                if ti[2]:
                    a, b = ct.simplify(ks[0], tu), ct.simplify(ks[1], tu)
                    consts = ct.const_value(a) is not None and ct.const_value(b) is not None
                    small = small_unsigned(a) and small_unsigned(b) and base in ('+', '-')
                    if not consts and not small:
                        chk.fail(rule_prefix + '.1', '%s:%s' % (fname, loc.split(':')[-1]),
                                 'signed %s computed in %s in %s: overflow is undefined behaviour (operands %r, %r)%s'
                                 % (base, cty, fname, a, b, ' [template: %s]' % template.strip() if template else ''),
                                 site + ':signed-arith', loc)
            elif base in ('<<', '>>') and ti[0] == 'int':
                n_ops += 1
                lty = tu.desugar(astdb.qtype(ks[0])) if k != 'CompoundAssignOperator' else cty
                lti = ct.tinfo(lty)
                W = lti[1] if lti[0] == 'int' else ti[1]
                W = max(W, 32)
                r = ct.simplify(ks[1], tu)
                ok = False
                cv = ct.const_value(r)
                if cv is not None:
                    ok = 0 <= cv < W
                else:
                    r0, _ = _unwrap(r)
                    if r0.k == 'bin' and r0.x == '&':
                        for m_ in r0.a:
                            mv = ct.const_value(m_)
                            if mv is not None and 0 <= mv < W:
                                ok = True
                if not ok:
                    chk.fail(rule_prefix + '.2', '%s:%s' % (fname, loc.split(':')[-1]),
                             'shift count %r in %s is not provably smaller than the %d-bit width of the shifted value%s'
                             % (r, fname, W, ' [template: %s]' % template.strip() if template else ''), site + ':shift-count', loc)
                if base == '<<' and lti[0] == 'int' and lti[2]:
                    l = ct.simplify(ks[0], tu)
                    if ct.const_value(l) is None or ct.const_value(l) < 0:
                        chk.fail(rule_prefix + '.2', '%s:%s:lhs' % (fname, loc.split(':')[-1]),
                                 'left shift of a signed value (%s) in %s' % (lty, fname), site + ':shift-signed', loc)
    return n_ops


def _unwrap(e):
    cs = []
    while e.k == 'cast':
        cs.append(e.ty)
        e = e.a[0]
    return e, cs


def division_guards(chk, fname, stmts, tu, site, template):
    """R11.3: every integer / % is the else-arm of a chain that excludes divisor == 0 (and MIN/-1 if signed)"""
    n = 0
    for st in stmts:
        for root in expr_roots(st):
            n += _div_rec(chk, ct.simplify(root, tu), [], fname, site, template)
    return n


STMT_KINDS = ('CompoundStmt', 'IfStmt', 'GotoStmt', 'LabelStmt', 'SwitchStmt', 'CaseStmt', 'DefaultStmt', 'BreakStmt', 'ReturnStmt',
              'NullStmt', 'WhileStmt', 'DoStmt', 'ForStmt', 'ContinueStmt', 'DeclStmt', 'VarDecl', 'AttributedStmt')


def expr_roots(st):
    """maximal expression nodes below a statement"""
    if st.get('kind') in STMT_KINDS:
        for c in kids(st):
            for r in expr_roots(c):
                yield r
    elif st.get('kind', '').endswith('Attr'):
        return
    else:
        yield st


def _div_rec(chk, e, guards, fname, site, template):
    n = 0
    if e.k == 'cond':
        c, a, b = e.a
        n += _div_rec(chk, c, guards, fname, site, template)
        n += _div_rec(chk, a, guards + [(c, True)], fname, site, template)
        n += _div_rec(chk, b, guards + [(c, False)], fname, site, template)
        return n
    if e.k == 'bin' and e.x in ('/', '%') and ct.tinfo(e.ty)[0] == 'int':
        n += 1
        ti = ct.tinfo(e.ty)
        dv = e.a[1]
        dslot = ct.iabs(dv)
        zero_ok = False
        ovf_ok = not ti[2]
        for g, taken in guards:
            g0, _ = _unwrap(g)
            # divisor known non-zero: `y == 0` / `!y` not taken, or `y != 0` / `y` taken
            if g0.k == 'bin' and g0.x in ('==', '!=') and (g0.x == '!=') == taken:
                for x, c in ((g0.a[0], g0.a[1]), (g0.a[1], g0.a[0])):
                    if ct.const_value(c) == 0 and ct.iabs(x)[:3] == dslot[:3]:
                        zero_ok = True
            elif g0.k == 'un' and g0.x == '!' and not taken and ct.iabs(_unwrap(g0.a[0])[0])[:3] == dslot[:3]:
                zero_ok = True
            elif taken and g0.k in ('var', 'cast') and ct.iabs(g)[:3] == dslot[:3]:
                zero_ok = True
            if g0.k == 'bin' and g0.x == '&&' and not taken and ti[2]:
                consts = [ct.const_value(_unwrap(s_)[0].a[1]) for s_ in g0.a if _unwrap(s_)[0].k == 'bin' and _unwrap(s_)[0].x == '==']
                if -1 in consts and -(1 << (ti[1] - 1)) in consts:
                    ovf_ok = True
        if ct.const_value(dv) not in (None, 0, -1):
            zero_ok = ovf_ok = True
        if not zero_ok:
            chk.fail('R11.3', '%s:div-zero-guard' % fname, 'integer %s in %s is not dominated by a divisor != 0 guard: undefined behaviour%s'
                     % (e.x, fname, ' [template: %s]' % template.strip() if template else ''), site + ':div-guard', e.loc())
        elif not ovf_ok:
            chk.fail('R11.3', '%s:div-overflow-guard' % fname, 'signed %s in %s is not dominated by a MIN / -1 guard: undefined behaviour%s'
                     % (e.x, fname, ' [template: %s]' % template.strip() if template else ''), site + ':div-guard', e.loc())
        else:
            chk.ok('R11.3', '%s:guarded-division' % fname)
    if e.k == 'call' and re.match(r'__builtin_c[lt]z(l|ll)?$', e.x or ''):
        n += 1
        pw = 32 if e.x in ('__builtin_clz', '__builtin_ctz') else 64
        arg = ct.iabs(ct.E('cast', 'unsigned int' if pw == 32 else 'unsigned long long', [e.a[0]], e.a[0].node, 'IntegralCast'))
        ok = False
        seen = []
        for g, taken in guards:
            g0, _ = _unwrap(g)
            tested = None
            if g0.k == 'bin' and g0.x in ('==', '!=') and ct.const_value(g0.a[1]) == 0:
                if (g0.x == '!=') == taken:
                    tested = ct.iabs(g0.a[0])
            elif taken and g0.k in ('var', 'cast'):
                tested = ct.iabs(g)
            if tested is not None and tested[0] == 'slice':
                seen.append(tested)
                # the test says: the low k bits of slot are not all zero; the builtin sees the low min(pw, ..) bits of the same slot
                if arg[0] == 'slice' and arg[1] == tested[1] and arg[2] >= tested[2]:
                    ok = True
        chk.expect(ok, 'R11.8', '%s:%s-nonzero' % (fname, e.x),
                   '%s(%r) in %s: the %d-bit argument is not the value a dominating non-zero test examined (tests seen: %r); for an operand whose '
                   'examined bits are non-zero but whose low %d bits are zero the builtin is undefined%s'
                   % (e.x, e.a[0], fname, pw, seen, pw, ' [template: %s]' % template.strip() if template else ''), site + ':builtin-zero', e.loc())
    if e.k == 'cast' and e.x == 'FloatingToIntegral':
        chk.expect(bool(guards), 'R11.4', '%s:float-to-int-guarded' % fname,
                   'float-to-integer conversion in %s is outside any range guard (exact boundaries are decided by C02 R02.5)%s'
                   % (fname, ' [template: %s]' % template.strip() if template else ''), site + ':f2i-guard', e.loc())
    for c in e.a:
        n += _div_rec(chk, c, guards, fname, site, template)
    return n


def compile_witness(chk, source, tier):
    stds = ['gnu89'] if tier == 'quick' else ['gnu89', 'gnu99', 'gnu11', 'gnu17']
    n = 0
    with tempfile.TemporaryDirectory(prefix='w2c2-c11-') as d:
        path = os.path.join(d, 'witness.c')
        with open(path, 'w') as f:
            f.write(source)
        for cc in ('gcc', 'clang'):
            for std in stds:
                cmd = [cc, '-std=' + std, '-fsyntax-only', '-DWASM_THREADS_PTHREADS', '-I' + astdb.src('w2c2'),
                       '-Werror=implicit-function-declaration', '-Werror=incompatible-pointer-types', '-Werror=int-conversion',
                       '-Wno-unused-value', '-Wno-unused-label', path]
                r = subprocess.run(cmd, capture_output=True, text=True, timeout=300)
                n += 1
                errs = [l for l in r.stderr.splitlines() if 'error' in l][:3]
                chk.expect(r.returncode == 0, 'R11.6', 'compile:%s:%s' % (cc, std),
                           'the translation unit of all statement templates does not compile with %s -std=%s: %s' % (cc, std, ' | '.join(errs)[:500]),
                           'compile-witness:%s' % cc)
    return n


def c_literal_bytes(body):
    """bytes denoted by the contents of a C string literal, or None if the contents are not valid (unescaped quote,
    bad escape, line break)"""
    out = bytearray()
    i = 0
    while i < len(body):
        c = body[i]
        if c == '"' or c == '\n':
            return None
        if c != '\\':
            out += c.encode('latin-1', 'replace') if ord(c) < 256 else c.encode('utf-8')
            i += 1
            continue
        i += 1
        if i >= len(body):
            return None
        c = body[i]
        simple = {'n': 10, 't': 9, 'r': 13, '\\': 92, '"': 34, "'": 39, 'a': 7, 'b': 8, 'f': 12, 'v': 11, '?': 63}
        if c in simple:
            out.append(simple[c])
            i += 1
        elif c in '01234567':
            j = i
            while j < len(body) and j < i + 3 and body[j] in '01234567':
                j += 1
            out.append(int(body[i:j], 8) & 0xff)
            i = j
        elif c == 'x':
            j = i + 1
            while j < len(body) and body[j] in '0123456789abcdefABCDEF':
                j += 1
            if j == i + 1:
                return None
            if int(body[i + 1:j], 16) > 0xff:
                return None         # a hex escape has no length limit: followed by a hex digit it is out of range (an error in clang)
            out.append(int(body[i + 1:j], 16))
            i = j
        else:
            return None
    return bytes(out)


# names with characters that need escaping in a C string literal - also directly followed by characters that could continue an escape
# sequence (hex digits after a byte >= 0x80 or a control character, octal digits, a question mark)
NASTY = ['plain', 'quo"te', 'back\\slash', 'new\nline', 'tab\tq"\\', 'pct%s%d', 'utf\xc3\xa9', 'n\xc3\xa9e', '\x01' + '1f', '\x7fF0', 'a\xffe9', 'q??/z', '\x1b[0m7', '??0mem', '?7']


def check_string_positions(chk, tus, rule='R11.7'):
    it = c06.make(tus)
    for name in NASTY:
        mk = lambda: M.build(it, types=[([], [])], func_imports=[], functions=[0], memory_imports=[(name, 'mem' + name, 1, 2, False)],
                             global_imports=[('m' + name, name, 'i32', False)], exports=[(name, c06.KIND_FUNC, 0)])
        text = c06.inits_text(it, mk, raw=True)
        label = repr(name)
        # resolve("<module>", "<field>")
        for m in re.finditer(r'(?s)=\s*\([^()]*\)\s*resolve\((.*?)\);\n', text):
            inner = m.group(1)
            if inner.startswith('const char'):
                continue            # the resolve parameter declaration
            parsed = _split_two_literals(inner)
            want = [(name, 'mem' + name), ('m' + name, name)]
            ok = parsed is not None and (parsed[0].decode('latin-1'), parsed[1].decode('latin-1')) in want
            chk.expect(ok, rule, 'resolve-literal[%s]' % label,
                       'an import named %s is looked up with resolve(%s): the arguments are not C string literals denoting the module and field '
                       'name (a quote, backslash or line break in a valid wasm name breaks or changes the generated C)' % (label, inner[:80]),
                       'wasmCWriteInitImportValue:string-literal')
        # FuncExports rows  {(wasmFunc)f0,"<name>"},
        rows = re.findall(r'(?s)\{\s*\(wasmFunc\)\s*\(?&?\w+\)?\s*,\s*(".*?")\s*\}\s*,\s*\n', text)
        chk.require(rows, 'FuncExports row not found for %s' % label)
        for r_ in rows:
            lit = _one_literal(r_)
            chk.expect(lit is not None and lit.decode('latin-1') == name, rule, 'export-name-literal[%s]' % label,
                       'the export named %s is listed in the FuncExports table as %s, which is not a C string literal denoting that name'
                       % (label, r_[:80]), 'wasmCWriteModuleFunctionExportsArray:string-literal')


def check_export_table_length(chk, tus, rule='R11.14'):
    """the function-export table is an array of declared length: it must have room for every row written plus the {NULL,NULL} terminator
    that the table walks (thread-spawn's lookup of wasi_thread_start, host lookups by name) stop at - an array one element short
    silently drops the terminator (C89 6.5.7: excess initialisers are a constraint violation compilers only warn about) and every walk
    for a name that is not exported reads past the array.  Modules: one function exported under two names, an imported function
    re-exported, exports of other kinds in between, no function export at all"""
    it = c06.make(tus)
    F, MEM = c06.KIND_FUNC, 2
    cases = [
        ('two names for one function', dict(functions=[{'functionTypeIndex': 0, 'exportName': 'a'}, 0], exports=[('a', F, 0), ('b', F, 0)])),
        ('re-exported import', dict(func_imports=[('env', 'imp', 0)], functions=[{'functionTypeIndex': 0, 'exportName': 'run'}],
                                    exports=[('again', F, 0), ('run', F, 1)])),
        ('other kinds in between', dict(functions=[{'functionTypeIndex': 0, 'exportName': 'x'}, {'functionTypeIndex': 0, 'exportName': 'y'}],
                                        memories=[(1, 2, False)], exports=[('x', F, 0), ('mem', MEM, 0), ('y', F, 1)])),
        ('one export', dict(functions=[0, {'functionTypeIndex': 0, 'exportName': 'only'}], exports=[('only', F, 1)])),
        ('no function export', dict(functions=[0], memories=[(1, 2, False)], exports=[('mem', MEM, 0)])),
    ]
    n = 0
    for label, kw in cases:
        mk = lambda kw=kw: M.build(it, types=[([], [])], **kw)
        text = c06.inits_text(it, mk, raw=True)
        m = re.search(r'(?s)\bwasmFuncExport\s+\w*FuncExports\s*\[\s*(\d*)\s*\]\s*=\s*\{(.*?)\n\};', text)
        nfe = sum(1 for e in kw['exports'] if e[1] == F)
        if m is None:
            chk.require(nfe == 0 or 'FuncExports' not in text, 'FuncExports table not recognised (%s)' % label)
            continue
        rows = re.findall(r'\{[^{}]*\}', m.group(2))
        last_null = bool(rows) and re.sub(r'[\s()]|void\*', '', rows[-1]) in ('{NULL,NULL}', '{0,0}')
        declared = int(m.group(1)) if m.group(1) else len(rows)
        n += 1
        chk.expect(declared == len(rows) and last_null and len(rows) == nfe + 1, rule, 'export-table-length[%s]' % label,
                   'module with %d function exports (%s): the export table is declared with %d elements and initialised with %d rows (%s): '
                   'expected one row per function export and the terminator, all inside the array - with fewer elements than rows the '
                   'terminator is dropped and a lookup of a name that is not exported reads past the array'
                   % (nfe, label, declared, len(rows), 'terminated by {NULL,NULL}' if last_null else 'NOT terminated by {NULL,NULL}'),
                   'wasmCWriteModuleFunctionExportsArray:length')
    return n


def _literal_pieces(s):
    """[contents of each piece] of a string literal written as adjacent pieces ("ab" "cd", which C concatenates after decoding the
    escapes of each piece - the way to end a hex escape before a hex digit); None if s is not of that form"""
    s = s.strip()
    out = []
    i = 0
    n = len(s)
    while i < n:
        while i < n and s[i] in ' \t\n':
            i += 1
        if i >= n:
            break
        if s[i] != '"':
            return None
        j = i + 1
        while j < n and s[j] != '"':
            if s[j] == '\\':
                j += 1
            j += 1
        if j >= n:
            return None
        out.append(s[i + 1:j])
        i = j + 1
    return out or None


def _one_literal(s):
    pieces = _literal_pieces(s)
    if pieces is None:
        return None
    out = b''
    for p_ in pieces:
        b_ = c_literal_bytes(p_)
        if b_ is None:
            return None
        out += b_
    return out


def _split_two_literals(s):
    """'"a", "b"' -> (bytes a, bytes b) using C lexing rules (each argument may consist of adjacent pieces), None if malformed"""
    i = 0
    n = len(s)
    depth_in = False
    cut = None
    while i < n:
        c = s[i]
        if depth_in:
            if c == '\\':
                i += 1
            elif c == '"':
                depth_in = False
        else:
            if c == '"':
                depth_in = True
            elif c == ',':
                if cut is not None:
                    return None
                cut = i
        i += 1
    if cut is None or depth_in:
        return None
    a_, b_ = _one_literal(s[:cut]), _one_literal(s[cut + 1:])
    if a_ is None or b_ is None:
        return None
    return (a_, b_)


def check_overlapping_memcpy(chk):
    """R11.12.  Candidates are found on the AST (a memcpy whose two pointer arguments both point into a memory's data); each candidate
    function is then evaluated on a family of concrete operands (both memories the same or different, addresses and counts that overlap
    in both directions, touch, coincide or are disjoint) with a memcpy model that reports overlapping ranges: a memcpy that is only
    reached for disjoint ranges (a guarded fast path) is fine"""
    import itertools
    htu = runtime.header('le')
    n = 0
    for name, f in sorted(htu.functions.items()):
        body = astdb.fn_body(f)
        if body is None or not (astdb.file_of(f) or '').endswith('w2c2_base.h'):
            continue
        cands = []
        for c in walk(body):
            if c.get('kind') != 'CallExpr' or astdb.callee_name(c) not in ('memcpy', '__builtin_memcpy', '__builtin___memcpy_chk'):
                continue
            args = astdb.call_args(c)
            if len(args) < 3:
                continue
            n += 1

            def in_memory(e):
                return any(x.get('kind') == 'MemberExpr' and x.get('name') == 'data' and 'wasmMemory' in htu.desugar(astdb.qtype(kids(x)[0]))
                           for x in walk(e))
            if in_memory(args[0]) and in_memory(args[1]):
                cands.append(c)
        if not cands:
            continue
        params = astdb.fn_params(f)
        mems = [i for i, p_ in enumerate(params) if 'wasmMemory' in htu.desugar(astdb.qtype(p_))]
        ints = [i for i, p_ in enumerate(params) if ct.tinfo(htu.desugar(astdb.qtype(p_)))[0] == 'int']
        if len(mems) + len(ints) != len(params) or not mems or len(ints) > 4:
            raise AnalysisBroken('%s copies linear memory to linear memory with memcpy and has a parameter list the concrete family does not cover' % name)
        witness = []

        def mcpy(interp, args, node):
            d, s_, k = args[0], args[1], args[2]
            if not (isinstance(d, Ptr) and isinstance(s_, Ptr) and isinstance(k, int)):
                raise pe.PEError('memcpy with symbolic operands')
            if d.c is s_.c and k > 0 and max(d.k, s_.k) < min(d.k + k, s_.k + k):
                witness.append((d.k, s_.k, k))
            src = [interp.load(s_.c, s_.k + i) for i in range(k)]
            for i in range(k):
                interp.store(d.c, d.k + i, src[i])
            return d

        def mmove(interp, args, node):
            d, s_, k = args[0], args[1], args[2]
            src = [interp.load(s_.c, s_.k + i) for i in range(k)]
            for i in range(k):
                interp.store(d.c, d.k + i, src[i])
            return d
        leafs = {'memcpy': mcpy, '__builtin_memcpy': mcpy, '__builtin___memcpy_chk': mcpy, 'memmove': mmove, '__builtin_memmove': mmove}
        runs = 0
        found = None
        for same in (True, False):
            for vals in itertools.product((0, 1, 3, 4, 8, 9), repeat=len(ints)):
                a = [(7 * i + 3) & 0xFF for i in range(40)]
                b = a if same else [(11 * i + 5) & 0xFF for i in range(40)]
                it2 = pe.Interp([htu], leafs, max_paths=64)
                it2.cur_tu = htu

                def rec(bytes_):
                    r = it2.zero_init('struct wasmMemory')
                    r['data'] = Ptr(bytes_, 0)
                    r['size'] = 40
                    return Ptr({'v': r}, 'v')
                args = [None] * len(params)
                for k_, i in enumerate(mems):
                    args[i] = rec(a if k_ == 0 else b)
                for k_, i in enumerate(ints):
                    args[i] = vals[k_]
                del witness[:]
                try:
                    it2.explore(lambda: (name, args, {}))
                except pe.PEError as e:
                    raise AnalysisBroken('%s on concrete operands %r: %s' % (name, vals, e))
                runs += 1
                if witness and found is None:
                    found = (vals, same, witness[0])
        c = cands[0]
        chk.expect(found is None, 'R11.12', '%s:memcpy-overlap' % name,
                   '%s%r (both memories %s) calls memcpy(data + %d, data + %d, %d) - overlapping ranges of the same memory (memory.copy must '
                   'handle them): memcpy on overlapping objects is undefined behaviour, an overlap-safe copy (memmove) is needed'
                   % ((name, found[0], 'the same' if found[1] else 'different') + found[2] if found else (name, (), '', 0, 0, 0)),
                   'runtime/%s:memcpy' % name, astdb.loc_str(c),
                   detail_ok='%d concrete operand tuples: memcpy is never reached with overlapping ranges' % runs)
    chk.require(n >= 4, 'only %d memcpy calls found in the runtime header' % n)
    chk.ok('R11.12', 'memcpy-calls-scanned', '%d memcpy calls of the runtime header examined' % n)


def run(chk):
    chk.explanation = (
        'All statement templates of the opcode table (both formatting modes) plus control-flow scripts are extracted by partial evaluation, '
        'turned into one C translation unit against the current w2c2_base.h and (a) scanned on the typed AST for the type-based undefined-'
        'behaviour classes: signed + - * and negation, unmasked or signed shifts, unguarded integer division, unguarded float-to-int '
        'conversion; (b) compiled (syntax and type checking only) with gcc and clang as GNU C89 (thorough: also C99/C11/C17) with implicit '
        'declarations and pointer mismatches as errors. Module-controlled names are emitted through the import/export emitters with quotes, '
        'backslashes, line breaks and non-ASCII bytes and the emitted string-literal contents are lexed with C rules and compared with the '
        'name. Equality of results across optimisation levels follows from UB-freedom only for these classes; evaluation order does not '
        'arise because each template is a single assignment.')
    chk.assumptions = ['gcc 12 / clang 14 as representatives of "gcc and clang"', 'reads of operand slots before assignment are excluded by wasm validation']
    tus = emit.translator_tus(('c.c', 'opcode.c', 'instruction.c'), chk=chk)
    it = emit.make_interp(tus)
    vts = c01.value_types(it)
    tabs = c01.read_type_tables(chk, tus[0], it, vts, 'R11.6')
    configs = [(0, 0), (1, 0)] if chk.tier == 'quick' else [(0, 0), (1, 0), (0, 1), (1, 1)]
    tpls = all_templates(chk, it, tabs, configs) + control_scripts(it)
    chk.require(len(tpls) >= 380, 'only %d templates extracted' % len(tpls))
    h = templates.Harness(base_flags=['-DWASM_THREADS_PTHREADS'])
    for name, text, row in tpls:
        h.add(name, text)
    tu = h.parse('c11')
    chk.unit(tu)
    n_ops = n_div = 0
    undecided = []
    callees = set()
    for name, text, row in tpls:
        f = tu.fn(name)
        stmts = ct.statements(f)
        site = 'template/' + (row['name'] if row else name)
        n_before = len(chk.obligations)
        n_ops += ub_scan(chk, 'R11', name, stmts, tu, site, text)
        n_div += division_guards(chk, name, stmts, tu, site, text)
        new_fail = [o for o in chk.obligations[n_before:] if not o['ok']]
        if new_fail and row and row['sem'].get('cls') in ('bin', 'icmp', 'eqz', 'shift', 'rot', 'div', 'rem', 'clz', 'ctz', 'popcnt', 'wrap', 'extend'):
            # the type-based rules did not recognise how this integer template avoids undefined behaviour: search a witness by exact
            # evaluation on the boundary grid.  With a witness the reports stand; without one the template is not decided (exit 2)
            st1 = [s_ for s_ in stmts if s_.get('kind') != 'NullStmt']
            e1 = ct.simplify(st1[0], tu) if len(st1) == 1 else None
            if e1 is not None and e1.k == 'assign':
                ops_ = [mr.slot(tabs, t_, len(mr.FILLER) + k_) for k_, t_ in enumerate(row['params'])]
                try:
                    wit = sr.ub_on_grid(row, e1.a[1], ops_)
                except AnalysisBroken:
                    wit = 'not evaluable'
                if wit is None:
                    for o in new_fail:
                        chk.obligations.remove(o)
                    undecided.append('%s: %s' % (name, '; '.join(o['detail'][:120] for o in new_fail[:2])))
                elif wit != 'not evaluable':
                    chk.note('%s: undefined behaviour witnessed for %s' % (name, wit))
        if row and row['sem'].get('cls') == 'trunc':
            # exact decision on the order abstraction of the guard constants (shared with C02 R02.5): only undefined
            # conversions are C11's business, wrong-but-defined results belong to C02
            st1 = [s_ for s_ in stmts if s_.get('kind') != 'NullStmt']
            e = ct.simplify(st1[0], tu)
            if e.k == 'assign':
                try:
                    probs, npts = sr.descr_trunc(row, e.a[1], [mr.slot(tabs, row['params'][0], len(mr.FILLER))])
                except AnalysisBroken as ex:
                    probs, npts = ['undecided: %s' % ex], 0
                ub = [p_ for p_ in probs if 'undefined behaviour' in p_]
                chk.expect(not ub, 'R11.4', name + ':f2i-exact', 'float-to-integer conversion reached with an out-of-range operand: %s [template: %s]'
                           % ('; '.join(ub[:2]), text.strip()), site + ':f2i-range', detail_ok='%d boundary operands, conversion always in range' % npts)
        for nd in walk(astdb.fn_body(f)):
            if nd.get('kind') == 'CallExpr':
                cn = astdb.callee_name(nd)
                if cn and cn in tu.functions and (astdb.file_of(tu.functions[cn]) or '').endswith('w2c2_base.h'):
                    callees.add(cn)
    for cn in sorted(callees):
        f = tu.fn(cn)
        chk.fn(cn)
        stmts = ct.statements(f)
        n_ops += ub_scan(chk, 'R11', cn, stmts, tu, 'runtime/' + cn)
        # R11.5: no typed dereference of memory->data
        bad = []
        body_ = astdb.fn_body(f)
        # pointers into linear memory: expressions mentioning ->data, and locals initialised/assigned from such expressions
        tainted = set()
        changed = True

        def from_data(x):
            return any((y.get('kind') == 'MemberExpr' and y.get('name') == 'data') or
                       (y.get('kind') == 'DeclRefExpr' and y.get('referencedDecl', {}).get('id') in tainted) for y in walk(x))
        while changed:
            changed = False
            for nd in walk(body_):
                if nd.get('kind') == 'VarDecl' and nd.get('init') and nd.get('id') not in tainted and '*' in (astdb.qtype(nd) or ''):
                    if from_data([c for c in kids(nd) if c.get('kind')][-1]):
                        tainted.add(nd['id'])
                        changed = True
                if nd.get('kind') == 'BinaryOperator' and nd.get('opcode') == '=':
                    l = astdb.strip(kids(nd)[0])
                    if l.get('kind') == 'DeclRefExpr' and l['referencedDecl'].get('id') not in tainted and '*' in (astdb.qtype(l) or '') \
                            and from_data(kids(nd)[1]):
                        tainted.add(l['referencedDecl']['id'])
                        changed = True

        def scan(nd, guards):
            if not isinstance(nd, dict) or not nd.get('kind'):
                return
            if nd['kind'] == 'IfStmt':
                inner = nd['inner']
                scan(inner[0], guards)
                scan(inner[1], guards + [inner[0]])
                for extra in inner[2:]:
                    scan(extra, guards)
                return
            if nd['kind'] == 'UnaryOperator' and nd.get('opcode') == '*':
                sub = astdb.strip(kids(nd)[0])
                if sub.get('kind') == 'CStyleCastExpr' and from_data(sub):
                    pt = (astdb.qtype(sub) or '').replace('const ', '').replace('volatile ', '').strip().rstrip('*').strip()
                    pointee = tu.desugar(pt)
                    if pointee not in ('char', 'unsigned char', 'signed char', 'void'):
                        td = tu.typedefs.get(pt)
                        may_alias = td is not None and any(c.get('kind') == 'MayAliasAttr' for c in td.get('inner', []))
                        aligned = any(from_data(g) and any(x.get('kind') == 'BinaryOperator' and x.get('opcode') == '&' for x in walk(g)) for g in guards)
                        if not (may_alias and aligned):
                            bad.append(astdb.loc_str(nd))
            for c in nd.get('inner', []):
                scan(c, guards)
        scan(body_, [])
        chk.expect(not bad, 'R11.5', cn + ':no-typed-deref', '%s dereferences linear memory through a cast pointer at %s (alignment / aliasing UB)'
                   % (cn, bad[:2]), 'runtime/' + cn + ':typed-deref')
    chk.ok('R11.1', 'arithmetic-operators-scanned', '%d arithmetic/shift operators in %d templates and %d runtime functions' % (n_ops, len(tpls), len(callees)))
    chk.ok('R11.2', 'shift-operators-scanned', '')
    chk.extra['templates'] = len(tpls)
    chk.extra['operators_scanned'] = n_ops
    chk.extra['runtime_functions'] = sorted(callees)
    # R11.9: WebAssembly locals are zero on entry and may be read before any write - in the emitted C each local therefore needs its
    # own initialiser, otherwise the read is of an indeterminate object (results differ between optimisation levels); shared with C03
    c03.check_function_body(chk, tus, tabs, rule='R11.9')
    # R11.10: an identifier spelled differently by the declaration writer and the use writer is an undeclared identifier - the
    # output does not compile (twin-emitter rule shared with C04 R04.2 / C09 R09.5)
    from . import c09
    c09.check_twins(chk, tus, rule='R11.10')
    # R11.11: every operand-stack variable the control-flow emitters mention is declared (recorded in stackDeclarations, or the slot
    # of an operand / label result that existed before) - otherwise the function does not compile; rule shared with C03 R03.5,
    # evaluated here on the branch family (branch kind x nesting depth x extra operands x result type) and the branch scripts
    c03.LETTERS.update(tabs['letter'])
    c03.DECL_RULE[0], c03.DECL_COUNT[0] = 'R11.11', 0
    # R11.15: a branch that carries a value moves it into the result slot of its target (block or if label); otherwise the code after
    # the construct reads a slot variable that was not assigned on that path - an indeterminate value (rule shared with C03 R03.2)
    c03.CARRY_RULE[0] = 'R11.15'
    try:
        it3 = emit.make_interp(tus)
        c03.check_branch_family(chk, it3, tabs, chk.tier)
        c03.check_labels(chk, it3, tabs)
        n_decl = c03.DECL_COUNT[0]
    finally:
        c03.DECL_RULE[0] = 'R03.5'
        c03.CARRY_RULE[0] = 'R03.2'
    chk.require(n_decl >= 100, 'declared-slot rule evaluated on %d scripts only' % n_decl)
    # R11.12: memcpy between two locations of linear memory - ranges that the module chooses and that may overlap - is undefined
    # behaviour (7.24.2.1); such a copy needs memmove.  Every memcpy call of the runtime header is examined: a call is fine when at
    # most one side points into a memory's data
    check_overlapping_memcpy(chk)
    # R11.13: every in-bounds access lies inside the allocated object: the allocator reserves initialPages (for a shared memory, whose
    # storage memory.grow never moves: maxPages) x 64 KiB and records the same size (allocator rule shared with C06 R06.7)
    c06.check_allocators(chk, rule='R11.13')
    chk.floor('R11.13', 8)
    chk.ok('R11.11', 'slots-declared', '%d control-flow scripts use declared operand-stack variables only' % n_decl)
    compile_witness(chk, h.source(), chk.tier)
    if undecided and not chk.unlisted_violations():
        raise AnalysisBroken('templates whose freedom from undefined behaviour is not recognised by the type-based rules and not refuted on '
                             'the boundary grid: %s' % ' | '.join(undecided[:4]))
    check_string_positions(chk, tus)
    check_export_table_length(chk, tus)
    chk.floor('R11.14', 4)
    chk.floor('R11.3', 8)
    chk.floor('R11.4', 16)
    chk.floor('R11.5', 80)
    chk.floor('R11.6', 2)
    chk.floor('R11.7', 14)
    chk.floor('R11.8', 8)
