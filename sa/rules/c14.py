"""C14  WASI path operations act on the resolved path; directory listings are complete.

R14.1  every guest path is resolved: the native path argument of each path_* import is a copy of resolvePath's
       output (never the raw guest pointer); the directory argument is the descriptor's stored path, tested for
       NULL; a failing resolution returns an error before any native call; the native operation is the one the
       import names and its failure is translated
R14.2  resolvePath writes are bounded: along each path the guards entail, coefficient-wise over strlen(directory)
       and pathLength, that every byte written lies inside result[PATH_MAX]; the empty path is rejected first; an
       absolute path is copied unchanged; a separator is inserted iff the directory does not end with one
R14.3  descriptor-path invariant: insertion rejects empty paths and paths of PATH_MAX or more (the bound every
       later strcpy of a descriptor path into a PATH_MAX array relies on)
R14.4  directory stream position: on every path from the entry of fd_readdir to its first readdir() one of
       opendir / seekdir / rewinddir has been called - the position always follows from the cookie
R14.5  dirent layout: d_next@0 u64, d_ino@8 u64, d_namlen@16 u32, d_type@20 u8, record size 24, name after the
       record, truncated to the remaining space; bufused = buflen signals a full buffer
R14.6  error discipline of the path operations
R14.7  every descriptor issued by path_open records a copy of the resolved path it was opened with (both generations, with and
       without the DIRECTORY flag): later relative paths and fd_readdir resolve against it
R14.15 every successful fd_readdir path leaves the descriptor's directory stream in the table (earlier cookies stay resumable)
"""
from .. import astdb, pe, wasi as W, wasi_oracle as O, runtime
from ..astdb import kids, walk, AnalysisBroken
from ..pe import Sym, Ptr, unk, is_sym
from .c13 import std_table
from .c12 import lin, offset_from, _native_failed

INVAL = 28
BADF = 8

PATH_IMPORTS = {   # import -> (native function, positions of its path arguments, witx (fd, path, path_len) parameter triples)
    'path_open': ('open', [0], [(0, 2, 3)]), 'path_filestat_get': ('stat', [0], [(0, 2, 3)]),
    'path_rename': ('rename', [0, 1], [(0, 1, 2), (3, 4, 5)]),
    'path_unlink_file': ('unlink', [0], [(0, 1, 2)]), 'path_remove_directory': ('rmdir', [0], [(0, 1, 2)]),
    'path_create_directory': ('mkdir', [0], [(0, 1, 2)]), 'path_symlink': ('symlink', [1], [(2, 3, 4)]),
    'path_readlink': ('readlink', [0], [(0, 1, 2)]),
}
DIR_SLOTS = [(3, '/preopen'), (4, '/other')]


def two_dir_table():
    t = std_table(0)
    t.append(W.descriptor(-1, 0, '/other'))
    return t


def _first_byte_is_separator(decisions, gp):
    """the path so far has established that the first byte of the guest string gp is '/' (an absolute guest path)"""
    g0 = pe.strip_casts(gp) if is_sym(gp) else gp
    for dec in decisions:
        c, t = dec[0], dec[1]
        c0 = pe.norm_cond(c)
        if not (is_sym(c0) and c0.op == '==' and t and len(c0.args) == 2):
            continue
        for x, y in ((c0.args[0], c0.args[1]), (c0.args[1], c0.args[0])):
            if y != 47:
                continue
            x0 = pe.strip_casts(x)
            if is_sym(x0) and x0.op == 'index' and x0.args[1] == 0 and pe.strip_casts(x0.args[0]) == g0:
                return True
            if is_sym(x0) and x0.op == 'deref' and pe.strip_casts(x0.args[0]) == g0:
                return True
    return False


def path_leafs(state):
    def resolve(interp, args, node):
        d, p, n, res = args
        # an absolute guest path is used as is: resolvePath does not look at the directory then (R14.2 absolute-independent-of-directory
        # decides that on resolvePath itself), so whatever directory string accompanies a path already tested to start with '/' is
        # recorded as the descriptor's own
        if isinstance(d, str) and _first_byte_is_separator(getattr(interp.path, 'decisions', []), p):
            d = ('any-directory-for-absolute-path', d)
        state.setdefault('resolves', []).append((d, p, n))
        interp.event('resolvePath', (pe._hashable(d), pe._hashable(p), pe._hashable(n)), node)
        if not interp.decide(unk('resolve-ok-%d' % len(state['resolves'])), node):
            return 0
        if isinstance(res, Ptr) and isinstance(res.c, list):
            res.c[res.k] = ('resolved', pe._hashable(d), pe._hashable(p), pe._hashable(n))
        return 1

    def strcpy(interp, args, node):
        dst, src = args[0], args[1]
        interp.event('extern:strcpy', (pe._hashable(dst), pe._hashable(src)), node)
        if isinstance(dst, Ptr) and isinstance(dst.c, list):
            if isinstance(src, Ptr) and isinstance(src.c, list):
                dst.c[dst.k] = ('copy', src.c[src.k])
            else:
                dst.c[dst.k] = ('copy', pe._hashable(src))
        return dst

    def memcpy(interp, args, node):
        dst, src, n = args
        interp.event('extern:memcpy', (pe._hashable(dst), pe._hashable(src), pe._hashable(n)), node)
        if isinstance(dst, Ptr) and isinstance(dst.c, list):
            dst.c[dst.k] = ('bounded-copy', pe._hashable(src), pe._hashable(n))
        return dst
    return {'resolvePath': resolve, 'strcpy': strcpy, 'memcpy': memcpy}


def origin(v):
    """classify a native path argument: 'resolved' | 'raw-guest' | 'bounded-copy' | other"""
    if isinstance(v, Ptr) and isinstance(v.c, list):
        x = v.c[v.k] if v.k < len(v.c) else None
        while isinstance(x, tuple) and x and x[0] == 'copy':
            x = x[1]
        if isinstance(x, tuple) and x and x[0] in ('resolved', 'bounded-copy'):
            return x[0], x
        return 'buffer:%r' % (x,), x
    if is_sym(v) and any(s.op == 'unk' and s.args[0] == 'gdata' for s in pe.sym_walk(v)):
        return 'raw-guest', v
    return 'other:%r' % (v,), v


def _type_max(v):
    from .. import ctyperules as ct
    ti = ct.tinfo(v.ctype) if getattr(v, 'ctype', None) else ('other',)
    if ti[0] == 'int':
        return (1 << (ti[1] - (1 if ti[2] else 0))) - 1
    return None


def path_upper_bounds(p):
    """{term: largest value the guards of path p admit} from relations `form < K` / `form <= K` whose left side is linear in one term"""
    ub = {}
    for rop, a, b in pe.relations(p):
        for x, y, op_ in ((a, b, rop), (b, a, pe._REL_SWAP[rop])):
            if op_ in ('<', '<=') and isinstance(y, int) and not isinstance(y, bool):
                f = lin(x)
                if f is None:
                    continue
                terms = [(k, c) for k, c in f.items() if k != 1 and c != 0]
                if len(terms) == 1 and terms[0][1] > 0:
                    k, c = terms[0]
                    bound = (y - f.get(1, 0) - (1 if op_ == '<' else 0)) // c
                    ub[k] = min(ub.get(k, bound), bound)
            if op_ == '==' and isinstance(y, int) and not isinstance(y, bool) and is_sym(x):
                ub[x] = min(ub.get(x, y), y)
    return ub


def max_value(v, ub):
    """largest value of the non-negative quantity v the path admits (guards, else the range of its type); None when not determined"""
    f = lin(v)
    if f is None:
        return None
    total = f.get(1, 0)
    for k, c in f.items():
        if k == 1 or c == 0:
            continue
        if c < 0 or not is_sym(k):
            return None
        m = ub.get(k)
        tm = _type_max(k)
        if is_sym(k) and k.op == 'strlen' and k.args and isinstance(k.args[0], Ptr) and isinstance(k.args[0].c, list) and \
                isinstance(k.args[0].k, int) and len(k.args[0].c) >= 16:
            # the length of the C string held in a fixed-size buffer of this function: at most its capacity - 1 (the buffer is filled by
            # the bounded writers R14.2 / R14.9 decide; a strlen that runs past the array would itself be the out-of-bounds access)
            cap = len(k.args[0].c) - k.args[0].k - 1
            tm = cap if tm is None else min(tm, cap)
        if m is None:
            m = tm
        elif tm is not None:
            m = min(m, tm)
        if m is None:
            return None
        total += c * m
    return total


def check_local_buffer_writes(chk, imp, inst, paths):
    """R14.9: every write an import performs into one of its own fixed-size buffers (a copy with a length, a store at an index) stays
    inside the buffer for every value the guards of that path admit - the largest admitted length/index is computed from the path's
    relations (`len < K`, `len + c <= K`, else the range of the operand's type)"""
    n = 0
    undecided = []
    for p in paths:
        ub = None
        for name, a, loc in p.events:
            tgt = None
            if name in ('extern:memcpy', 'extern:memmove', 'extern:strncpy', 'extern:memset') and len(a) == 3 and isinstance(a[0], Ptr) and \
                    isinstance(a[0].c, list) and len(a[0].c) >= 16 and isinstance(a[0].k, int):
                tgt = ('copy of', a[2], len(a[0].c) - a[0].k, len(a[0].c))      # length must be <= remaining capacity
            elif name in ('store-sym', 'store-sym-index') and is_sym(a[0]) and a[0].op == 'index' and isinstance(a[0].args[0], Ptr) and \
                    isinstance(a[0].args[0].c, list) and len(a[0].args[0].c) >= 16 and isinstance(a[0].args[0].k, int):
                tgt = ('store at index', a[0].args[1], len(a[0].args[0].c) - a[0].args[0].k - 1, len(a[0].args[0].c))
            if tgt is None:
                continue
            if ub is None:
                ub = path_upper_bounds(p)
            what, qty, limit, cap = tgt
            m = max_value(qty, ub)
            n += 1
            if m is None:
                undecided.append('%s %r at %s' % (what, qty, loc))
                continue
            chk.expect(m <= limit, 'R14.9', '%s:buffer-write@%s' % (inst, (loc or '?').split('/')[-1]),
                       '%s: %s %r into a %d-byte local buffer at %s: the guards on this path (%s) admit the value %d, the buffer allows at most %d - '
                       'a write past the end of the buffer' % (imp, what, qty, cap, loc, p.cond_text()[:160] or 'none', m, limit), imp + ':buffer-write', loc)
    if undecided and not chk.unlisted_violations():
        raise AnalysisBroken('%s: cannot bound %s' % (imp, '; '.join(undecided[:3])))
    return n


def check_path_imports(chk, tu):
    eps = W.entry_points(tu)
    n_buf = [0]
    chk.extra_buffer_writes = n_buf
    for imp, (native, ppos, triples) in sorted(PATH_IMPORTS.items()):
        for gen, f in sorted(eps[imp].items()):
            params = astdb.fn_params(f)[1:]
            state = {}

            fd_value = {}
            for k, (fi, pi, li) in enumerate(triples):
                fd_value[fi] = DIR_SLOTS[k][0]

            def mk(it, st):
                args = [unk('instance')]
                for i, p in enumerate(params):
                    nm = p.get('name', '')
                    t = tu.desugar(astdb.qtype(p))
                    if i in fd_value:
                        args.append(fd_value[i])
                    elif 'lags' in nm or 'ights' in nm:
                        args.append(0)
                    else:
                        args.append(unk('p%d' % i, t))
                return args
            captured = []

            def hook(interp, name, args, node, res):
                if name == native:
                    captured.append([origin(a) for a in args])
                return None
            st2 = {}
            it = W.make_interp(tu, st2, path_leafs(state), max_paths=3000)
            it.extern_hook = hook
            results = []

            def setup():
                st2.clear()
                state.clear()
                W.seed_globals(it, tu, st2, two_dir_table(), errno_value=5)
                return (f['name'], mk(it, st2), {})
            paths = it.explore(setup)
            inst = '%s/%s' % (gen, imp)
            site = imp
            n_native = 0
            n_buf[0] += check_local_buffer_writes(chk, imp, inst, paths)
            for p in paths:
                calls = [(n[7:], a, l) for n, a, l in p.events if n.startswith('extern:') and n[7:] == native]
                res_ev = [a for n, a, l in p.events if n == 'resolvePath']
                failed_res = any(str(c.args[0]).startswith('resolve-ok') and not t for c, t, _ in p.decisions if c.op == 'unk')
                if failed_res:
                    chk.expect(not calls and p.ret not in (0,), 'R14.1', inst + ':resolve-failure-stops',
                               '%s performs %s() / returns %r after path resolution failed' % (imp, native, p.ret), site + ':resolve-failure')
                for nm, a, l in calls:
                    n_native += 1
                want_res = []
                for k, (fi, pi, li) in enumerate(triples):
                    want_res.append((DIR_SLOTS[k][1], unk('p%d' % pi), unk('p%d' % li)))
                got_res = []
                for a in res_ev:
                    gp = a[1]
                    from .c14 import _strip_data as _sd
                    g0 = pe.strip_casts(_sd(pe.strip_casts(gp))) if is_sym(gp) else gp
                    got_res.append((a[0], g0, pe.strip_casts(a[2]) if is_sym(a[2]) else a[2]))
                anyd = lambda g: isinstance(g[0], tuple) and g[0] and g[0][0] == 'any-directory-for-absolute-path'
                okr = all((g in want_res) or (anyd(g) and any(g[1:] == w[1:] for w in want_res)) for g in got_res) and (len(got_res) <= len(want_res))
                chk.expect(okr, 'R14.1', inst + ':resolves-against-descriptor-path',
                           '%s resolves %r; each guest path must be resolved against the stored path of ITS OWN directory descriptor with its own '
                           'pointer and length: expected %r' % (imp, [(g[0], repr(g[1]), repr(g[2])) for g in got_res],
                                                                [(w[0], repr(w[1]), repr(w[2])) for w in want_res]), site + ':directory')
                if _native_failed(p, (native,)):
                    chk.expect(p.ret not in (0,), 'R14.6', inst + ':failure-reported', '%s reports SUCCESS after %s() failed' % (imp, native),
                               site + ':error-discipline')
            chk.expect(n_native >= 1, 'R14.1', inst + ':performs-operation',
                       '%s never calls %s()' % (imp, native), site + ':operation')
            for origins in captured:
                for j, k in enumerate(ppos):
                    if k >= len(origins):
                        continue
                    kind, detail = origins[k]
                    chk.expect(kind == 'resolved', 'R14.1', inst + ':native-path-%d-resolved' % k,
                               '%s passes %s as path argument %d of %s(): the guest path reaches the host call without going through '
                               'resolvePath (not anchored at the directory descriptor, not length-checked, not NUL-terminated)'
                               % (imp, kind, k, native), site + ':unresolved-path')
                    if kind == 'resolved' and j < len(triples):
                        fi, pi, li = triples[j]
                        gp = detail[2]
                        g0 = pe.strip_casts(_strip_data(pe.strip_casts(gp))) if is_sym(gp) else gp
                        okd = (detail[1] == DIR_SLOTS[j][1] or (isinstance(detail[1], tuple) and detail[1] and
                                                                detail[1][0] == 'any-directory-for-absolute-path')) and g0 == unk('p%d' % pi)
                        chk.expect(okd, 'R14.1', inst + ':native-path-%d-is-its-own' % k,
                                   '%s: argument %d of %s() is the resolution of %r against %r; the specification pairs it with guest path '
                                   'parameter %d and directory %r (old/new swapped or resolved against the wrong descriptor)'
                                   % (imp, k, native, g0, detail[1], pi, DIR_SLOTS[j][1]), site + ':path-pairing')
                if imp == 'path_symlink' and origins:
                    kind, detail = origins[0]
                    chk.expect(kind == 'bounded-copy', 'R14.1', inst + ':link-target-bounded',
                               'symlink target is %s; expected a length-checked, terminated copy of the guest string' % kind, site + ':target')
            # the descriptor must carry a path (preopen): closed / pathless descriptors give EBADF (C13 decides the closed state)


RESOLVED_FAMILY = ['/', '//', '/a', '/a/', '/preopen/x', '/preopen/d//', '/preopen/a/b.c', '/preopen/./d/', '/x7', '/other/y/']
RESOLVED_FAMILY_QUICK = ['/', '//', '/a/', '/preopen/x', '/preopen/d//', '/other/y/']
DIR_OPS = ('rmdir', 'mkdir')


def _posix_same_directory_path(a, b):
    """for operations on a directory (rmdir, mkdir) trailing slashes do not change what a pathname with a non-slash character resolves to
    (POSIX pathname resolution); nothing else may differ, and a pathname of slashes only is the root - never the empty string"""
    def norm(t):
        if t == '':
            return None
        r = t.rstrip('/')
        return r if r else '/'
    return norm(a) is not None and norm(a) == norm(b)


def check_native_path_bytes(chk, tu):
    """R14.12: the host operation is performed on the resolved path: every path import is evaluated with resolvePath modelled as
    producing a concrete string (a family with the root, doubled and trailing separators, dots) and the bytes the native call receives
    as its path argument are compared with it - equal, or for rmdir/mkdir equal up to trailing separators of a path that has another
    character.  Whatever the import does to the buffer in between (copying, converting separators, trimming) is decided on the result"""
    eps = W.entry_points(tu)
    n = 0
    for imp, (native, ppos, triples) in sorted(PATH_IMPORTS.items()):
        for gen, f in sorted(eps[imp].items()):
            params = astdb.fn_params(f)[1:]
            fd_value = {}
            for k, (fi, pi, li) in enumerate(triples):
                fd_value[fi] = DIR_SLOTS[k][0]
            for ri, rstr in enumerate(RESOLVED_FAMILY if chk.tier == 'thorough' else RESOLVED_FAMILY_QUICK):
                state = {}
                given = []
                captured = []

                def cstring(v):
                    if isinstance(v, str):
                        return v
                    if isinstance(v, Ptr) and isinstance(v.c, list):
                        out = []
                        k_ = v.k
                        while k_ < len(v.c) and isinstance(v.c[k_], int) and v.c[k_] != 0:
                            out.append(chr(v.c[k_] & 0xFF))
                            k_ += 1
                        if k_ < len(v.c) and v.c[k_] == 0:
                            return ''.join(out)
                    return None

                def resolve(interp, args, node, rstr=rstr):
                    d, p_, n_, res = args
                    interp.event('resolvePath', (pe._hashable(d), pe._hashable(p_), pe._hashable(n_)), node)
                    if not (isinstance(res, Ptr) and isinstance(res.c, list)):
                        raise pe.PEError('resolvePath result buffer is %r' % (res,))
                    # the second resolved path of a two-path import differs from the first
                    text = rstr if not given else ('/other/second' if rstr != '/other/second' else '/other/2')
                    given.append(text)
                    for k_, ch in enumerate(text):
                        res.c[res.k + k_] = ord(ch)
                    res.c[res.k + len(text)] = 0
                    return 1

                def strlen(interp, args, node):
                    t = cstring(args[0])
                    if t is None:
                        return Sym('strlen', (pe._hashable(args[0]),), 'unsigned long')
                    return len(t)

                def strcpy(interp, args, node):
                    t = cstring(args[1])
                    d = args[0]
                    if t is None or not (isinstance(d, Ptr) and isinstance(d.c, list)):
                        interp.event('extern:strcpy', (pe._hashable(d), pe._hashable(args[1])), node)
                        return d
                    for k_, ch in enumerate(t):
                        d.c[d.k + k_] = ord(ch)
                    d.c[d.k + len(t)] = 0
                    return d

                def hook(interp, name, args, node, res, native=native):
                    if name == native:
                        captured.append([cstring(a) for a in args])
                    return None

                def mk(it_, st):
                    args = [unk('instance')]
                    for i, p_ in enumerate(params):
                        nm = p_.get('name', '')
                        t = tu.desugar(astdb.qtype(p_))
                        if i in fd_value:
                            args.append(fd_value[i])
                        elif 'lags' in nm or 'ights' in nm:
                            args.append(0)
                        else:
                            args.append(unk('p%d' % i, t))
                    return args
                st2 = {}
                it = W.make_interp(tu, st2, {'resolvePath': resolve, 'strlen': strlen, 'strcpy': strcpy}, max_paths=3000)
                it.extern_hook = hook

                def setup():
                    st2.clear()
                    del given[:]
                    W.seed_globals(it, tu, st2, two_dir_table(), errno_value=5)
                    return (f['name'], mk(it, st2), {})
                try:
                    it.explore(setup)
                except pe.PEError as e:
                    raise AnalysisBroken('%s/%s with the resolved path %r: %s' % (gen, imp, rstr, e))
                if not captured:
                    raise AnalysisBroken('%s/%s with the resolved path %r never reaches %s()' % (gen, imp, rstr, native))
                want = [rstr, '/other/second' if rstr != '/other/second' else '/other/2']
                bad = None
                for got in captured:
                    for j, k in enumerate(ppos):
                        if k >= len(got) or j >= len(triples):
                            continue
                        g = got[k]
                        same = g == want[j] or (native in DIR_OPS and g is not None and _posix_same_directory_path(g, want[j]))
                        if not same and bad is None:
                            bad = (k, g, want[j])
                n += 1
                chk.expect(bad is None, 'R14.12', '%s/%s:native-path[%s]' % (gen, imp, rstr),
                           '%s: the guest path resolves to %r, but %s() is called with %r as path argument %d - the host operation is '
                           'performed on another object (or on none: the empty path) than the one the sandbox resolved'
                           % (imp, bad[2] if bad else None, native, bad[1] if bad else None, bad[0] if bad else 0), imp + ':native-path-bytes')
    return n


def check_error_translation(chk, tu):
    """R14.13: "... performs the host operation with its error code translated": every path import, evaluated with the host call failing
    and errno set to each of a family of values (the ones the operations produce: ENOENT, EEXIST, EACCES, ENOTDIR, ENOTEMPTY, ...),
    returns exactly the witx number of that errno - no errno is swallowed (reported as success) or replaced on the way"""
    eps = W.entry_points(tu)
    macros = W.host_macros(('E',))
    names = ['EEXIST', 'ENOTEMPTY', 'ENOENT'] if chk.tier != 'thorough' else \
        ['ENOENT', 'EEXIST', 'ENOTEMPTY', 'EACCES', 'ENOTDIR', 'EISDIR', 'EIO', 'ELOOP', 'ENAMETOOLONG', 'EXDEV', 'EROFS', 'EBUSY', 'EPERM', 'EINVAL']
    n = 0
    for imp, (native, ppos, triples) in sorted(PATH_IMPORTS.items()):
        for gen, f in sorted(eps[imp].items()):
            params = astdb.fn_params(f)[1:]
            fd_value = {}
            for k, (fi, pi, li) in enumerate(triples):
                fd_value[fi] = DIR_SLOTS[k][0]
            state = {}
            st2 = {}
            it = None
            for en in names:
                if en not in macros or en not in O.HOST_ERRNO:
                    continue
                want = O.ERRNO_NUM[O.HOST_ERRNO[en]]

                def mk(it_, st):
                    args = [unk('instance')]
                    for i, p_ in enumerate(params):
                        nm = p_.get('name', '')
                        t = tu.desugar(astdb.qtype(p_))
                        if i in fd_value:
                            args.append(fd_value[i])
                        elif 'lags' in nm or 'ights' in nm:
                            args.append(0)
                        else:
                            args.append(unk('p%d' % i, t))
                    return args
                if it is None:
                    it = W.make_interp(tu, st2, path_leafs(state), max_paths=3000)

                def setup(en=en):
                    st2.clear()
                    state.clear()
                    W.seed_globals(it, tu, st2, two_dir_table(), errno_value=macros[en])
                    return (f['name'], mk(it, st2), {})
                bad = None
                seen = 0
                for p in it.explore(setup):
                    if p.aborted or not _native_failed(p, (native,)):
                        continue
                    seen += 1
                    if p.ret != want and bad is None:
                        bad = p.ret
                if not seen:
                    continue
                n += 1
                chk.expect(bad is None, 'R14.13', '%s/%s:%s' % (gen, imp, en),
                           '%s: when %s() fails with %s (%d) the import returns %r; the witx number of %s is %d - the failure of the host '
                           'operation is %s' % (imp, native, en, macros[en], bad, O.HOST_ERRNO[en], want,
                                                'reported as success' if bad == 0 else 'reported as another error'), imp + ':error-translation')
    return n


def check_follow_flag(chk, tu):
    """R14.11: path_filestat_get with the symlink-follow lookup flag set describes the file the link points to: the host operation is
    stat() (following), never lstat().  (With the flag clear the specification asks for lstat; upstream always follows - a documented
    TODO that is noted, not decided.)"""
    eps = W.entry_points(tu)
    n = 0
    for gen, f in sorted(eps.get('path_filestat_get', {}).items()):
        params = astdb.fn_params(f)[1:]
        for flagv in (1, 0):
            state = {}

            def mk(it, st):
                args = [unk('instance')]
                for i, p in enumerate(params):
                    nm = p.get('name', '')
                    if i == 0:
                        args.append(DIR_SLOTS[0][0])
                    elif 'lags' in nm:
                        args.append(flagv)
                    else:
                        args.append(unk('p%d' % i, tu.desugar(astdb.qtype(p))))
                return args
            st2 = {}
            it = W.make_interp(tu, st2, path_leafs(state), max_paths=3000)

            def setup():
                st2.clear()
                state.clear()
                W.seed_globals(it, tu, st2, two_dir_table(), errno_value=5)
                return (f['name'], mk(it, st2), {})
            paths = it.explore(setup)
            ops = set()
            for p in paths:
                for nm, a, l in p.events:
                    if nm in ('extern:stat', 'extern:lstat', 'extern:fstatat', 'extern:stat64', 'extern:lstat64'):
                        ops.add(nm[7:].replace('64', ''))
            n += 1
            if flagv == 1:
                chk.expect(ops == {'stat'}, 'R14.11', '%s/path_filestat_get:follow' % gen,
                           'path_filestat_get with the symlink-follow flag set performs %s; it must describe the target of a symbolic link (stat), '
                           'not the link itself' % (sorted(ops) or 'no stat operation'), 'path_filestat_get:follow-flag')
            elif ops != {'lstat'}:
                chk.note('path_filestat_get without the symlink-follow flag performs %s (the specification asks for lstat; upstream TODO)' % sorted(ops))
    chk.require(n >= 2, 'path_filestat_get not found')


def check_resolve(chk, tu):
    """R14.2 on resolvePath itself"""
    chk.fn('resolvePath')
    macros = W.host_macros(('PATH_MAX',))
    PM = macros.get('PATH_MAX')
    chk.require(PM is not None, 'PATH_MAX not defined for wasi.c')
    L = Sym('strlen', ('dir',), 'unsigned long')
    N = unk('pathLength', 'unsigned int')
    first = unk('path0', 'char')
    last = unk('dirlast', 'char')
    state = {}

    class DirStr(list):
        pass

    def leafs():
        def strlen(interp, args, node):
            return L

        def memcpy(interp, args, node):
            interp.event('write', (pe._hashable(args[0]), pe._hashable(args[2]), 'memcpy', pe._hashable(args[1])), node)
            return args[0]
        return {'strlen': strlen, 'memcpy': memcpy}
    st2 = {}
    it = W.make_interp(tu, st2, leafs())
    result = [unk('r%d' % i) for i in range(8)]

    def setup():
        st2.clear()
        W.seed_globals(it, tu, st2, std_table(0))
        path = Ptr([first] + [unk('pathrest')] * 4, 0)
        directory = unk('directory', 'char *')
        return ('resolvePath', [directory, path, N, Ptr(result, 0)], {})
    paths = it.explore(setup)
    site = 'resolvePath'
    chk.require(len(paths) >= 4, 'resolvePath has %d paths' % len(paths))
    n_ok = 0
    for p in paths:
        cond = p.cond_text()
        guards = []     # (linear form, K): form < K holds on this path
        facts = {'empty-rejected': False}
        for c, t, _ in p.decisions:
            c0 = pe.norm_cond(c)
            if len(c0.args) != 2:
                continue
            a, b = c0.args
            la, lb = lin(a), lin(b)
            if c0.op == '<' and t and la is not None and isinstance(b, int):
                guards.append((la, b))
        for rop, ra, rb in pe.relations(p):
            # pathLength is unsigned: `> 0` and `!= 0` are the same test, however it is spelled
            for x, y, op_ in ((ra, rb, rop), (rb, ra, pe._REL_SWAP[rop])):
                if pe.strip_casts(x) == N and y == 0 and op_ in ('>', '!=', '<=', '=='):
                    facts['empty-rejected'] = True
                    if op_ in ('<=', '=='):
                        facts['empty'] = True
        if p.ret == 1:
            n_ok += 1
            chk.expect(facts['empty-rejected'], 'R14.2', 'empty-path-rejected[%s]' % cond[:60],
                       'a successful path of resolvePath has not tested pathLength > 0', site + ':empty')
        # what is written must stay inside result[PATH_MAX] on every path, also on one that rejects the path afterwards
        writes = []
        stores = []
        for n, a, l in p.events:
            if n == 'write':
                dst, ln = a[0], a[1]
                f = lin(dst)
                if f is None:
                    raise AnalysisBroken('resolvePath: non-linear destination %r' % (dst,))
                off = {k: c for k, c in f.items() if not (isinstance(k, tuple) and k and k[0] == 'ptr')}
                ll = lin(ln)
                if off is None or ll is None:
                    raise AnalysisBroken('resolvePath: non-linear write %r' % (a,))
                end = dict(off)
                for k, c in ll.items():
                    end[k] = end.get(k, 0) + c
                writes.append(('copy', end, l))        # exclusive end index
            elif n in ('store-sym-index', 'store-sym'):
                if n == 'store-sym':
                    tgt = a[0]
                    if not (is_sym(tgt) and tgt.op == 'index'):
                        continue
                    idx = lin(tgt.args[1])
                else:
                    idx = lin(a[0])
                if idx is None:
                    raise AnalysisBroken('resolvePath: non-linear index %r' % (a[0],))
                e = dict(idx)
                e[1] = e.get(1, 0) + 1
                writes.append(('store', e, l))
                stores.append(a[1])
        for kind, end, loc in writes:
            # need end <= PATH_MAX, i.e. end - 1 < PATH_MAX; find a guard  g < K  with  end - 1 <= g  and  K <= PATH_MAX
            e1 = dict(end)
            e1[1] = e1.get(1, 0) - 1
            ok = False
            for g, K in guards:
                if K <= PM and all(c <= g.get(k, 0) for k, c in e1.items() if k != 1) and e1.get(1, 0) <= g.get(1, 0) \
                        and all(c >= 0 for k, c in e1.items() if k != 1):
                    ok = True
            chk.expect(ok, 'R14.2', 'bounded-%s[%s]' % (kind, cond[:50]),
                       'resolvePath writes up to index (%s) - 1 of result[PATH_MAX=%d] but the guards on this path (%s) do not bound it: '
                       'a long directory/guest path overflows the buffer' % (_show(end), PM, '; '.join('%s < %d' % (_show(g), K) for g, K in guards)),
                       site + ':bound', loc)
    chk.require(n_ok >= 3, 'resolvePath has %d successful paths' % n_ok)
    # an absolute guest path is used as is: whether it is accepted depends on its own length only, never on the directory
    for p in paths:
        isabs = False
        seen_first = False
        for c, t, _ in p.decisions:
            if _mentions(c, first):
                r_ = pe.relation(c, t)
                if r_ is not None and 47 in (r_[1], r_[2]) and r_[0] in ('==', '!=') and not seen_first:
                    isabs = r_[0] == '=='
                    seen_first = True
        if not isabs:
            continue
        dep = [c for c, t, _ in p.decisions if any(x == L or (x.op == 'unk' and x.args[0] in ('directory', 'dirlast')) for x in pe.sym_walk(c))]
        chk.expect(not dep, 'R14.2', 'absolute-independent-of-directory[%s]' % p.cond_text()[:50],
                   'for an absolute guest path resolvePath %s after testing %r: acceptance of an absolute path must not depend on the path '
                   'of the directory descriptor (a path that fits the host limit is rejected when the directory path is long)'
                   % ('succeeds' if p.ret == 1 else 'fails', dep[0] if dep else None), site + ':absolute')
    # separator inserted iff the directory does not end with '/'; absolute paths copied unchanged
    for p in paths:
        if p.ret != 1:
            continue
        # is this the path on which the guest path starts with '/'?  (decided from the relation, however the test is spelled)
        absd = []
        for c, t, _ in p.decisions:
            if _mentions(c, first):
                r_ = pe.relation(c, t)
                if r_ is not None and 47 in (r_[1], r_[2]) and r_[0] in ('==', '!='):
                    absd.append(r_[0] == '==')
        if absd and absd[0]:
            srcs = [a[3] for n, a, l in p.events if n == 'write']
            chk.expect(len(srcs) == 1 and not any(is_sym(s) and s.op == 'unk' and s.args[0] == 'directory' for s in srcs), 'R14.2',
                       'absolute-unchanged', 'an absolute guest path is combined with the directory', site + ':absolute')
        else:
            sep = [a for n, a, l in p.events if n in ('store-sym-index', 'store-sym') and a[1] == 47]
            ends_without = None
            for c, t, _ in p.decisions:
                c0 = pe.norm_cond(c)
                if c0.op in ('!=', '==') and 47 in c0.args and any(s_.op == 'index' for s_ in pe.sym_walk(c0)) and not _mentions(c0, first):
                    ends_without = t if c0.op == '!=' else not t
            if ends_without is not None:
                chk.expect(bool(sep) == bool(ends_without), 'R14.2', 'separator-iff-needed[%s]' % p.cond_text()[:40],
                           'separator inserted=%r although the directory %s with one' % (bool(sep), 'does not end' if ends_without else 'ends'),
                           site + ':separator')
            chk.expect(ends_without is not None, 'R14.2', 'separator-tested[%s]' % p.cond_text()[:40],
                       'the relative branch does not look at the last character of the directory', site + ':separator')


def _mentions(c, s):
    return any(x == s for x in pe.sym_walk(c))


def _show(f):
    out = []
    for k, c in f.items():
        if k == 1:
            continue
        out.append(('%d*' % c if c != 1 else '') + repr(k))
    if f.get(1, 0):
        out.append(str(f[1]))
    return ' + '.join(out) if out else '0'


def check_invariant(chk, tu):
    macros = W.host_macros(('PATH_MAX',))
    PM = macros['PATH_MAX']
    for path, want in (('', 0), ('x' * (PM - 1), 1), ('x' * PM, 0), ('/ok', 1)):
        def mk(it, st):
            return [Ptr(st['wasi'], 'fds'), 5, path]
        paths = W.explore_entry(tu, 'wasiFileDescriptorsAdd', mk, lambda: std_table(0))
        rets = {p.ret if not is_sym(p.ret) else 1 for p in paths if not (p.ret == 0 and any(n == 'extern:strndup' for n, a, l in p.events))}
        good = (want in rets) and (want == 1 or rets == {0})
        chk.expect(good, 'R14.3', 'descriptor-path-length[%d]' % len(path),
                   'inserting a descriptor with a path of length %d %s; later strcpy()s into char[PATH_MAX=%d] rely on 0 < length < PATH_MAX'
                   % (len(path), 'is accepted' if want == 0 else 'is rejected', PM), 'wasiFileDescriptorsAdd:path-length')


def readdir_paths(tu, dir_value, cookie, buflen=100, errno_value=5, max_paths=4000, name=(110,)):
    def table():
        t = std_table(0)
        t[3]['dir'] = dir_value
        return t

    def mk(it, st):
        return [unk('instance'), 3, unk('buf', 'unsigned int'), buflen, cookie, unk('used', 'unsigned int')]
    st2 = {}
    leafs = {}

    def readdir_leaf(interp, args, node):
        st2['nread'] = st2.get('nread', 0) + 1
        k = st2['nread']
        interp.event('extern:readdir', (pe._hashable(args[0]),), node)
        if k > 2 or not interp.decide(unk('entry-%d' % k), node):
            interp.event('readdir-null', (), node)
            return 0
        ent = {'d_ino': unk('ino%d' % k, 'unsigned long'), 'd_off': unk('off%d' % k), 'd_reclen': unk('reclen'),
               'd_type': st2.get('dtype', 8), 'd_name': list(name) + [0]}
        cell = {'v': ent}
        return Ptr(cell, 'v')
    leafs['readdir'] = readdir_leaf
    leafs['strlen'] = lambda i, a, n: (len(name) if isinstance(a[0], Ptr) and isinstance(a[0].c, list) and a[0].c[:1] == [110] else Sym('strlen', (pe._hashable(a[0]),), 'unsigned long'))
    it = W.make_interp(tu, st2, leafs, max_paths)

    def setup():
        st2.clear()
        table_ = table()
        W.seed_globals(it, tu, st2, table_, errno_value=errno_value)
        st2['table'] = table_
        return ('wasiFDReaddir', mk(it, st2), dict(st2))
    return it.explore(setup)


def check_readdir(chk, tu):
    chk.fn('wasiFDReaddir')
    site = 'wasiFDReaddir'
    OPEN = unk('open-dir-stream')
    n = 0
    for dname, dval in (('closed-stream', 0), ('open-stream', OPEN)):
        for cname, cookie in (('cookie=0', 0), ('cookie=unknown', unk('cookie', 'unsigned long long'))):
            paths = readdir_paths(tu, dval, cookie)
            bad = []
            reach = 0
            for p in paths:
                names = [e[0] for e in p.events]
                if 'extern:readdir' not in names:
                    continue
                reach += 1
                i = names.index('extern:readdir')
                before = set(names[:i])
                if not before & {'extern:opendir', 'extern:seekdir', 'extern:rewinddir'}:
                    bad.append((p, p.events[i][2]))
            if not reach:
                continue
            n += 1
            # sub-case of the unknown cookie: report which value of (cookie != 0) the offending paths assume
            sub = ''
            if bad and cname == 'cookie=unknown':
                zero = all(any(pe.norm_cond(c).op == '!=' and not t for c, t, _ in p.decisions if any(
                    s_.op == 'unk' and s_.args[0] == 'cookie' for s_ in pe.sym_walk(c))) for p, _ in bad)
                sub = ' (all such paths have cookie == 0)' if zero else ''
            chk.expect(not bad, 'R14.4', 'position-follows-cookie[%s,%s]' % (dname, cname),
                       'fd_readdir reaches readdir() on an %s with %s without opendir/seekdir/rewinddir on %d of %d paths%s: the listing '
                       'continues wherever the previous call stopped instead of at the position the cookie names - with cookie 0 the listing '
                       'does not restart from the beginning' % (dname.replace('-', ' '), cname, len(bad), reach, sub),
                       site + ':no-reposition:' + dname, bad[0][1] if bad else None)
    chk.require(n >= 4, 'fd_readdir: only %d paths reach readdir()' % n)
    # R14.15: "resumes correctly from any returned cookie": a continuation call (cookie != 0) on a descriptor without a stream is refused
    # (BADF, the 'invalid cookie at start of readdir' guard), so every successful call - in particular one that reached the end of the
    # directory, after which the cookies it and its predecessors returned are still valid - leaves the descriptor's stream in the table
    m = 0
    for dname, dval in (('closed-stream', 0), ('open-stream', OPEN)):
        for cname, cookie in (('cookie=0', 0), ('cookie=unknown', unk('cookie', 'unsigned long long'))):
            for blen in (100, 30):
                bad = None
                ok_paths = 0
                for p in readdir_paths(tu, dval, cookie, buflen=blen):
                    if p.aborted or p.ret != 0:
                        continue
                    ok_paths += 1
                    final = p.state['table'][3]['dir']
                    if (final is None or (isinstance(final, int) and final == 0)) and bad is None:
                        ended = 'readdir-null' in [e[0] for e in p.events]
                        bad = 'on the successful path %s%s the descriptor is left without a directory stream' % (
                            p.cond_text()[:140], ' (end of directory reached)' if ended else '')
                if not ok_paths:
                    continue
                m += 1
                chk.expect(bad is None, 'R14.15', 'stream-kept-for-resumption[%s,%s,buflen=%d]' % (dname, cname, blen),
                           'fd_readdir on an %s with %s: %s - a later call that resumes from a cookie returned earlier is refused with EBADF '
                           'instead of delivering the remaining entries' % (dname.replace('-', ' '), cname, bad), site + ':stream-kept')
    chk.require(m >= 4, 'fd_readdir: only %d successful path families for the stream-kept rule' % m)
    # dirent layout on the first entry
    buf = unk('buf')
    paths = readdir_paths(tu, OPEN, unk('cookie', 'unsigned long long'))
    seen = 0
    for p in paths:
        gst = [(offset_from(a[1], buf), a[0], a[2]) for n_, a, l in p.events if n_ == 'gstore' and offset_from(a[1], buf) is not None]
        if len(gst) < 4:
            continue
        seen += 1
        first = sorted([(o, w) for o, w, v in gst[:4]])
        want = sorted(O.DIRENT['fields'].values())
        chk.expect(first == want, 'R14.5', 'dirent-layout', 'first directory entry is stored as (offset, bits) %r; witx dirent: %r' % (first, want),
                   site + ':dirent-layout')
        vals = {o: v for o, w, v in gst[:4]}
        okv = any(s.op == 'call' and s.args[0] == 'telldir' for s in pe.sym_walk(vals.get(0))) and \
            any(s.op == 'unk' and str(s.args[0]).startswith('ino') for s in pe.sym_walk(vals.get(8))) and \
            any(s.op == 'strlen' for s in pe.sym_walk(vals.get(16)))
        okv = okv or (any(s.op == 'call' and s.args[0] == 'telldir' for s in pe.sym_walk(vals.get(0))) and vals.get(16) == 1 and
                      any(s.op == 'unk' and str(s.args[0]).startswith('ino') for s in pe.sym_walk(vals.get(8))))
        chk.expect(okv, 'R14.5', 'dirent-values', 'dirent fields hold %r; expected d_next = telldir(), d_ino = inode, d_namlen = strlen(name)'
                   % ({k: repr(v)[:60] for k, v in vals.items()},), site + ':dirent-values')
        ms = [a for n_, a, l in p.events if n_ == 'extern:memset']
        chk.expect(ms and ms[0][2] == O.DIRENT['size'], 'R14.5', 'dirent-zero-fill', 'dirent zero-fill %r' % (ms[:1],), site + ':dirent-zero-fill')
        cps = [a for n_, a, l in p.events if n_ == 'extern:memcpy']
        okn = cps and offset_from(_strip_data(cps[0][0]), buf) == O.DIRENT['size']
        chk.expect(okn, 'R14.5', 'name-after-record', 'entry name is copied to %r, expected buffer + 24' % (cps[0][0] if cps else None,),
                   site + ':name-position')
        if seen >= 3:
            break
    chk.require(seen >= 1, 'no readdir path stores an entry')
    # buffer-full convention: bufused < buflen tells the guest that the directory is exhausted.  On every successful path that
    # has not seen readdir() return NULL the reported bufused must therefore equal buflen - decided for buffers smaller than a
    # record header (10), exactly a header (24), one record plus a remainder below a header (30), one record plus exactly a
    # header (49) and two records plus a remainder (55); the modelled entries have one-character names (25-byte records)
    used = unk('used')
    full = 0
    for blen in ((10, 24, 30, 49, 55) if chk.tier == 'quick' else range(0, 80)):
        paths = readdir_paths(tu, OPEN, unk('cookie', 'unsigned long long'), buflen=blen)
        for p in paths:
            if p.ret != 0:
                continue
            exhausted = any(e[0] == 'readdir-null' for e in p.events)
            if exhausted:
                continue
            fin = [a[2] for n_, a, l in p.events if n_ == 'gstore' and offset_from(a[1], used) == 0]
            full += 1
            chk.expect(bool(fin) and fin[-1] == blen, 'R14.5', 'buffer-full-convention[buflen=%d]' % blen,
                       'with a %d-byte buffer fd_readdir succeeds without having seen the end of the directory and reports bufused = %r; '
                       'anything below buflen (%d) tells the guest that no entries remain, so the rest of the directory is never delivered'
                       % (blen, fin[-1] if fin else None, blen), site + ':buffer-full')
    chk.require(full >= 2, 'no path exercises the buffer-full convention')
    # an entry whose name is cut by the end of the buffer still reports its full name length: the consumer detects the cut by
    # 24 + d_namlen > bytes left and reads the entry again from the previous cookie - with the truncated length in the header the cut
    # entry looks complete under a shorter name and the real entry is never delivered.  Entries with 3-character names, buffers that
    # end inside the first name (25, 26) and inside the second (27 + 25)
    ncut = 0
    for blen in (25, 26, 27 + 25):
        for p in readdir_paths(tu, OPEN, unk('cookie', 'unsigned long long'), buflen=blen, name=(110, 97, 98)):
            if p.ret != 0:
                continue
            lens_ = [(offset_from(a[1], buf), a[2]) for n_, a, l in p.events if n_ == 'gstore' and offset_from(a[1], buf) is not None and
                     isinstance(offset_from(a[1], buf), int) and offset_from(a[1], buf) % 27 == 16 and a[0] == 32]
            for off_, v_ in lens_:
                ncut += 1
                chk.expect(v_ == 3, 'R14.5', 'namlen-of-cut-entry[buflen=%d,entry@%d]' % (blen, off_ - 16),
                           'with a %d-byte buffer the entry at offset %d (name of 3 characters) is stored with d_namlen = %r; the header always '
                           'carries the full name length, also when the buffer ends inside the name' % (blen, off_ - 16, v_), site + ':namlen')
    chk.require(ncut >= 3, 'no path stores the name length of an entry cut by the end of the buffer')


def _strip_data(v):
    """memory->data + X  ->  X"""
    if is_sym(v) and v.op == '+' and len(v.args) == 2:
        a, b = v.args
        if is_sym(a) and a.op == 'unk' and a.args[0] == 'gdata':
            return b
        if is_sym(b) and b.op == 'unk' and b.args[0] == 'gdata':
            return a
    return v


def check_strcat_note(chk, tu):
    """unbounded concatenations into PATH_MAX arrays are recorded (not decided): see DESIGN.md"""
    f = tu.fn('wasiFDReaddir')
    cats = [n for n in walk(astdb.fn_body(f)) if n.get('kind') == 'CallExpr' and astdb.callee_name(n) == 'strcat']
    if cats:
        chk.note('fd_readdir lstat fallback: strcpy(path) + strcat("/") + strcat(d_name) into char[PATH_MAX] at %s is bounded only by '
                 'strlen(path) < PATH_MAX; a descriptor path longer than PATH_MAX-257 with a DT_UNKNOWN entry would overflow. Not replayable '
                 'here (needs a filesystem reporting DT_UNKNOWN), therefore recorded as a note, not a finding.' % astdb.loc_str(cats[0]))


def check_opened_descriptor_path(chk, tu):
    """R14.7: relative paths are resolved against the path recorded in the directory descriptor (R14.2) - so every descriptor that
    path_open issues, and that may denote a directory, must record the resolved path it was opened with (both generations, with and
    without the DIRECTORY flag, relative and absolute guest paths)"""
    eps = W.entry_points(tu)
    n = 0
    for gen, f in sorted(eps['path_open'].items()):
        for ofl in (0, O.OFLAGS.get('O_DIRECTORY', 2)):
            def mk(it, st):
                return [unk('instance'), 3, 0, unk('path', 'unsigned int'), 5, ofl, O.RIGHTS_FD_READ, 0, 0, unk('fdout', 'unsigned int')]
            paths = W.explore_entry(tu, f['name'], mk, lambda: std_table(0), errno_value=5, max_paths=2000)
            succ = [p for p in paths if p.ret == 0]
            chk.require(succ, '%s/path_open has no success path' % gen)
            for p in succ:
                t = p.state['table']
                inst = '%s/path_open[oflags=%d,%s]' % (gen, ofl, p.cond_text()[:60])
                if not chk.expect(len(t) == 5, 'R14.7', inst + ':registered', 'path_open succeeds with %d table slots (expected one new)' % len(t),
                                  'path_open:registers'):
                    continue
                n += 1
                opens = [a for nm, a, l in p.events if nm == 'extern:open']
                pth = t[4].get('path')
                known_not_dir = any('S_ISDIR' in repr(c) or 'st_mode' in repr(c) for c, tk, _l in p.decisions) and ofl == 0
                dup = is_sym(pth) and pth.op == 'call' and pth.args[0] in ('strdup', 'strndup', '__strdup', '__strndup')
                same = dup and opens and any(repr(pe.strip_casts(x)) == repr(pe.strip_casts(opens[-1][0])) for x in pth.args[1:] if not isinstance(x, int))
                chk.expect(bool(same) or known_not_dir, 'R14.7', inst + ':path-recorded',
                           'path_open registers the new descriptor with path %r; expected a copy of the resolved path handed to open() - a directory '
                           'opened this way could not serve as the base of later relative paths or be listed' % (pth,), 'path_open:descriptor-path')
    chk.require(n >= 4, 'only %d path_open success paths analysed' % n)


def check_readlink(chk, tu):
    """R14.6: path_readlink hands the guest buffer and its length to the host readlink and writes nothing else into guest memory
    (the host call does not terminate the string; a terminator written by the wrapper lands outside the buffer when the target fills it)"""
    eps = W.entry_points(tu)
    for gen in ('preview1', 'unstable'):
        f = eps['path_readlink'][gen]
        chk.fn(f['name'])
        paths = W.explore_entry(tu, f['name'], lambda it, st: [unk('instance'), 3, unk('path', 'unsigned int'), 5, unk('buf', 'unsigned int'),
                                                             unk('buflen', 'unsigned int'), unk('res', 'unsigned int')],
                                lambda: std_table(0), errno_value=5)
        succ = [p for p in paths if p.ret == 0]
        chk.require(succ, '%s/path_readlink has no success path' % gen)
        site = 'path_readlink:guest-buffer'
        for k, p in enumerate(succ):
            calls = [a for n, a, l in p.events if n == 'extern:readlink']
            ok_call = len(calls) == 1 and repr(pe.strip_casts(calls[0][1])) == '($gdata + $buf)' and repr(pe.strip_casts(calls[0][2])) == '$buflen'
            chk.expect(ok_call, 'R14.6', '%s/path_readlink:host-call[%d]' % (gen, k),
                       'host readlink is called with %r; expected the guest buffer (memory data + bufferPointer) and bufferLength'
                       % ([[repr(x)[:60] for x in c] for c in calls],), site)
            raw = [(n, a) for n, a, l in p.events if n.startswith('store-sym') and 'gdata' in repr(a[0])]
            chk.expect(not raw, 'R14.6', '%s/path_readlink:no-extra-guest-writes[%d]' % (gen, k),
                       'besides the host readlink the wrapper itself writes into guest memory at %s: when the link target fills the buffer '
                       '(length == bufferLength) that byte lies outside the guest buffer' % (', '.join(repr(a[0])[:90] for n, a in raw),), site)
            gs = [a for n, a, l in p.events if n == 'gstore']
            ok_len = len(gs) == 1 and gs[0][0] == 32 and repr(pe.strip_casts(gs[0][1])) == '$res' and 'readlink(' in repr(gs[0][2])
            chk.expect(ok_len, 'R14.6', '%s/path_readlink:length-result[%d]' % (gen, k),
                       'the number of bytes is reported by %r; expected one 32-bit store of the host result at lengthPointer'
                       % ([[repr(x)[:50] for x in g] for g in gs],), site)


def check_raw_guest_writes(chk, tu):
    """R14.6 (general form): no path-taking import writes guest memory byte-wise on its own"""
    eps = W.entry_points(tu)
    for imp in sorted(set(PATH_IMPORTS) | {'path_readlink', 'fd_prestat_dir_name', 'fd_prestat_get'}):
        for gen, f in sorted(eps.get(imp, {}).items()):
            try:
                raw, n = W.raw_guest_writes(tu, f, lambda: std_table(1))
            except pe.PEError as e:
                chk.note('raw guest writes of %s/%s not decided: %s' % (gen, imp, str(e)[:80]))
                continue
            chk.expect(not raw, 'R14.6', '%s/%s:no-raw-guest-writes' % (gen, imp),
                       '%s writes guest memory through %s itself (outside the typed store helpers and host calls bounded by the guest length)'
                       % (imp, ', '.join(sorted(raw))), imp + ':raw-guest-write')


def run(chk):
    chk.explanation = (
        'Each path_* import of both generations is partially evaluated with resolvePath as an oracle leaf that marks its output buffer: the '
        'native path arguments must be copies of that marked buffer (taint rule source = guest pointer, sanitizer = resolvePath), resolution '
        'is anchored at the stored descriptor path, and a failed resolution stops before any host call. resolvePath itself is summarised '
        'with symbolic strlen(directory) and pathLength; every write is turned into a linear form and must be entailed, coefficient-wise, by '
        'a guard of the path. fd_readdir is summarised for {stream open, not open} x {cookie 0, unknown}: the first readdir() must be '
        'preceded by opendir/seekdir/rewinddir; the dirent stores are compared with the witx layout. Listing completeness across calls and '
        'host directory semantics are not decided.')
    chk.assumptions = ['telldir/seekdir cookies are stable (POSIX)', 'strlen(argv path) invariants established at insertion hold for preopens',
                       'symlink-follow flags are not decided']
    tu = W.wasi_tu()
    chk.unit(tu)
    check_path_imports(chk, tu)
    check_follow_flag(chk, tu)
    chk.floor('R14.11', 2)
    check_resolve(chk, tu)
    check_invariant(chk, tu)
    check_readdir(chk, tu)
    check_strcat_note(chk, tu)
    check_readlink(chk, tu)
    check_raw_guest_writes(chk, tu)
    check_opened_descriptor_path(chk, tu)
    # R14.8: "with its error code translated" - every path import reports a failed host call through wasiErrno(); the table is decided
    # row by row against the witx numbers (rule shared with C12 R12.3), and each path import's failure paths must return that translation
    from . import c12
    c12.check_errno_table(chk, tu, W.host_macros(('E', 'SEEK_', 'O_')), rule='R14.8')
    chk.floor('R14.8', 30)
    # R14.10: the type byte of a directory entry: host mode word -> witx filetype, for every host S_IF* kind (rule shared with C12 R12.3)
    c12.check_filetype_table(chk, tu, rule='R14.10')
    chk.floor('R14.10', 25)
    check_error_translation(chk, tu)
    chk.floor('R14.13', 30)
    check_native_path_bytes(chk, tu)
    chk.floor('R14.12', 90)
    chk.floor('R14.9', 4)
    chk.floor('R14.7', 8)
    chk.floor('R14.1', 40)
    chk.floor('R14.2', 8)
    chk.floor('R14.3', 4)
    chk.floor('R14.4', 4)
    chk.floor('R14.5', 4)
    chk.floor('R14.6', 6)
